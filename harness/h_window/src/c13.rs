//! C13 — sliding windows contain exactly the events in range at each emission (DESIGN.md §3).
//!
//! E2, stateless: every in-order stream (ties included) on the 0.5 s grid up to a length bound ×
//! every (size, slide ≤ size) ∈ {1,2,3}² × every assignment of events to ≤ 2 partitions is replayed
//! on fresh real `SlidingWindow`, `SlidingCountWindow`, `PartitionedSlidingWindow` objects and on a
//! fresh real engine (the only way to reach the crate-private partitioned count-sliding window).
//!
//! Reference model: a list. Time: emission at event i iff it is the first event (of its partition)
//! or ts_i ≥ last_emission_ts + slide; content = events (of the partition) with ts within `size` of
//! ts_i, arrival order. Count: emission iff ≥ N events seen and ≥ slide events since the previous
//! emission; content = the last N events.
//! Don't-care (DESIGN §1b): whether an event exactly `size` old belongs to the emission. The
//! implementation's choice is probed once at start-up; only *consistency* with that choice is
//! required everywhere (plain, partitioned, engine).

use crate::common::*;
use chrono::Duration;
use mc::{Acc, Args, Deadline, Report};
use serde_json::{json, Value as J};
use varpulis_core::ast::Program;
use varpulis_runtime::window::{PartitionedSlidingWindow, SlidingCountWindow, SlidingWindow};

const GRID: i64 = 9;
const KEYS: [&str; 2] = ["x", "y"];

#[derive(Clone, Copy, Debug, PartialEq, Eq, Hash)]
enum Variant {
    TimePlain,
    CountPlain,
    TimePartitioned,
    EngTimePlain,
    EngCountPlain,
    EngTimePartitioned,
    EngCountPartitioned,
}
use Variant::*;
impl Variant {
    fn name(self) -> &'static str {
        match self {
            TimePlain => "time_plain",
            CountPlain => "count_plain",
            TimePartitioned => "time_partitioned",
            EngTimePlain => "engine_time_plain",
            EngCountPlain => "engine_count_plain",
            EngTimePartitioned => "engine_time_partitioned",
            EngCountPartitioned => "engine_count_partitioned",
        }
    }
    fn from(s: &str) -> Variant {
        [TimePlain, CountPlain, TimePartitioned, EngTimePlain, EngCountPlain, EngTimePartitioned, EngCountPartitioned].into_iter().find(|v| v.name() == s).unwrap_or(TimePlain)
    }
    fn is_time(self) -> bool {
        matches!(self, TimePlain | TimePartitioned | EngTimePlain | EngTimePartitioned)
    }
    fn partitioned(self) -> bool {
        matches!(self, TimePartitioned | EngTimePartitioned | EngCountPartitioned)
    }
    fn engine(self) -> bool {
        matches!(self, EngTimePlain | EngCountPlain | EngTimePartitioned | EngCountPartitioned)
    }
}

#[derive(Clone, Debug)]
struct Case {
    variant: Variant,
    size: i64,
    slide: i64,
    /// grid timestamps, non-decreasing (count variants: all 0)
    ts: Vec<i64>,
    /// partition index per event (plain variants: all 0)
    keys: Vec<u8>,
}
impl Case {
    fn json(&self) -> J {
        json!({"variant": self.variant.name(), "size": self.size, "slide": self.slide, "ts": self.ts, "keys": self.keys,
               "readable": self.ts.iter().zip(&self.keys).map(|(t, k)| if self.variant.partitioned() { format!("add(ts={}, k={})", secs(*t), KEYS[*k as usize]) } else { format!("add(ts={})", secs(*t)) }).collect::<Vec<_>>()})
    }
    fn from(j: &J) -> Case {
        let arr = |k: &str| -> Vec<i64> { j[k].as_array().map(|a| a.iter().map(|v| v.as_i64().unwrap_or(0)).collect()).unwrap_or_default() };
        Case { variant: Variant::from(j["variant"].as_str().unwrap_or("")), size: j["size"].as_i64().unwrap_or(1), slide: j["slide"].as_i64().unwrap_or(1), ts: arr("ts"), keys: arr("keys").into_iter().map(|k| k as u8).collect() }
    }
}

/// Per step: None = no emission; Some((expected, alternative)) where `expected` follows the probed
/// boundary choice and `alternative` the other choice (equal unless an event is exactly `size` old).
type Expect = Vec<Option<(Vec<i64>, Vec<i64>)>>;

fn model(c: &Case, inclusive: bool) -> Expect {
    let mut out = Vec::new();
    let mut last_emit: [Option<i64>; 2] = [None, None];
    let mut since: [i64; 2] = [0, 0];
    for i in 0..c.ts.len() {
        let k = c.keys[i] as usize;
        let mine: Vec<usize> = (0..=i).filter(|j| c.keys[*j] as usize == k).collect();
        if c.variant.is_time() {
            let t = c.ts[i];
            let emit = match last_emit[k] {
                None => true,
                Some(l) => t >= l + c.slide * 2,
            };
            if emit {
                last_emit[k] = Some(t);
                let strict: Vec<i64> = mine.iter().filter(|j| c.ts[**j] > t - c.size * 2).map(|j| *j as i64).collect();
                let incl: Vec<i64> = mine.iter().filter(|j| c.ts[**j] >= t - c.size * 2).map(|j| *j as i64).collect();
                out.push(Some(if inclusive { (incl, strict) } else { (strict, incl) }));
            } else {
                out.push(None);
            }
        } else {
            since[k] += 1;
            let n = c.size as usize;
            if mine.len() >= n && since[k] >= c.slide {
                since[k] = 0;
                let last: Vec<i64> = mine[mine.len() - n..].iter().map(|j| *j as i64).collect();
                out.push(Some((last.clone(), last)));
            } else {
                out.push(None);
            }
        }
    }
    out
}

fn program(v: Variant, size: i64, slide: i64) -> Program {
    let part = if v.partitioned() { "    .partition_by(k)\n" } else { "" };
    let win = if v.is_time() { format!(".window({size}s, sliding: {slide}s)") } else { format!(".window({size}, sliding: {slide})") };
    parse(&format!("stream S = A\n{part}    {win}\n    {WINDOW_AGG}\n"))
}

/// Real execution: per step the emitted id list (arrival order) or None.
fn run_real(c: &Case, prog: Option<&Program>) -> Result<Vec<Option<Vec<i64>>>, String> {
    let mk = |i: usize| {
        let k = if c.variant.partitioned() { Some(KEYS[c.keys[i] as usize]) } else { None };
        bit_event("A", i as i64, c.ts[i], k)
    };
    let (d, s) = (Duration::seconds(c.size), Duration::seconds(c.slide));
    let n = c.ts.len();
    match c.variant {
        TimePlain => {
            let mut w = SlidingWindow::new(d, s);
            Ok((0..n).map(|i| w.add_shared(shared(mk(i))).map(|e| ids(&e))).collect())
        }
        CountPlain => {
            let mut w = SlidingCountWindow::new(c.size as usize, c.slide as usize);
            Ok((0..n).map(|i| w.add_shared(shared(mk(i))).map(|e| ids(&e))).collect())
        }
        TimePartitioned => {
            let mut w = PartitionedSlidingWindow::new("k".to_string(), d, s);
            Ok((0..n).map(|i| w.add_shared(shared(mk(i))).map(|e| ids(&e))).collect())
        }
        _ => {
            let owned;
            let prog = match prog {
                Some(p) => p,
                None => {
                    owned = program(c.variant, c.size, c.slide);
                    &owned
                }
            };
            let outs = run_engine(prog, (0..n).map(|i| EngOp::Ev(mk(i))).collect())?;
            let mut res = Vec::with_capacity(n);
            for (step, o) in outs.iter().enumerate() {
                match o.len() {
                    0 => res.push(None),
                    1 => res.push(Some(decode_window(&o[0]).map_err(|m| format!("output of step {step}: {m}"))?)),
                    k => return Err(format!("step {step} produced {k} outputs for one arriving event")),
                }
            }
            Ok(res)
        }
    }
}

fn check(c: &Case, prog: Option<&Program>, inclusive: bool, acc: &mut Acc, order: usize) {
    let res = mc::catch(|| run_real(c, prog));
    acc.evaluations += 1;
    let size = ((c.ts.len() * 16 + (c.size * 4 + c.slide) as usize) << 40) | order.min((1 << 40) - 1);
    let sig = |clause: &str| format!("C13:{}:{clause}", c.variant.name());
    let head = format!("{} size={} slide={}{}, stream {:?}", c.variant.name(), c.size, c.slide, if c.variant.is_time() { " (s)" } else { "" }, c.json()["readable"]);
    let got = match res {
        Ok(Ok(g)) => g,
        Ok(Err(m)) => {
            acc.viol.add(sig("content"), format!("{head}: {m}"), c.json(), size);
            return;
        }
        Err(p) => {
            acc.viol.add(sig("panic"), format!("{head}: panic {p} at {}", mc::last_panic_location()), c.json(), size);
            return;
        }
    };
    acc.outcome(&(c.variant, c.size, c.slide, &got));
    let exp = model(c, inclusive);
    // non-trivial: some emission no longer holds the first event of its partition (something was evicted)
    if exp.iter().enumerate().any(|(i, e)| e.as_ref().is_some_and(|(w, _)| w.first().copied() != (0..=i).find(|j| c.keys[*j] == c.keys[i]).map(|j| j as i64))) {
        acc.nontrivial += 1;
    }
    for (i, (g, e)) in got.iter().zip(&exp).enumerate() {
        match (g, e) {
            (None, None) => {}
            (Some(_), None) => return acc.viol.add(sig("emission"), format!("{head}: step {i} emitted although the slide has not elapsed since the previous emission"), c.json(), size),
            (None, Some(_)) => return acc.viol.add(sig("emission"), format!("{head}: step {i} did not emit although the slide has elapsed (or the window is first full)"), c.json(), size),
            (Some(g), Some((want, alt))) => {
                if want != alt {
                    acc.count(if inclusive { "emissions_with_event_exactly_size_old_included" } else { "emissions_with_event_exactly_size_old_excluded" }, 1);
                }
                if g == want {
                } else if g == alt {
                    return acc.viol.add(sig("boundary_inconsistent"), format!("{head}: step {i} emitted {g:?}; elsewhere an event exactly `size` old is {}, here it is not", if inclusive { "included" } else { "excluded" }), c.json(), size);
                } else {
                    return acc.viol.add(sig("content"), format!("{head}: step {i} emitted {g:?}, the events in range are {want:?}"), c.json(), size);
                }
            }
        }
    }
}

/// all non-decreasing sequences of length `len` over the grid
fn in_order_streams(len: usize) -> Vec<Vec<i64>> {
    fn rec(len: usize, lo: i64, cur: &mut Vec<i64>, out: &mut Vec<Vec<i64>>) {
        if cur.len() == len {
            out.push(cur.clone());
            return;
        }
        for t in lo..GRID {
            cur.push(t);
            rec(len, t, cur, out);
            cur.pop();
        }
    }
    let mut out = Vec::new();
    rec(len, 0, &mut Vec::new(), &mut out);
    out
}

/// The implementation's choice for the don't-care: is an event exactly `size` old part of the emission?
fn probe_inclusive() -> bool {
    let c = Case { variant: TimePlain, size: 1, slide: 1, ts: vec![0, 2], keys: vec![0, 0] };
    match run_real(&c, None) {
        Ok(g) if g.len() == 2 => match &g[1] {
            Some(v) => v.contains(&0),
            None => true,
        },
        _ => true,
    }
}

fn self_test() {
    // size 2s slide 1s, ts 0, 0.5, 1, 2, 2, 4: emissions at 0, 1, 2(first), 4
    let c = Case { variant: TimePlain, size: 2, slide: 1, ts: vec![0, 1, 2, 4, 4, 8], keys: vec![0; 6] };
    let m = model(&c, true);
    assert_eq!(m[0], Some((vec![0], vec![0])));
    assert_eq!(m[1], None);
    assert_eq!(m[2], Some((vec![0, 1, 2], vec![0, 1, 2])));
    assert_eq!(m[3], Some((vec![0, 1, 2, 3], vec![1, 2, 3]))); // the event at 0 is exactly 2s old
    assert_eq!(m[4], None);
    assert_eq!(m[5], Some((vec![3, 4, 5], vec![5])));
    // count 3 slide 2: first emission at the 3rd event, then every 2
    let c = Case { variant: CountPlain, size: 3, slide: 2, ts: vec![0; 7], keys: vec![0; 7] };
    let m = model(&c, true);
    let em: Vec<usize> = (0..7).filter(|i| m[*i].is_some()).collect();
    assert_eq!(em, vec![2, 4, 6]);
    assert_eq!(m[4].as_ref().unwrap().0, vec![2, 3, 4]);
    // partitions are independent: x x y x with count 2 slide 1
    let c = Case { variant: EngCountPartitioned, size: 2, slide: 1, ts: vec![0; 4], keys: vec![0, 0, 1, 0] };
    let m = model(&c, true);
    assert_eq!(m[1].as_ref().unwrap().0, vec![0, 1]);
    assert_eq!(m[2], None);
    assert_eq!(m[3].as_ref().unwrap().0, vec![1, 3]);
    assert_eq!(in_order_streams(2).len(), 45);
}

pub fn run(args: &Args) -> ! {
    let mut rep = Report::new(args, "model_checking");
    self_test();
    let inclusive = probe_inclusive();
    if let Some(path) = &args.replay {
        let c = Case::from(&mc::load_replay(path));
        let mut acc = Acc::default();
        check(&c, None, inclusive, &mut acc, 0);
        rep.absorb(acc);
        rep.evaluations = rep.evaluations.max(1);
        rep.finish();
    }
    let deadline = Deadline::after(std::time::Duration::from_secs(args.tier.pick(32, 1080)));
    {
        let c = Case { variant: EngTimePartitioned, size: 2, slide: 1, ts: vec![0, 1, 2, 4, 4, 8], keys: vec![0, 1, 0, 0, 1, 0] };
        if run_real(&c, None) != run_real(&c, None) {
            mc::machinery_error("engine replay is not deterministic");
        }
    }
    let api_len = args.tier.pick(7usize, 8usize);
    let eng_len = args.tier.pick(6usize, 7usize);
    let count_len = args.tier.pick(10usize, 13usize);
    let streams: Vec<Vec<Vec<i64>>> = (0..=api_len).map(in_order_streams).collect();
    let configs: Vec<(i64, i64)> = (1..=3).flat_map(|s| (1..=s).map(move |l| (s, l))).collect();
    let mut states = 0u64;

    for v in [TimePlain, TimePartitioned, EngTimePlain, EngTimePartitioned, CountPlain, EngCountPlain, EngCountPartitioned] {
        for &(size, slide) in &configs {
            let prog = if v.engine() { Some(program(v, size, slide)) } else { None };
            let maxlen = if v.is_time() {
                if v.engine() {
                    eng_len
                } else {
                    api_len
                }
            } else {
                count_len
            };
            // work items: (length, stream index); key masks are enumerated inside
            let items: Vec<(usize, usize)> = (0..=maxlen).flat_map(|l| (0..if v.is_time() { streams[l].len() } else { 1 }).map(move |s| (l, s))).collect();
            let (acc, done) = mc::par_indices(items.len() as u64, args.threads, 8, |i, acc| {
                if deadline.expired() {
                    return false;
                }
                let (l, s) = items[i as usize];
                let ts: Vec<i64> = if v.is_time() { streams[l][s].clone() } else { vec![0; l] };
                // a key mask and its complement are the same case up to renaming x/y: event 0 is always in x
                let masks: u64 = if v.partitioned() { 1u64 << l.saturating_sub(1) } else { 1 };
                for m in 0..masks {
                    let keys: Vec<u8> = (0..l).map(|j| if j == 0 { 0 } else { (m >> (j - 1) & 1) as u8 }).collect();
                    let c = Case { variant: v, size, slide, ts: ts.clone(), keys };
                    check(&c, prog.as_ref(), inclusive, acc, (i as usize) << 12 | m as usize);
                    acc.count("add_operations", l as u64);
                }
                true
            });
            if !done {
                rep.cap_hit(&format!("wall cap during {} size={size} slide={slide}", v.name()));
            }
            rep.traces += acc.evaluations;
            states += acc.outcomes.len() as u64;
            rep.add_count(&format!("executions_{}", v.name()), acc.evaluations);
            rep.absorb(acc);
        }
    }
    rep.states = states;
    rep.transitions = rep.extra.get("add_operations").and_then(|v| v.as_u64()).unwrap_or(0);
    rep.set("boundary_choice_observed", json!(if inclusive { "an event exactly `size` older than the triggering event IS part of the emission (>= cutoff)" } else { "an event exactly `size` older than the triggering event is NOT part of the emission" }));
    rep.set("bounds", json!({"time_stream_length_api": api_len, "time_stream_length_engine": eng_len, "count_stream_length": count_len, "size_slide_pairs": configs}));
    rep.sample(json!({"variant":"time_partitioned","size":"2s","slide":"1s","stream":["add(ts=0s,k=x)","add(ts=0.5s,k=y)","add(ts=1s,k=x)","add(ts=2s,k=x)"]}));
    rep.sample(json!({"variant":"engine_count_partitioned","program":"stream S = A.partition_by(k).window(3, sliding: 2).aggregate(..).emit(..)","stream":"13 events, every assignment to partitions x/y"}));
    rep.rule = format!("Exhaustive: (size, slide) ∈ {{1,2,3}}² with slide ≤ size (6 pairs; seconds for time windows, events for count windows). Time windows: every non-decreasing timestamp sequence (ties included) over the 0.5 s grid 0..4 s of length ≤ {api_len} on SlidingWindow and, with every assignment of events to ≤ 2 partitions (first event in x), on PartitionedSlidingWindow; length ≤ {eng_len} through Engine programs `A[.partition_by(k)].window(Ns, sliding: Ms).aggregate(..).emit(..)`. Count windows: every stream length ≤ {count_len} on SlidingCountWindow and through the engine, plain and with every partition assignment (PartitionedSlidingCountWindowState is crate-private). Every step's emission (or silence) is compared with the list model. Non-trivial = some emission no longer contains the first event of its partition (an eviction happened). transitions = add operations executed; states = distinct per-step observation vectors.");
    rep.assume("don't-care (DESIGN §1b): whether an event whose timestamp is exactly `t − size` belongs to the emission triggered at t; the implementation's choice is probed once (recorded in `boundary_choice_observed`) and only consistency with it is required across emissions and across plain/partitioned/engine variants");
    rep.assume("slide > size is outside the bound (the property's `starting once the window is first full` and the code only agree for slide ≤ size)");
    rep.assume("`has elapsed since the previous emission` is read as ts ≥ previous emission ts + slide, the first event (of a partition) always emitting; advance_watermark on sliding windows is not covered by the property text and is not driven");
    rep.assume("engine outputs are decoded from count(), first(id), last(id), sum(2^id), which identifies the emitted set and its ends; full arrival order inside an emission is checked on the window API variants");
    rep.finish();
}
