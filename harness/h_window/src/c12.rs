//! C12 — tumbling, count and session windows partition their input exactly (DESIGN.md §3).
//!
//! E2, stateless: every operation history `add(ts) | watermark(ts)` up to a length bound is replayed
//! on a fresh real window (`add_shared`, `advance_watermark`, `len`, `flush_shared`) and, one level
//! up, on a fresh real engine (`process`, `advance_external_watermark`, `flush_expired_sessions`).
//!
//! Reference model (nothing else is trusted): the list of added ids in arrival order. Demanded:
//!  (partition)  concat(emitted windows) ++ buffered == added ids, in arrival order, no id twice;
//!  (count_size) a count window closes with exactly N events;
//!  (span)       in-order adds only: every tumbling window holds only events with ts < first.ts + d;
//!  (gap)        in-order adds only: consecutive events of a session window are ≤ gap apart.

use crate::common::*;
use chrono::Duration;
use mc::{Acc, Args, Deadline, Report, SeqSpace};
use serde_json::{json, Value as J};
use varpulis_core::ast::Program;
use varpulis_runtime::window::{CountWindow, SessionWindow, TumblingWindow};
use varpulis_runtime::SharedEvent;

pub const GRID: i64 = 9; // 0, 0.5, …, 4 s
pub const MAXLEN: usize = 8; // longest history (count windows, thorough: 7)

#[derive(Clone, Copy, Debug, PartialEq, Eq, Hash)]
pub enum Kind {
    Tumbling,
    Session,
    Count,
}
impl Kind {
    fn name(self) -> &'static str {
        match self {
            Kind::Tumbling => "tumbling",
            Kind::Session => "session",
            Kind::Count => "count",
        }
    }
    fn from(s: &str) -> Kind {
        match s {
            "tumbling" => Kind::Tumbling,
            "session" => Kind::Session,
            _ => Kind::Count,
        }
    }
    /// op alphabet: add(0) … add(4s) first, then watermark(0) … watermark(4s) (time windows only)
    fn alphabet(self) -> usize {
        match self {
            Kind::Count => GRID as usize,
            _ => 2 * GRID as usize,
        }
    }
}

#[derive(Clone, Copy, Debug, PartialEq, Eq)]
pub enum Op {
    Add(i64),
    Wm(i64),
}
fn op_of(i: usize) -> Op {
    if (i as i64) < GRID {
        Op::Add(i as i64)
    } else {
        Op::Wm(i as i64 - GRID)
    }
}
fn readable(hist: &[usize]) -> Vec<String> {
    hist.iter()
        .map(|i| match op_of(*i) {
            Op::Add(h) => format!("add(ts={})", secs(h)),
            Op::Wm(h) => format!("watermark({})", secs(h)),
        })
        .collect()
}

/// What one execution showed: closed windows in emission order, then the buffer (ids = history positions).
#[derive(Debug, Default, Clone, PartialEq, Eq, Hash)]
pub struct Observed {
    pub emitted: Vec<Vec<i64>>,
    pub rest: Vec<i64>,
    /// `len()`/`current_count()` just before the final flush (None where the type has no such accessor)
    pub len_before_flush: Option<usize>,
}

/// The reference model's verdict on an observation. `ts[id]` = timestamp (grid) of the add at
/// history position `id`, `adds` = positions of add ops in arrival order.
/// Returns violated clauses with a message.
pub fn judge(kind: Kind, size: i64, adds: &[(i64, i64)], in_order: bool, obs: &Observed) -> Vec<(&'static str, String)> {
    let mut bad = Vec::new();
    let expect: Vec<i64> = adds.iter().map(|a| a.0).collect();
    let mut all: Vec<i64> = obs.emitted.iter().flatten().copied().collect();
    all.extend(obs.rest.iter().copied());
    if all != expect {
        bad.push(("partition", format!("emitted windows {:?} ++ buffered {:?} is not the arrival sequence {:?}", obs.emitted, obs.rest, expect)));
    }
    if let Some(l) = obs.len_before_flush {
        if l != obs.rest.len() {
            bad.push(("partition", format!("len() = {l} but flush returned {} events", obs.rest.len())));
        }
    }
    let ts_of = |id: i64| adds.iter().find(|a| a.0 == id).map(|a| a.1);
    if kind == Kind::Count {
        for w in &obs.emitted {
            if w.len() as i64 != size {
                bad.push(("count_size", format!("count window of size {size} closed with {} events {w:?}", w.len())));
            }
        }
    }
    if in_order && all == expect {
        for w in obs.emitted.iter().chain(std::iter::once(&obs.rest)) {
            let tss: Vec<i64> = w.iter().filter_map(|i| ts_of(*i)).collect();
            match kind {
                Kind::Tumbling => {
                    if let Some(f) = tss.first() {
                        if let Some(x) = tss.iter().find(|t| **t >= f + size * 2) {
                            bad.push(("span", format!("a {size}s tumbling window starting at {} also holds an event at {}", secs(*f), secs(*x))));
                        }
                    }
                }
                Kind::Session => {
                    if let Some(p) = tss.windows(2).find(|p| p[1] - p[0] > size * 2) {
                        bad.push(("gap", format!("a session (gap {size}s) holds consecutive events at {} and {}", secs(p[0]), secs(p[1]))));
                    }
                }
                Kind::Count => {}
            }
        }
    }
    bad
}

fn adds_of(hist: &[usize]) -> Vec<(i64, i64)> {
    hist.iter().enumerate().filter_map(|(p, i)| if let Op::Add(h) = op_of(*i) { Some((p as i64, h)) } else { None }).collect()
}

/// Signature from attributes of the case only: window kind, clause, whether the history holds a
/// watermark op, whether adds are out of order, and the level (window API / engine).
fn signature(level: &str, kind: Kind, clause: &str, hist: &[usize]) -> String {
    let has_wm = hist.iter().any(|i| matches!(op_of(*i), Op::Wm(_)));
    let adds = adds_of(hist);
    let ooo = !adds.windows(2).all(|w| w[0].1 <= w[1].1);
    let comp = if level == "engine" { format!("engine_{}", kind.name()) } else { kind.name().to_string() };
    format!("C12:{comp}:{clause}{}{}", if ooo { "_out_of_order" } else { "" }, if has_wm { "_after_watermark_close" } else { "" })
}

/// Set by the extra argument `--emulate-fix` (never by a tier): evaluates the repair proposed for
/// `C12:tumbling:span_after_watermark_close` without touching /repo. No evidence is written.
static EMULATE_FIX: std::sync::atomic::AtomicBool = std::sync::atomic::AtomicBool::new(false);

pub struct EventPool {
    ev: Vec<Vec<SharedEvent>>, // [position][grid]
}
impl EventPool {
    pub fn new() -> Self {
        EventPool { ev: (0..MAXLEN as i64).map(|p| (0..GRID).map(|h| shared(event("A", p, h))).collect()).collect() }
    }
    fn get(&self, pos: usize, h: i64) -> SharedEvent {
        self.ev[pos][h as usize].clone()
    }
}

/// Replay one history on a fresh real window. Also returns the canonical state reached before the
/// final flush: (buffered timestamps, window_start / last_event_time) relative to T0.
pub fn run_api(kind: Kind, size: i64, hist: &[usize], pool: &EventPool, want_state: bool) -> (Observed, Option<(Vec<i64>, Option<i64>)>) {
    let mut obs = Observed::default();
    let d = Duration::seconds(size);
    enum W {
        T(TumblingWindow),
        S(SessionWindow),
        C(CountWindow),
    }
    let mut w = match kind {
        Kind::Tumbling => W::T(TumblingWindow::new(d)),
        Kind::Session => W::S(SessionWindow::new(d)),
        Kind::Count => W::C(CountWindow::new(size as usize)),
    };
    for (p, i) in hist.iter().enumerate() {
        let r = match (op_of(*i), &mut w) {
            (Op::Add(h), W::T(w)) => w.add_shared(pool.get(p, h)),
            (Op::Add(h), W::S(w)) => w.add_shared(pool.get(p, h)),
            (Op::Add(h), W::C(w)) => w.add_shared(pool.get(p, h)),
            (Op::Wm(h), W::T(w)) => {
                let r = w.advance_watermark(ts(h));
                if r.is_some() && EMULATE_FIX.load(std::sync::atomic::Ordering::Relaxed) {
                    // diagnostic only (`--emulate-fix`): what `window_start = None` after a
                    // watermark close would do, through the public restore() of an empty checkpoint
                    w.restore(&varpulis_runtime::persistence::WindowCheckpoint { events: Vec::new(), window_start_ms: None, last_emit_ms: None, partitions: Default::default() });
                }
                r
            }
            (Op::Wm(h), W::S(w)) => w.advance_watermark(ts(h)),
            (Op::Wm(_), W::C(_)) => None,
        };
        if let Some(evs) = r {
            obs.emitted.push(ids(&evs));
        }
    }
    let state = if want_state {
        let cp = match &w {
            W::T(w) => w.checkpoint(),
            W::S(w) => w.checkpoint(),
            W::C(w) => w.checkpoint(),
        };
        Some((cp.events.iter().map(|e| e.timestamp_ms - T0_MS).collect(), cp.window_start_ms.map(|m| m - T0_MS)))
    } else {
        None
    };
    obs.len_before_flush = match &w {
        W::T(w) => Some(w.len()),
        W::C(w) => Some(w.current_count()),
        W::S(_) => None,
    };
    obs.rest = match &mut w {
        W::T(w) => ids(&w.flush_shared()),
        W::S(w) => ids(&w.flush_shared()),
        W::C(w) => ids(&w.flush_shared()),
    };
    (obs, state)
}

fn case_size(hist: &[usize], size: i64) -> usize {
    // (length, window size, history read as a base-18 number): deterministic smallest case per signature
    let idx = hist.iter().rev().fold(0usize, |a, d| a * 18 + d);
    ((hist.len() * 4 + size as usize) << 40) | idx
}

fn check_api(kind: Kind, size: i64, hist: &[usize], pool: &EventPool, acc: &mut Acc, want_state: bool) {
    let res = mc::catch(|| run_api(kind, size, hist, pool, want_state));
    acc.evaluations += 1;
    let case = || json!({"level":"api","kind":kind.name(),"size":size,"ops":hist,"readable":readable(hist)});
    let (obs, state) = match res {
        Ok(x) => x,
        Err(p) => {
            acc.viol.add(signature("api", kind, "panic", hist), format!("{} window (size {size}) panicked on {:?}: {p} at {}", kind.name(), readable(hist), mc::last_panic_location()), case(), case_size(hist, size));
            return;
        }
    };
    if !obs.emitted.is_empty() {
        acc.nontrivial += 1;
    }
    if let Some(s) = state {
        acc.outcome(&(kind, size, s));
    }
    let adds = adds_of(hist);
    for (clause, msg) in judge(kind, size, &adds, in_order(&adds), &obs) {
        acc.viol.add(signature("api", kind, clause, hist), format!("{} window, size {size}{}, history {:?}: {msg}", kind.name(), if kind == Kind::Count { "" } else { "s" }, readable(hist)), case(), case_size(hist, size));
    }
}

// ---------------------------------------------------------------------------------------------
// engine level

fn engine_program(kind: Kind, size: i64, with_wm: bool) -> Program {
    let wm = if with_wm { "    .watermark(out_of_order: 1000s)\n" } else { "" };
    let win = match kind {
        Kind::Tumbling => format!(".window({size}s)"),
        Kind::Session => format!(".window(session: {size}s)"),
        Kind::Count => format!(".window({size})"),
    };
    parse(&format!("stream S = A\n{wm}    {win}\n    {WINDOW_AGG}\n"))
}

pub fn run_engine_hist(kind: Kind, prog: &Program, hist: &[usize]) -> Result<Observed, String> {
    let mut ops: Vec<EngOp> = hist
        .iter()
        .enumerate()
        .map(|(p, i)| match op_of(*i) {
            Op::Add(h) => EngOp::Ev(bit_event("A", p as i64, h, None)),
            Op::Wm(h) => EngOp::ExtWm("A", h),
        })
        .collect();
    if kind == Kind::Session {
        ops.push(EngOp::FlushSessions);
    }
    let outs = run_engine(prog, ops)?;
    let mut obs = Observed::default();
    for (step, o) in outs.iter().enumerate() {
        for e in o {
            let w = decode_window(e).map_err(|m| format!("output of step {step}: {m}"))?;
            if kind == Kind::Session && step == hist.len() {
                obs.rest.extend(w);
            } else {
                obs.emitted.push(w);
            }
        }
    }
    Ok(obs)
}

fn check_engine(kind: Kind, size: i64, with_wm: bool, prog: &Program, hist: &[usize], acc: &mut Acc) {
    let res = mc::catch(|| run_engine_hist(kind, prog, hist));
    acc.evaluations += 1;
    let case = || json!({"level":"engine","kind":kind.name(),"size":size,"with_wm":with_wm,"ops":hist,"readable":readable(hist)});
    let sz = case_size(hist, size);
    let obs = match res {
        Ok(Ok(o)) => o,
        Ok(Err(m)) => {
            // a decode failure means the emitted aggregate does not denote a set of distinct added events
            let clause = if m.starts_with("output of step") { "partition" } else { "engine_error" };
            acc.viol.add(signature("engine", kind, clause, hist), format!("engine, {} window size {size}, history {:?}: {m}", kind.name(), readable(hist)), case(), sz);
            return;
        }
        Err(p) => {
            acc.viol.add(signature("engine", kind, "panic", hist), format!("engine panicked on {:?}: {p} at {}", readable(hist), mc::last_panic_location()), case(), sz);
            return;
        }
    };
    if !obs.emitted.is_empty() {
        acc.nontrivial += 1;
    }
    let all_adds = adds_of(hist);
    // The engine has no flush for tumbling/count windows: `still buffered` is the un-emitted tail of
    // the arrival sequence, so the emitted windows must partition a prefix of it.
    let adds: Vec<(i64, i64)> = if kind == Kind::Session {
        all_adds.clone()
    } else {
        let n: usize = obs.emitted.iter().map(|w| w.len()).sum();
        all_adds.iter().take(n.min(all_adds.len())).copied().collect()
    };
    for (clause, msg) in judge(kind, size, &adds, in_order(&all_adds), &obs) {
        acc.viol.add(signature("engine", kind, clause, hist), format!("engine `A.window(..){}`, {} size {size}, history {:?}: {msg}", if with_wm { " with external watermarks" } else { "" }, kind.name(), readable(hist)), case(), sz);
    }
}

fn in_order(adds: &[(i64, i64)]) -> bool {
    adds.windows(2).all(|w| w[0].1 <= w[1].1)
}

// ---------------------------------------------------------------------------------------------

pub fn self_test() {
    // tumbling 1s: adds at 0, 0.5, 1 → [0,1] closed, [2] buffered: fine
    let adds = vec![(0, 0), (1, 1), (2, 2)];
    let ok = Observed { emitted: vec![vec![0, 1]], rest: vec![2], len_before_flush: Some(1) };
    assert!(judge(Kind::Tumbling, 1, &adds, true, &ok).is_empty());
    // the event at 1s in the same 1s window as the event at 0: span violated
    let bad = Observed { emitted: vec![], rest: vec![0, 1, 2], len_before_flush: Some(3) };
    assert_eq!(judge(Kind::Tumbling, 1, &adds, true, &bad)[0].0, "span");
    // lost id, duplicated id, reordered ids: partition violated
    for o in [vec![vec![0, 1]], vec![vec![0, 1], vec![1, 2]], vec![vec![1, 0], vec![2]]] {
        let b = Observed { emitted: o, rest: vec![], len_before_flush: None };
        assert_eq!(judge(Kind::Tumbling, 1, &adds, true, &b)[0].0, "partition");
    }
    // session gap 1s: 0, 1s, 2.5s → [0,1] then [2]; all three together violates the gap clause (1.5s > 1s)
    let adds = vec![(0, 0), (1, 2), (2, 5)];
    assert!(judge(Kind::Session, 1, &adds, true, &Observed { emitted: vec![vec![0, 1]], rest: vec![2], len_before_flush: None }).is_empty());
    assert_eq!(judge(Kind::Session, 1, &adds, true, &Observed { emitted: vec![], rest: vec![0, 1, 2], len_before_flush: None })[0].0, "gap");
    // a gap of exactly 1s stays in the session
    assert!(judge(Kind::Session, 1, &[(0, 0), (1, 2)], true, &Observed { emitted: vec![], rest: vec![0, 1], len_before_flush: None }).is_empty());
    // count 2: windows of exactly 2
    assert!(judge(Kind::Count, 2, &adds, true, &Observed { emitted: vec![vec![0, 1]], rest: vec![2], len_before_flush: Some(1) }).is_empty());
    assert_eq!(judge(Kind::Count, 2, &adds, true, &Observed { emitted: vec![vec![0, 1, 2]], rest: vec![], len_before_flush: Some(0) })[0].0, "count_size");
    // out-of-order adds: span clause not demanded
    let adds = vec![(0, 4), (1, 0)];
    assert!(judge(Kind::Tumbling, 1, &adds, in_order(&adds), &Observed { emitted: vec![], rest: vec![0, 1], len_before_flush: Some(2) }).is_empty());
    // signatures depend on kind / clause / watermark / order only
    assert_eq!(signature("api", Kind::Tumbling, "span", &[0, GRID as usize + 2, 0, 2]), "C12:tumbling:span_after_watermark_close");
    assert_eq!(signature("api", Kind::Session, "partition", &[4, 0]), "C12:session:partition_out_of_order");
}

fn replay(case: &J, acc: &mut Acc) {
    let kind = Kind::from(case["kind"].as_str().unwrap_or(""));
    let size = case["size"].as_i64().unwrap_or(1);
    let hist: Vec<usize> = case["ops"].as_array().map(|a| a.iter().map(|v| v.as_u64().unwrap_or(0) as usize).collect()).unwrap_or_default();
    if case["level"] == "engine" {
        let with_wm = case["with_wm"].as_bool().unwrap_or(false);
        let prog = engine_program(kind, size, with_wm);
        check_engine(kind, size, with_wm, &prog, &hist, acc);
    } else {
        let pool = EventPool::new();
        check_api(kind, size, &hist, &pool, acc, true);
    }
}

pub fn run(args: &Args) -> ! {
    let mut rep = Report::new(args, "model_checking");
    self_test();
    if args.extra.iter().any(|a| a == "--emulate-fix") {
        EMULATE_FIX.store(true, std::sync::atomic::Ordering::Relaxed);
        rep.replay_mode = true; // diagnostic run: evidence and replay files are left alone
        println!("NOTE: --emulate-fix: TumblingWindow.window_start is reset after every watermark close (window API level only); no evidence is written");
    }
    if let Some(path) = &args.replay {
        let case = mc::load_replay(path);
        let mut acc = Acc::default();
        replay(&case, &mut acc);
        rep.absorb(acc);
        rep.evaluations = rep.evaluations.max(1);
        rep.finish();
    }
    let deadline = Deadline::after(std::time::Duration::from_secs(args.tier.pick(32, 1080)));
    let pool = EventPool::new();
    // determinism: the first and last history of the API space, twice
    for h in [vec![0usize, 11, 0, 2], vec![17usize; 5]] {
        let a = run_api(Kind::Tumbling, 1, &h, &pool, true);
        let b = run_api(Kind::Tumbling, 1, &h, &pool, true);
        if a != b {
            mc::machinery_error("window replay is not deterministic");
        }
    }

    // ---- window API: all histories
    let api_len = args.tier.pick(5usize, 6usize);
    let state_len = 5usize; // canonical states (via checkpoint()) are collected up to this length
    let mut states = 0u64;
    for kind in [Kind::Count, Kind::Tumbling, Kind::Session] {
        for size in 1..=3i64 {
            let len = if kind == Kind::Count { api_len + 1 } else { api_len };
            let space = SeqSpace::new(kind.alphabet(), 0, len);
            let total = space.total();
            let (acc, done) = mc::par_indices(total, args.threads, 8192, |i, acc| {
                if i % 8192 == 0 && deadline.expired() {
                    return false;
                }
                let mut hist = Vec::with_capacity(len);
                space.decode(i, &mut hist);
                // per-thread pool: cloning one Arc from 16 threads makes its refcount cache line ping-pong
                thread_local! { static POOL: EventPool = EventPool::new(); }
                POOL.with(|pool| check_api(kind, size, &hist, pool, acc, hist.len() <= state_len));
                true
            });
            if !done {
                rep.cap_hit(&format!("wall cap during window-API histories kind={} size={size} len<={len}", kind.name()));
            }
            rep.transitions += if done { api_transitions(kind.alphabet() as u64, len) } else { acc.evaluations };
            rep.traces += acc.evaluations;
            states += acc.outcomes.len() as u64;
            rep.add_count(&format!("api_histories_{}", kind.name()), acc.evaluations);
            rep.absorb(acc);
        }
    }
    rep.set("api_history_length", json!({"tumbling": api_len, "session": api_len, "count": api_len + 1}));

    // ---- engine: adds only (all three kinds), then adds + external watermarks (time windows)
    let eng_len = args.tier.pick(5usize, 6usize);
    // (kind, size, with external watermark ops, max history length)
    let mut plan: Vec<(Kind, i64, bool, usize)> = Vec::new();
    for kind in [Kind::Count, Kind::Tumbling, Kind::Session] {
        for size in 1..=3i64 {
            plan.push((kind, size, false, eng_len));
        }
    }
    for size in 1..=3i64 {
        // 5 ops is the shortest engine history that can show two events sharing a window after a watermark close
        plan.push((Kind::Tumbling, size, true, if size == 1 { args.tier.pick(5, 6) } else { 5 }));
        plan.push((Kind::Session, size, true, args.tier.pick(4, 5)));
    }
    let mut plan_json = Vec::new();
    for (kind, size, with_wm, len) in plan {
        let prog = engine_program(kind, size, with_wm);
        let k = if with_wm { 2 * GRID as usize } else { GRID as usize };
        let space = SeqSpace::new(k, 0, len);
        let (acc, done) = mc::par_indices(space.total(), args.threads, 512, |i, acc| {
            if i % 512 == 0 && deadline.expired() {
                return false;
            }
            let mut hist = Vec::with_capacity(len);
            space.decode(i, &mut hist);
            check_engine(kind, size, with_wm, &prog, &hist, acc);
            true
        });
        if !done {
            rep.cap_hit(&format!("wall cap during engine histories kind={} size={size} wm={with_wm}", kind.name()));
        }
        rep.transitions += if done { api_transitions(k as u64, len) } else { acc.evaluations };
        rep.traces += acc.evaluations;
        plan_json.push(json!({"kind": kind.name(), "size": size, "external_watermark_ops": with_wm, "max_history_length": len, "histories": acc.evaluations}));
        rep.add_count(if with_wm { "engine_histories_with_watermarks" } else { "engine_histories_adds_only" }, acc.evaluations);
        rep.absorb(acc);
    }
    rep.states = states;
    rep.set("engine_plan", json!(plan_json));
    rep.sample(json!({"level":"api","kind":"tumbling","size":"1s","history":readable(&[0, 11, 0, 2])}));
    rep.sample(json!({"level":"engine","program":"stream S = A.watermark(out_of_order: 1000s).window(1s).aggregate(n: count(), f: first(id), l: last(id), s: sum(bit)).emit(..)","history":readable(&[0, 11, 0, 2, 15])}));
    rep.rule = format!("Exhaustive: every history over add(ts) ∪ watermark(ts), ts on the 0.5 s grid 0..4 s (18 ops; count windows: 9 add ops), of length ≤ {api_len} (count: ≤ {}) on a fresh TumblingWindow / SessionWindow / CountWindow for each size/gap/count ∈ {{1,2,3}}, ended by len()+flush_shared(); the same alphabet through a fresh Engine (`A.window(..).aggregate(count,first,last,sum(bit)).emit`) with adds only (length ≤ {eng_len}) and with advance_external_watermark ops (lengths per configuration in `engine_plan`); session programs end with flush_expired_sessions(). Non-trivial = at least one window was closed. transitions = operations executed; states = distinct canonical window states (buffered timestamps + window_start/last_event_time, read from checkpoint()) reached by the histories of length ≤ {state_len}.", api_len + 1);
    rep.assume("`in-order timestamps` is read as: the timestamps of the add operations are non-decreasing (watermark operations do not count); the span and gap clauses are demanded only for such histories");
    rep.assume("don't-care: when a watermark operation closes a window (the property only constrains where events end up), and whether a session gap of exactly the configured gap splits (the text says `within the session gap`: ≤ gap stays)");
    rep.assume("engine level: tumbling/count windows have no flush entry point, so `still buffered` is the un-emitted tail of the arrival sequence; emitted windows are identified by sum(2^id), count, first(id), last(id)");
    rep.assume("engine watermark program uses out_of_order: 1000s so that only advance_external_watermark moves the effective watermark; no allowed_lateness is configured, so no event is gated");
    rep.finish();
}

/// operations executed when every history of length 0..=len over k ops is replayed from scratch
fn api_transitions(k: u64, len: usize) -> u64 {
    (0..=len as u32).map(|l| mc::pow(k, l) * l as u64).sum()
}
