//! h_window — C12 (tumbling/count/session windows), C13 (sliding windows), C14 (aggregates),
//! C15 (joins), C24 (watermarks). One module per property; see DESIGN.md §3 and README-harness.md.

mod c12;
mod c13;
mod c14;
mod c15;
mod c24;
mod common;

fn main() {
    let args = mc::parse_args();
    mc::quiet_panics();
    match args.prop.as_str() {
        "C12" => c12::run(&args),
        "C13" => c13::run(&args),
        "C14" => c14::run(&args),
        "C15" => c15::run(&args),
        "C24" => c24::run(&args),
        other => mc::machinery_error(&format!("h_window serves C12, C13, C14, C15, C24 (got {other})")),
    }
}
