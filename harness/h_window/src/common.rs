//! Helpers shared by the C12/C13/C14/C15/C24 modules: fixed time grid, event builders, a
//! per-thread tokio runtime and an engine driver.

use chrono::{DateTime, Utc};
use std::sync::Arc;
use varpulis_core::ast::Program;
use varpulis_core::Value;
use varpulis_runtime::{Engine, Event, SharedEvent};

/// All timestamps are `T0 + k·0.5 s` (never the wall clock).
pub const T0_MS: i64 = 1_700_000_000_000;

/// Timestamp of grid point `half` (unit 0.5 s; may be negative).
pub fn ts(half: i64) -> DateTime<Utc> {
    DateTime::from_timestamp_millis(T0_MS + half * 500).expect("grid timestamp")
}

/// Grid point as seconds, for messages.
pub fn secs(half: i64) -> String {
    if half % 2 == 0 {
        format!("{}s", half / 2)
    } else {
        format!("{}.5s", half / 2)
    }
}

pub fn event(ty: &str, id: i64, half: i64) -> Event {
    let mut e = Event::new_at(ty.to_string(), ts(half));
    e.data.insert("id".into(), Value::Int(id));
    e
}

pub fn keyed_event(ty: &str, id: i64, half: i64, key: &str) -> Event {
    let mut e = event(ty, id, half);
    e.data.insert("k".into(), Value::str(key));
    e
}

pub fn id_of(e: &Event) -> i64 {
    match e.data.get("id") {
        Some(Value::Int(i)) => *i,
        _ => -1,
    }
}

pub fn ids(v: &[SharedEvent]) -> Vec<i64> {
    v.iter().map(|e| id_of(e)).collect()
}

pub fn shared(e: Event) -> SharedEvent {
    Arc::new(e)
}

pub fn parse(src: &str) -> Program {
    varpulis_parser::parse(src).unwrap_or_else(|e| mc::machinery_error(&format!("harness program does not parse: {e}\n{src}")))
}

thread_local! {
    static RT: tokio::runtime::Runtime = tokio::runtime::Builder::new_current_thread()
        .build()
        .unwrap_or_else(|e| mc::machinery_error(&format!("tokio runtime: {e}")));
}

/// Run a future on this thread's runtime (for modules that drive an `Engine` themselves).
pub fn block_on<F: std::future::Future>(f: F) -> F::Output {
    RT.with(|rt| rt.block_on(f))
}

/// One step of an engine history.
pub enum EngOp {
    Ev(Event),
    /// `advance_external_watermark(source, T0 + half·0.5 s)`
    ExtWm(&'static str, i64),
    /// `flush_expired_sessions()`; deterministic here because every grid timestamp is years before
    /// the wall clock, so every open session is expired.
    FlushSessions,
}

/// Fresh engine, load, run the ops through the async per-event entry point, drain the output channel.
/// Returns, per op, the outputs that op produced (projected to `(event_type, data)` by the caller).
pub fn run_engine(program: &Program, ops: Vec<EngOp>) -> Result<Vec<Vec<Event>>, String> {
    RT.with(|rt| {
        rt.block_on(async {
            let (tx, mut rx) = tokio::sync::mpsc::channel::<Event>(4096);
            let mut eng = Engine::new(tx);
            eng.load(program).map_err(|e| format!("load: {e}"))?;
            let mut out = Vec::with_capacity(ops.len());
            for op in ops {
                match op {
                    EngOp::Ev(e) => eng.process(e).await.map_err(|e| format!("process: {e}"))?,
                    EngOp::ExtWm(src, half) => eng.advance_external_watermark(src, T0_MS + half * 500).await.map_err(|e| format!("advance_external_watermark: {e}"))?,
                    EngOp::FlushSessions => eng.flush_expired_sessions().await.map_err(|e| format!("flush_expired_sessions: {e}"))?,
                }
                let mut step = Vec::new();
                while let Ok(e) = rx.try_recv() {
                    step.push(e);
                }
                out.push(step);
            }
            Ok(out)
        })
    })
}

pub fn int_field(e: &Event, f: &str) -> Option<i64> {
    match e.data.get(f) {
        Some(Value::Int(i)) => Some(*i),
        Some(Value::Float(x)) if x.fract() == 0.0 => Some(*x as i64),
        _ => None,
    }
}

/// The aggregate list used by the engine-level window checks. Event `id` i carries `bit = 2^i`, so
/// `sum(bit)` identifies the exact set of events in an emitted window; `first(id)`/`last(id)` give
/// its ends and `count()` its multiplicity (a duplicate would make count ≠ popcount).
pub const WINDOW_AGG: &str = ".aggregate(n: count(), f: first(id), l: last(id), s: sum(bit))\n    .emit(n: n, f: f, l: l, s: s)";

pub fn bit_event(ty: &str, id: i64, half: i64, key: Option<&str>) -> Event {
    let mut e = event(ty, id, half);
    e.data.insert("bit".into(), Value::Int(1 << id));
    if let Some(k) = key {
        e.data.insert("k".into(), Value::str(k));
    }
    e
}

/// Decode an aggregation output of `WINDOW_AGG` into the id list it denotes (ascending ids), or an
/// error when the four aggregates are inconsistent with a set of distinct events in arrival order.
pub fn decode_window(e: &Event) -> Result<Vec<i64>, String> {
    let n = int_field(e, "n").ok_or("no count")?;
    let s = int_field(e, "s").ok_or("no sum(bit)")?;
    let set: Vec<i64> = (0..62).filter(|i| s >> i & 1 == 1).collect();
    if set.len() as i64 != n {
        return Err(format!("count {n} but sum(bit)={s:#b} denotes {} distinct events (duplicate or foreign event in the window)", set.len()));
    }
    if n > 0 {
        let (f, l) = (int_field(e, "f"), int_field(e, "l"));
        if f != set.first().copied() || l != set.last().copied() {
            return Err(format!("window {set:?} but first(id)={f:?} last(id)={l:?} (not in arrival order)"));
        }
    }
    Ok(set)
}
