//! C14 — aggregates equal their definitions on every execution path (DESIGN.md §3).
//!
//! E1: every batch over a small value alphabet up to a length bound (crossing the 4- and 8-lane
//! chunk boundaries of the SIMD/unrolled code), plus long constant / alternating / one-odd-value
//! families up to 64 events, is given to each of the 11 aggregate functions on each path:
//! row (`apply`), shared (`apply_shared`), refs (`apply_refs`), columnar (`apply_columnar` on a
//! `ColumnarBuffer` built by `from_events` and by `push`), and to an `Aggregator` holding all
//! functions on one buffer (column cache shared between functions).
//!
//! Reference (documented semantics, docs/reference/windows-aggregations.md + aggregation.rs docs):
//! count = number of events; sum = Σ of numeric non-NaN values as float (0.0 when none);
//! avg/min/max = over numeric non-NaN values, null when none; stddev = sample (n−1) deviation, null
//! below 2 values; first/last = field of the first/last event; count_distinct = number of distinct
//! present values; ema(p) = v·k + prev·(1−k), k = 2/(p+1), seeded by the first value, null when none.
//! Undocumented (don't-care, only agreement of the paths is required): stddev / ema /
//! count_distinct of a batch containing NaN; first/last when the first/last event lacks the field.

use crate::common::T0_MS;
use mc::{Acc, Args, Deadline, Report, SeqSpace};
use serde_json::json;
use std::sync::Arc;
use varpulis_core::Value;
use varpulis_runtime::aggregation::*;
use varpulis_runtime::columnar::ColumnarBuffer;
use varpulis_runtime::{Event, SharedEvent};

#[derive(Clone, Copy, Debug, PartialEq, Eq, Hash)]
enum V {
    I1,
    F25,
    Fm3,
    S,
    NaN,
    Missing,
    F01,
}
const ALPHA6: [V; 6] = [V::I1, V::F25, V::Fm3, V::S, V::NaN, V::Missing];
const ALPHA4: [V; 4] = [V::I1, V::F25, V::F01, V::Missing];
impl V {
    fn name(self) -> &'static str {
        match self {
            V::I1 => "1",
            V::F25 => "2.5",
            V::Fm3 => "-3.0",
            V::S => "\"s\"",
            V::NaN => "NaN",
            V::Missing => "missing",
            V::F01 => "0.1",
        }
    }
    fn from(s: &str) -> V {
        [V::I1, V::F25, V::Fm3, V::S, V::NaN, V::Missing, V::F01].into_iter().find(|v| v.name() == s).unwrap_or(V::Missing)
    }
    fn value(self) -> Option<Value> {
        match self {
            V::I1 => Some(Value::Int(1)),
            V::F25 => Some(Value::Float(2.5)),
            V::Fm3 => Some(Value::Float(-3.0)),
            V::S => Some(Value::str("s")),
            V::NaN => Some(Value::Float(f64::NAN)),
            V::F01 => Some(Value::Float(0.1)),
            V::Missing => None,
        }
    }
    fn num(self) -> Option<f64> {
        match self {
            V::I1 => Some(1.0),
            V::F25 => Some(2.5),
            V::Fm3 => Some(-3.0),
            V::F01 => Some(0.1),
            _ => None,
        }
    }
}

const FUNCS: [&str; 11] = ["count", "sum", "avg", "min", "max", "stddev", "first", "last", "count_distinct", "ema1", "ema3"];
fn func(name: &str) -> Box<dyn AggregateFunc> {
    match name {
        "count" => Box::new(Count),
        "sum" => Box::new(Sum),
        "avg" => Box::new(Avg),
        "min" => Box::new(Min),
        "max" => Box::new(Max),
        "stddev" => Box::new(StdDev),
        "first" => Box::new(First),
        "last" => Box::new(Last),
        "count_distinct" => Box::new(CountDistinct),
        "ema1" => Box::new(Ema::new(1)),
        _ => Box::new(Ema::new(3)),
    }
}

/// equality up to floating-point rounding (relative 1e-12); NaN equals NaN
fn veq(a: &Value, b: &Value) -> bool {
    match (a, b) {
        (Value::Float(x), Value::Float(y)) => (x.is_nan() && y.is_nan()) || x == y || (x - y).abs() <= 1e-12 * (1.0 + x.abs().max(y.abs())),
        (Value::Null, Value::Null) => true,
        (Value::Int(x), Value::Int(y)) => x == y,
        (Value::Str(x), Value::Str(y)) => x == y,
        _ => false,
    }
}

/// Reference value, or None where the behaviour is undocumented (paths must merely agree).
fn reference(f: &str, vals: &[V]) -> Option<Value> {
    let nums: Vec<f64> = vals.iter().filter_map(|v| v.num()).collect();
    let has_nan = vals.contains(&V::NaN);
    let opt = |x: Option<f64>| x.map(Value::Float).unwrap_or(Value::Null);
    match f {
        "count" => Some(Value::Int(vals.len() as i64)),
        "sum" => Some(Value::Float(nums.iter().sum())),
        "avg" => Some(opt(if nums.is_empty() { None } else { Some(nums.iter().sum::<f64>() / nums.len() as f64) })),
        "min" => Some(opt(nums.iter().copied().reduce(f64::min))),
        "max" => Some(opt(nums.iter().copied().reduce(f64::max))),
        "stddev" if !has_nan => Some(opt(if nums.len() < 2 {
            None
        } else {
            let m = nums.iter().sum::<f64>() / nums.len() as f64;
            Some((nums.iter().map(|x| (x - m) * (x - m)).sum::<f64>() / (nums.len() - 1) as f64).sqrt())
        })),
        "first" | "last" => {
            let e = if f == "first" { vals.first() } else { vals.last() };
            match e {
                None => Some(Value::Null),
                Some(V::Missing) => None,
                Some(v) => v.value(),
            }
        }
        "count_distinct" if !has_nan => {
            let mut seen: Vec<V> = Vec::new();
            for v in vals {
                if *v != V::Missing && !seen.contains(v) {
                    seen.push(*v);
                }
            }
            Some(Value::Int(seen.len() as i64))
        }
        "ema1" | "ema3" if !has_nan => {
            let k = 2.0 / (if f == "ema1" { 1.0 } else { 3.0 } + 1.0);
            let mut e: Option<f64> = None;
            for x in &nums {
                e = Some(match e {
                    None => *x,
                    Some(p) => x * k + p * (1.0 - k),
                });
            }
            Some(opt(e))
        }
        _ => None,
    }
}

fn mk(v: V, i: usize) -> Event {
    let mut e = Event::new_at("A".to_string(), chrono::DateTime::from_timestamp_millis(T0_MS + 500 * i as i64).expect("ts"));
    if let Some(x) = v.value() {
        e.data.insert("value".into(), x);
    }
    e
}

const PATHS: [&str; 5] = ["row", "shared", "refs", "columnar", "columnar_pushed"];

fn canon(v: &Value) -> (u8, u64) {
    match v {
        Value::Null => (0, 0),
        Value::Int(i) => (1, *i as u64),
        Value::Float(x) if x.is_nan() => (2, 1),
        Value::Float(x) => (2, ((x * 1e9).round() as i64) as u64),
        Value::Str(s) => (3, s.len() as u64),
        _ => (4, 0),
    }
}

fn check_batch(vals: &[V], acc: &mut Acc) {
    let evs: Vec<Event> = vals.iter().enumerate().map(|(i, v)| mk(*v, i)).collect();
    let sh: Vec<SharedEvent> = evs.iter().cloned().map(Arc::new).collect();
    let refs: Vec<&Event> = evs.iter().collect();
    let mut col = ColumnarBuffer::from_events(sh.clone());
    let mut colp = ColumnarBuffer::new();
    for e in &sh {
        colp.push(e.clone());
    }
    let case = || json!({"values": vals.iter().map(|v| v.name()).collect::<Vec<_>>()});
    let show = || format!("[{}]", vals.iter().map(|v| v.name()).collect::<Vec<_>>().join(", "));
    if vals.iter().filter(|v| v.num().is_some()).count() >= 2 && vals.iter().any(|v| v.num().is_none()) {
        acc.nontrivial += 1;
    }
    let mut row_results = Vec::with_capacity(FUNCS.len());
    let mut outcome: Vec<(u8, u64)> = Vec::with_capacity(FUNCS.len());
    for name in FUNCS {
        let f = func(name);
        let r = mc::catch(|| {
            [
                f.apply(&evs, Some("value")),
                f.apply_shared(&sh, Some("value")),
                f.apply_refs(&refs, Some("value")),
                f.apply_columnar(&mut col, Some("value")),
                f.apply_columnar(&mut colp, Some("value")),
            ]
        });
        acc.evaluations += 5;
        let got = match r {
            Ok(g) => g,
            Err(p) => {
                acc.viol.add(format!("C14:{name}:panic"), format!("{name} over {} panicked: {p} at {}", show(), mc::last_panic_location()), case(), vals.len());
                row_results.push(Value::Null);
                continue;
            }
        };
        outcome.push(canon(&got[0]));
        match reference(name, vals) {
            Some(want) => {
                for (p, g) in PATHS.iter().zip(&got) {
                    if !veq(g, &want) {
                        acc.viol.add(format!("C14:{name}:{p}:value"), format!("{name} over {} on the {p} path = {g:?}, the documented value is {want:?}", show()), case(), vals.len());
                    }
                }
            }
            None => {
                acc.count("undocumented_cases_checked_for_path_agreement_only", 1);
                for (p, g) in PATHS.iter().zip(&got).skip(1) {
                    if !veq(g, &got[0]) {
                        acc.viol.add(format!("C14:{name}:{p}:differs_from_row"), format!("{name} over {} (undocumented case): row path = {:?}, {p} path = {g:?}", show(), got[0]), case(), vals.len());
                    }
                }
            }
        }
        row_results.push(got[0].clone());
    }
    acc.outcome(&outcome);
    // all functions at once on one buffer (the float column of `value` is extracted once and cached)
    let mut agg = Aggregator::new();
    for name in FUNCS {
        agg = agg.add(name, func(name), Some("value".to_string()));
    }
    let mut col2 = ColumnarBuffer::from_events(sh.clone());
    let r = mc::catch(|| [agg.apply(&evs), agg.apply_shared(&sh), agg.apply_columnar(&mut col2)]);
    acc.evaluations += 3;
    match r {
        Ok(res) => {
            for (p, m) in ["row", "shared", "columnar"].iter().zip(&res) {
                for (i, name) in FUNCS.iter().enumerate() {
                    let g = m.get(*name).cloned().unwrap_or(Value::Null);
                    if row_results.len() == FUNCS.len() && !veq(&g, &row_results[i]) {
                        acc.viol.add(format!("C14:aggregator:{p}:{name}"), format!("Aggregator({name}) over {} on the {p} path = {g:?}, the function alone gives {:?}", show(), row_results[i]), case(), vals.len());
                    }
                }
            }
        }
        Err(p) => acc.viol.add("C14:aggregator:panic", format!("Aggregator over {} panicked: {p}", show()), case(), vals.len()),
    }
}

fn self_test() {
    use V::*;
    let b = [I1, F25, Fm3, S, NaN, Missing];
    assert!(veq(&reference("sum", &b).unwrap(), &Value::Float(0.5)));
    assert!(veq(&reference("avg", &b).unwrap(), &Value::Float(0.5 / 3.0)));
    assert!(veq(&reference("min", &b).unwrap(), &Value::Float(-3.0)));
    assert!(veq(&reference("max", &b).unwrap(), &Value::Float(2.5)));
    assert_eq!(reference("count", &b).unwrap(), Value::Int(6));
    assert!(reference("stddev", &b).is_none()); // NaN in the batch: undocumented
    // stddev of 1, 2.5, -3: mean 1/6, squared deviations 25/36 + 196/36 + 361/36 = 582/36, /2, sqrt
    assert!(veq(&reference("stddev", &[I1, F25, Fm3]).unwrap(), &Value::Float((582.0f64 / 72.0).sqrt())));
    assert_eq!(reference("stddev", &[I1, S]).unwrap(), Value::Null);
    assert_eq!(reference("avg", &[S, Missing]).unwrap(), Value::Null);
    assert!(veq(&reference("sum", &[S, Missing]).unwrap(), &Value::Float(0.0)));
    assert_eq!(reference("first", &[S, I1]).unwrap(), Value::str("s"));
    assert!(reference("last", &[S, Missing]).is_none());
    assert_eq!(reference("first", &[]).unwrap(), Value::Null);
    assert_eq!(reference("count_distinct", &[I1, I1, S, Missing, F25]).unwrap(), Value::Int(3));
    // ema3: k = 0.5: 1 → 1; 2.5 → 1.75; -3 → -0.625
    assert!(veq(&reference("ema3", &[I1, S, F25, Fm3]).unwrap(), &Value::Float(-0.625)));
    // ema1: k = 1: last numeric value
    assert!(veq(&reference("ema1", &[I1, F25, Missing]).unwrap(), &Value::Float(2.5)));
    assert!(!veq(&Value::Float(1.0), &Value::Float(1.0 + 1e-9)));
    assert!(veq(&Value::Float(0.30000000000000004), &Value::Float(0.3)));
}

pub fn run(args: &Args) -> ! {
    let mut rep = Report::new(args, "exploration");
    self_test();
    if let Some(path) = &args.replay {
        let case = mc::load_replay(path);
        let vals: Vec<V> = case["values"].as_array().map(|a| a.iter().map(|v| V::from(v.as_str().unwrap_or(""))).collect()).unwrap_or_default();
        let mut acc = Acc::default();
        check_batch(&vals, &mut acc);
        rep.absorb(acc);
        rep.evaluations = rep.evaluations.max(1);
        rep.finish();
    }
    let deadline = Deadline::after(std::time::Duration::from_secs(args.tier.pick(32, 1080)));
    let n6 = args.tier.pick(7usize, 9usize);
    let n4 = args.tier.pick(9usize, 11usize);
    for (alpha, maxlen, label) in [(&ALPHA6[..], n6, "alphabet6"), (&ALPHA4[..], n4, "alphabet4")] {
        let space = SeqSpace::new(alpha.len(), 0, maxlen);
        let (acc, done) = mc::par_indices(space.total(), args.threads, 256, |i, acc| {
            if i % 256 == 0 && deadline.expired() {
                return false;
            }
            let mut idx = Vec::new();
            space.decode(i, &mut idx);
            let vals: Vec<V> = idx.iter().map(|k| alpha[*k]).collect();
            check_batch(&vals, acc);
            acc.count(&format!("batches_{label}"), 1);
            true
        });
        if !done {
            rep.cap_hit(&format!("wall cap during {label} batches"));
        }
        rep.absorb(acc);
    }
    // long families up to 64 events: constant, alternating a b a b …, and one odd value at every position
    let all: [V; 7] = [V::I1, V::F25, V::Fm3, V::S, V::NaN, V::Missing, V::F01];
    let mut fam: Vec<Vec<V>> = Vec::new();
    for n in 1..=64usize {
        for a in all {
            fam.push(vec![a; n]);
            for b in all {
                if a != b {
                    fam.push((0..n).map(|i| if i % 2 == 0 { a } else { b }).collect());
                    if n >= 10 || args.tier == mc::Tier::Thorough {
                        for p in 0..n {
                            let mut v = vec![a; n];
                            v[p] = b;
                            fam.push(v);
                        }
                    }
                }
            }
        }
    }
    let (acc, done) = mc::par_items(&fam, args.threads, |v, acc| {
        if deadline.expired() {
            return false;
        }
        check_batch(v, acc);
        acc.count("batches_long_families", 1);
        true
    });
    if !done {
        rep.cap_hit("wall cap during long families");
    }
    rep.absorb(acc);
    rep.set("bounds", json!({"alphabet6": ALPHA6.iter().map(|v| v.name()).collect::<Vec<_>>(), "alphabet6_max_len": n6, "alphabet4": ALPHA4.iter().map(|v| v.name()).collect::<Vec<_>>(), "alphabet4_max_len": n4, "long_family_max_len": 64}));
    rep.sample(json!({"batch": ["1", "2.5", "-3.0", "\"s\"", "NaN", "missing"], "functions": FUNCS, "paths": PATHS}));
    rep.sample(json!({"family": "63 × 2.5 with one NaN at position 4 (inside the second 4-lane chunk)"}));
    rep.rule = format!("Exhaustive: every batch of length 0..={n6} over {{1 (int), 2.5, -3.0, \"s\", NaN, missing}} and of length 0..={n4} over {{1 (int), 2.5, 0.1, missing}}; constant, alternating and one-odd-value families over 7 values up to 64 events. Each batch × 11 functions (count sum avg min max stddev first last count_distinct ema(1) ema(3)) × 5 paths (apply, apply_shared, apply_refs, apply_columnar on from_events and on pushed buffers) + an Aggregator holding all 11 on the three Aggregator paths. evaluations = calls of real aggregate code. Non-trivial = the batch mixes ≥ 2 numeric values with at least one non-numeric/NaN/missing value.");
    rep.assume("documented semantics used as reference: count = events; sum → float (0.0 when no value); avg/min/max → null when no numeric value; stddev = sample deviation, null below 2 values; first/last = field of the first/last event (null on an empty batch); count_distinct = distinct present values; ema(p): k = 2/(p+1), seeded by the first value; NaN and non-numeric values are ignored by sum/avg/min/max");
    rep.assume("don't-care (undocumented; only agreement of all paths with the row path is required): stddev, ema and count_distinct of a batch containing NaN; first/last when the first/last event lacks the field");
    rep.assume("floating-point rounding: relative tolerance 1e-12; the alphabets avoid catastrophic cancellation so that summation order (4-lane SIMD vs sequential) stays inside the tolerance");
    rep.finish();
}
