//! C24 — watermarks never regress per source; effective = min; late-data gate (DESIGN.md §3).
//!
//! Part 1 (E2 with state merging): breadth-first search over operation histories
//! `observe_event(src, ts) | advance_source_watermark(src, ts)` on a fresh real
//! `PerSourceWatermarkTracker`. The canonical state is the tracker's own `checkpoint()`
//! (per source: watermark, max timestamp; plus the stored effective watermark) — every field the
//! transition functions read — so merged states have the same futures and the search runs to
//! closure on the finite grid. For every transition: no source watermark decreased, and the
//! effective watermark equals the minimum over the sources that have one.
//!
//! Part 2 (E2, stateless): every event sequence up to a length bound through a fresh real `Engine`
//! for programs with `.watermark(out_of_order:)` and `.allowed_lateness()`; the tracker state is read
//! through `create_checkpoint()` before/after each event. An input that is absent from the output
//! of its pass-through stream must have had ts < effective_watermark_before − allowed_lateness.

use crate::common::*;
use chrono::Duration;
use mc::{Acc, Args, Deadline, Report, SeqSpace};
use serde_json::{json, Value as J};
use std::sync::Mutex;
use varpulis_core::ast::Program;
use varpulis_runtime::persistence::WatermarkCheckpoint;
use varpulis_runtime::watermark::PerSourceWatermarkTracker;
use varpulis_runtime::Engine;

const NTS: usize = 6; // 0..5 s
const NAMES: [&str; 3] = ["s0", "s1", "s2"];

/// canonical tracker state: per source (watermark, max_ts) in seconds relative to T0, then effective
type State = (Vec<(Option<i64>, Option<i64>)>, Option<i64>);

fn canon(cp: &WatermarkCheckpoint, names: &[&str]) -> State {
    let rel = |m: Option<i64>| m.map(|x| (x - T0_MS) / 1000);
    (names.iter().map(|n| cp.sources.get(*n).map(|s| (rel(s.watermark_ms), rel(s.max_timestamp_ms))).unwrap_or((None, None))).collect(), rel(cp.effective_watermark_ms))
}

/// The two demanded clauses on one transition.
fn judge(before: &State, after: &State) -> Vec<(&'static str, String)> {
    let mut bad = Vec::new();
    for (i, (b, a)) in before.0.iter().zip(&after.0).enumerate() {
        match (b.0, a.0) {
            (Some(x), Some(y)) if y < x => bad.push(("source_watermark_regressed", format!("watermark of source {i} went from {x}s to {y}s"))),
            (Some(x), None) => bad.push(("source_watermark_regressed", format!("watermark of source {i} went from {x}s to none"))),
            _ => {}
        }
    }
    let min = after.0.iter().filter_map(|s| s.0).min();
    if after.1 != min {
        bad.push(("effective_not_min", format!("effective watermark {:?}s but the minimum over sources with a watermark is {:?}s (sources {:?})", after.1, min, after.0)));
    }
    bad
}

#[derive(Clone, Debug)]
struct TrackerCfg {
    /// out-of-order bound per source in seconds; None = source not registered (auto-registers on first event)
    ooo: Vec<Option<i64>>,
    advance_ops: bool,
}
impl TrackerCfg {
    fn n_ops(&self) -> usize {
        self.ooo.len() * NTS * if self.advance_ops { 2 } else { 1 }
    }
    /// op index → (is_advance, source, ts seconds); observes first
    fn op(&self, i: usize) -> (bool, usize, i64) {
        let per = self.ooo.len() * NTS;
        let j = i % per;
        (i >= per, j % self.ooo.len(), (j / self.ooo.len()) as i64)
    }
    fn readable(&self, h: &[usize]) -> Vec<String> {
        h.iter()
            .map(|i| {
                let (adv, s, t) = self.op(*i);
                if adv {
                    format!("advance_source_watermark({}, {t}s)", NAMES[s])
                } else {
                    format!("observe_event({}, ts={t}s)", NAMES[s])
                }
            })
            .collect()
    }
    fn json(&self, h: &[usize]) -> J {
        json!({"part": "tracker", "ooo": self.ooo, "advance_ops": self.advance_ops, "ops": h, "readable": self.readable(h)})
    }
}

/// Replay a history on a fresh tracker; returns the states before and after the last op.
fn run_tracker(cfg: &TrackerCfg, h: &[usize]) -> (State, State) {
    let names = &NAMES[..cfg.ooo.len()];
    let mut tr = PerSourceWatermarkTracker::new();
    for (i, o) in cfg.ooo.iter().enumerate() {
        if let Some(s) = o {
            tr.register_source(NAMES[i], Duration::seconds(*s));
        }
    }
    let mut before = canon(&tr.checkpoint(), names);
    for (k, i) in h.iter().enumerate() {
        if k + 1 == h.len() {
            before = canon(&tr.checkpoint(), names);
        }
        let (adv, s, t) = cfg.op(*i);
        if adv {
            tr.advance_source_watermark(NAMES[s], ts(t * 2));
        } else {
            tr.observe_event(NAMES[s], ts(t * 2));
        }
    }
    let after = canon(&tr.checkpoint(), names);
    // the accessor must agree with the checkpointed field
    let eff = tr.effective_watermark().map(|d| (d.timestamp_millis() - T0_MS) / 1000);
    assert_eq!(eff, after.1, "effective_watermark() and checkpoint() disagree");
    (before, after)
}

fn check_tracker(cfg: &TrackerCfg, h: &[usize], acc: &mut Acc) -> Option<State> {
    let res = mc::catch(|| run_tracker(cfg, h));
    acc.evaluations += 1;
    let opk = h.last().map(|i| if cfg.op(*i).0 { "advance" } else { "observe" }).unwrap_or("init");
    match res {
        Ok((before, after)) => {
            if after.0.iter().filter(|s| s.0.is_some()).count() >= 2 {
                acc.nontrivial += 1;
            }
            for (clause, msg) in judge(&before, &after) {
                acc.viol.add(format!("C24:tracker:{clause}_on_{opk}"), format!("tracker (out-of-order bounds {:?}s) after {:?}: {msg}", cfg.ooo, cfg.readable(h)), cfg.json(h), h.len());
            }
            // informational only (the property does not define the value): documented formula max_ts − bound
            if let Some(i) = h.last() {
                let (adv, s, _) = cfg.op(*i);
                if !adv {
                    let bound = cfg.ooo[s].unwrap_or(0);
                    let formula = after.0[s].1.map(|m| m - bound);
                    if after.0[s].0 < formula {
                        acc.count("informational_source_watermark_below_max_ts_minus_bound", 1);
                    }
                }
            }
            Some(after)
        }
        Err(p) => {
            acc.viol.add(format!("C24:tracker:panic_on_{opk}"), format!("tracker panicked on {:?}: {p} at {}", cfg.readable(h), mc::last_panic_location()), cfg.json(h), h.len());
            None
        }
    }
}

// ---------------------------------------------------------------------------------------------
// engine gate

#[derive(Clone, Debug)]
struct GateCfg {
    /// per stream: (event type index, out_of_order seconds, allowed lateness seconds or None)
    streams: Vec<(usize, i64, Option<i64>)>,
}
const TYPES: [&str; 2] = ["A", "B"];
impl GateCfg {
    fn source(&self) -> String {
        let mut s = String::new();
        for (i, (ty, ooo, late)) in self.streams.iter().enumerate() {
            s += &format!("stream S{i} = {}\n    .watermark(out_of_order: {ooo}s)\n", TYPES[*ty]);
            if let Some(l) = late {
                s += &format!("    .allowed_lateness({l}s)\n");
            }
            s += "    .emit(id: id)\n\n";
        }
        s
    }
    fn ntypes(&self) -> usize {
        self.streams.iter().map(|s| s.0).max().unwrap_or(0) + 1
    }
    fn json(&self, h: &[(usize, i64)]) -> J {
        json!({"part": "gate", "streams": self.streams.iter().map(|(t, o, l)| json!([t, o, l])).collect::<Vec<_>>(), "events": h.iter().map(|(t, s)| json!([t, s])).collect::<Vec<_>>(),
               "program": self.source(), "readable": h.iter().map(|(t, s)| format!("{}(ts={s}s)", TYPES[*t])).collect::<Vec<_>>()})
    }
}

struct GateStep {
    /// stream indices that output this input
    outputs: Vec<usize>,
    before: State,
    after: State,
}

fn run_gate(cfg: &GateCfg, prog: &Program, h: &[(usize, i64)]) -> Result<Vec<GateStep>, String> {
    let names = &TYPES[..cfg.ntypes()];
    block_on(async {
        let (tx, mut rx) = tokio::sync::mpsc::channel::<varpulis_runtime::Event>(1024);
        let mut eng = Engine::new(tx);
        eng.load(prog).map_err(|e| format!("load: {e}"))?;
        let wm = |e: &Engine| e.create_checkpoint().watermark_state.map(|w| canon(&w, names)).ok_or_else(|| "no watermark tracker in the engine checkpoint".to_string());
        let mut steps = Vec::new();
        let mut state = wm(&eng)?;
        for (i, (ty, s)) in h.iter().enumerate() {
            let before = state.clone();
            eng.process(event(TYPES[*ty], i as i64, s * 2)).await.map_err(|e| format!("process: {e}"))?;
            let after = wm(&eng)?;
            let mut outputs = Vec::new();
            while let Ok(o) = rx.try_recv() {
                if id_of(&o) != i as i64 {
                    return Err(format!("step {i} output an event with id {}", id_of(&o)));
                }
                let name: &str = &o.event_type;
                outputs.push(name.trim_start_matches('S').parse::<usize>().map_err(|_| format!("unexpected output type {name}"))?);
            }
            state = after.clone();
            steps.push(GateStep { outputs, before, after });
        }
        Ok(steps)
    })
}

fn check_gate(cfg: &GateCfg, prog: &Program, h: &[(usize, i64)], acc: &mut Acc, order: u64) {
    let res = mc::catch(|| run_gate(cfg, prog, h));
    acc.evaluations += 1;
    acc.count("engine_events_processed", h.len() as u64);
    let size = ((h.len() << 40) as u64 | order.min((1 << 40) - 1)) as usize;
    let multi = if cfg.ntypes() > 1 { "two_sources" } else if cfg.streams.len() > 1 { "two_consumers" } else { "one_source" };
    let head = format!("program\n{}events {:?}", cfg.source(), cfg.json(h)["readable"]);
    let steps = match res {
        Ok(Ok(s)) => s,
        Ok(Err(m)) => return acc.viol.add(format!("C24:engine_{multi}:machinery"), format!("{head}: {m}"), cfg.json(h), size),
        Err(p) => return acc.viol.add(format!("C24:engine_{multi}:panic"), format!("{head}: panic {p} at {}", mc::last_panic_location()), cfg.json(h), size),
    };
    let mut dropped_any = false;
    for (i, st) in steps.iter().enumerate() {
        for (clause, msg) in judge(&st.before, &st.after) {
            acc.viol.add(format!("C24:engine_{multi}:{clause}"), format!("{head}: at event {i}: {msg}"), cfg.json(h), size);
        }
        let (ty, t) = h[i];
        for (si, (sty, _, late)) in cfg.streams.iter().enumerate() {
            if *sty != ty || st.outputs.contains(&si) {
                continue;
            }
            dropped_any = true;
            acc.count("inputs_dropped_as_late", 1);
            // unconfigured lateness is read as 0 (weakest demand): dropping is only ever allowed below the watermark
            let l = late.unwrap_or(0);
            let allowed = matches!(st.before.1, Some(eff) if t < eff - l);
            if !allowed {
                let shape = if late.is_some() { "dropped_within_allowed_lateness" } else { "dropped_without_lateness_config" };
                acc.viol.add(format!("C24:engine_{multi}:{shape}"), format!("{head}: event {i} (ts={t}s) is absent from S{si} although the effective watermark was {:?}s and the allowed lateness {:?}s", st.before.1, late), cfg.json(h), size);
            }
        }
    }
    if dropped_any {
        acc.nontrivial += 1;
    }
    acc.outcome(&(format!("{:?}", cfg.streams), steps.iter().map(|s| (s.outputs.clone(), s.after.clone())).collect::<Vec<_>>()));
}

fn self_test() {
    let s = |v: &[(Option<i64>, Option<i64>)], e: Option<i64>| -> State { (v.to_vec(), e) };
    // both sources have a watermark, effective is the min
    assert!(judge(&s(&[(Some(1), Some(2)), (None, None)], Some(1)), &s(&[(Some(1), Some(2)), (Some(0), Some(0))], Some(0))).is_empty());
    // a source without a watermark does not count
    assert!(judge(&s(&[(None, None), (None, None)], None), &s(&[(Some(3), Some(3)), (None, None)], Some(3))).is_empty());
    assert_eq!(judge(&s(&[(Some(2), Some(2))], Some(2)), &s(&[(Some(1), Some(2))], Some(1)))[0].0, "source_watermark_regressed");
    assert_eq!(judge(&s(&[(Some(2), Some(2)), (Some(1), Some(1))], Some(1)), &s(&[(Some(2), Some(2)), (Some(1), Some(1))], Some(2)))[0].0, "effective_not_min");
    let cfg = TrackerCfg { ooo: vec![Some(1), Some(0)], advance_ops: true };
    assert_eq!(cfg.n_ops(), 24);
    assert_eq!(cfg.op(0), (false, 0, 0));
    assert_eq!(cfg.op(11), (false, 1, 5));
    assert_eq!(cfg.op(13), (true, 1, 0));
    // hand-computed: s0 bound 1s sees ts 3 → watermark 2; s1 bound 0 sees ts 1 → watermark 1; effective 1
    let (_, after) = run_tracker(&cfg, &[6, 3]);
    assert_eq!(after, (vec![(Some(2), Some(3)), (Some(1), Some(1))], Some(1)));
}

fn gate_configs() -> Vec<GateCfg> {
    let mut v = Vec::new();
    for ooo in [0, 1, 2] {
        for late in [None, Some(0), Some(1), Some(2)] {
            v.push(GateCfg { streams: vec![(0, ooo, late)] });
        }
    }
    for (oa, ob) in [(0, 0), (1, 0), (2, 1)] {
        for (la, lb) in [(None, None), (Some(0), Some(0)), (Some(1), Some(0)), (Some(0), Some(2)), (Some(2), Some(2)), (None, Some(1))] {
            v.push(GateCfg { streams: vec![(0, oa, la), (1, ob, lb)] });
        }
    }
    // two consumers of the same event type with different lateness
    v.push(GateCfg { streams: vec![(0, 1, Some(0)), (0, 1, Some(2))] });
    v.push(GateCfg { streams: vec![(0, 0, Some(1)), (0, 0, Some(1))] });
    v
}

pub fn run(args: &Args) -> ! {
    let mut rep = Report::new(args, "model_checking");
    self_test();
    if let Some(path) = &args.replay {
        let c = mc::load_replay(path);
        let mut acc = Acc::default();
        if c["part"] == "gate" {
            let cfg = GateCfg { streams: c["streams"].as_array().map(|a| a.iter().map(|s| (s[0].as_u64().unwrap_or(0) as usize, s[1].as_i64().unwrap_or(0), s[2].as_i64())).collect()).unwrap_or_default() };
            let h: Vec<(usize, i64)> = c["events"].as_array().map(|a| a.iter().map(|e| (e[0].as_u64().unwrap_or(0) as usize, e[1].as_i64().unwrap_or(0))).collect()).unwrap_or_default();
            let prog = parse(&cfg.source());
            check_gate(&cfg, &prog, &h, &mut acc, 0);
        } else {
            let cfg = TrackerCfg { ooo: c["ooo"].as_array().map(|a| a.iter().map(|x| x.as_i64()).collect()).unwrap_or_default(), advance_ops: c["advance_ops"].as_bool().unwrap_or(true) };
            let h: Vec<usize> = c["ops"].as_array().map(|a| a.iter().map(|x| x.as_u64().unwrap_or(0) as usize).collect()).unwrap_or_default();
            check_tracker(&cfg, &h, &mut acc);
        }
        rep.absorb(acc);
        rep.evaluations = rep.evaluations.max(1);
        rep.finish();
    }
    let deadline = Deadline::after(std::time::Duration::from_secs(args.tier.pick(32, 1080)));

    // ---- Part 1: tracker BFS to closure
    let depth = args.tier.pick(10usize, 24usize);
    let tracker_cfgs = [
        TrackerCfg { ooo: vec![Some(0), Some(0)], advance_ops: true },
        TrackerCfg { ooo: vec![Some(1), Some(0)], advance_ops: true },
        TrackerCfg { ooo: vec![Some(2), Some(1)], advance_ops: true },
        TrackerCfg { ooo: vec![Some(2), Some(2)], advance_ops: true },
        TrackerCfg { ooo: vec![Some(1), None], advance_ops: true },
        TrackerCfg { ooo: vec![Some(1), Some(0), None], advance_ops: false },
        TrackerCfg { ooo: vec![Some(2), Some(1), Some(0)], advance_ops: args.tier == mc::Tier::Thorough },
    ];
    let mut closed = Vec::new();
    for cfg in &tracker_cfgs {
        let shared_acc = Mutex::new(Acc::default());
        let stats = mc::bfs_histories(cfg.n_ops(), depth, args.threads, &deadline, |h: &[usize]| {
            let mut acc = Acc::default();
            let st = check_tracker(cfg, h, &mut acc);
            shared_acc.lock().unwrap().merge(acc);
            st
        });
        if !stats.complete {
            rep.cap_hit(&format!("wall cap during tracker BFS ooo={:?}", cfg.ooo));
        }
        rep.states += stats.states;
        rep.transitions += stats.transitions;
        let acc = shared_acc.into_inner().unwrap();
        rep.traces += acc.evaluations;
        closed.push(json!({"ooo_s": cfg.ooo, "advance_ops": cfg.advance_ops, "ops": cfg.n_ops(), "states": stats.states, "transitions": stats.transitions, "deepest_new_state": stats.max_depth, "closed": stats.max_depth < depth}));
        rep.absorb(acc);
    }
    rep.set("tracker_bfs", json!(closed));

    // ---- Part 2: engine gate, all event sequences
    let one_len = args.tier.pick(6usize, 7usize);
    let two_len = args.tier.pick(4usize, 5usize);
    let mut gate_states = 0u64;
    for cfg in gate_configs() {
        let prog = parse(&cfg.source());
        let nty = cfg.ntypes();
        let len = if nty > 1 { two_len } else { one_len };
        let space = SeqSpace::new(nty * NTS, 1, len);
        let (acc, done) = mc::par_indices(space.total(), args.threads, 256, |i, acc| {
            if i % 256 == 0 && deadline.expired() {
                return false;
            }
            let mut idx = Vec::new();
            space.decode(i, &mut idx);
            let h: Vec<(usize, i64)> = idx.iter().map(|d| (d % nty, (d / nty) as i64)).collect();
            check_gate(&cfg, &prog, &h, acc, i);
            true
        });
        if !done {
            rep.cap_hit(&format!("wall cap during gate sequences for {:?}", cfg.streams));
        }
        rep.traces += acc.evaluations;
        gate_states += acc.outcomes.len() as u64;
        rep.absorb(acc);
    }
    rep.states += gate_states;
    rep.transitions += rep.extra.get("engine_events_processed").and_then(|v| v.as_u64()).unwrap_or(0);
    rep.set("gate_bounds", json!({"programs": gate_configs().len(), "sequence_length_one_source": one_len, "sequence_length_two_sources": two_len, "ts_grid_s": [0, 1, 2, 3, 4, 5]}));
    rep.sample(json!({"part":"tracker","ooo_s":[1,0],"history":["observe_event(s0, ts=3s)","observe_event(s1, ts=1s)","advance_source_watermark(s1, 4s)"]}));
    rep.sample(json!({"part":"gate","program":"stream S0 = A.watermark(out_of_order: 1s).allowed_lateness(0s).emit(id: id)","events":["A(ts=3s)","A(ts=1s)"]}));
    rep.rule = format!("Exhaustive: (1) breadth-first search with state merging over observe_event / advance_source_watermark histories (2–3 sources incl. an unregistered one, ts on a 1 s grid 0..5 s, out-of-order bounds ∈ {{0,1,2}} s) on a fresh PerSourceWatermarkTracker up to depth {depth}; canonical state = the tracker's checkpoint (per-source watermark and max timestamp, effective watermark); `closed` per configuration says whether the frontier emptied. (2) every event sequence of length ≤ {one_len} (one source) / ≤ {two_len} (two sources) through a fresh Engine for {} programs combining .watermark(out_of_order: 0|1|2 s) and .allowed_lateness(none|0|1|2 s), tracker state read from create_checkpoint() around every event. Non-trivial = ≥ 2 sources hold a watermark (tracker) / at least one input was dropped as late (gate).", gate_configs().len());
    rep.assume("the property does not define the value of a source watermark; only monotonicity, effective = min over sources that have a watermark, and the gate relative to the implementation's own effective watermark (read before the event is processed) are demanded; agreement with the documented formula max_ts − out_of_order is counted as information only");
    rep.assume("a stream without .allowed_lateness() is treated as allowed lateness 0 for the `only if` (weakest demand); the converse (late events must be dropped) is not stated and not demanded");
    rep.assume("`absent from the output of its pass-through stream` is the observation of `dropped`; no VPL syntax configures a side output, so `diverted` does not occur");
    rep.assume("the tracker's wall-clock field last_event_time is not part of the canonical state: no transition function reads it");
    rep.finish();
}
