//! C15 — joins correlate exactly the same-key events that are within the window (DESIGN.md §3).
//!
//! E2, stateless: every arrival history over (source × key{x,y} × ts on a 1 s grid 0..4 s) up to a
//! length bound, whose disorder stays strictly below the window (so that "within the join window
//! of the arriving event" is unambiguous), is replayed on a fresh real `JoinBuffer` (2- and 3-way,
//! W ∈ {1,2,3} s, per-key cap ∈ {1,2,1000}) and on a fresh real engine (`join(A,B[,C]).on(..).window(Ws)`).
//! The output of the *last* arrival of every history is judged (earlier arrivals are the last
//! arrivals of the shorter histories, which are enumerated too).
//!
//! Reference model (a list): on arrival of e, an output is produced iff every source has, among its
//! last `cap` arrivals with key(e), an event within W of ts(e); the output's fields come from the
//! most recently arrived such event of each source.
//! Don't-care: an event exactly W older than e (the text says "within the join window"): both
//! readings are accepted, the implementation's choice is recorded.

use crate::common::*;
use chrono::Duration;
use mc::{Acc, Args, Deadline, Report, SeqSpace};
use rustc_hash::FxHashMap;
use serde_json::{json, Value as J};
use varpulis_core::ast::Program;
use varpulis_core::Value;
use varpulis_runtime::join::JoinBuffer;

const NTS: usize = 5; // 0..4 s
const KEYS: [&str; 2] = ["x", "y"];
const TYPES: [&str; 3] = ["A", "B", "C"];

#[derive(Clone, Copy, Debug, PartialEq, Eq)]
struct Arr {
    src: usize,
    key: usize,
    ts: i64, // seconds
}
/// alphabet index → arrival; simplest first (ts 0 first, key x first, source 0 first)
fn arr_of(i: usize, nsrc: usize) -> Arr {
    Arr { src: i % nsrc, key: (i / nsrc) % 2, ts: (i / nsrc / 2) as i64 }
}
fn readable(h: &[Arr]) -> Vec<String> {
    h.iter().map(|a| format!("{}(k={}, ts={}s)", TYPES[a.src], KEYS[a.key], a.ts)).collect()
}

#[derive(Clone, Copy, Debug)]
struct Cfg {
    nsrc: usize,
    w: i64,
    cap: usize,
    engine: bool,
}

/// disorder of every arrival (max earlier ts − ts) must be < W; returns (admissible, any out-of-order)
fn disorder(h: &[Arr], w: i64) -> (bool, bool) {
    let (mut m, mut ooo) = (i64::MIN, false);
    for a in h {
        if a.ts < m {
            ooo = true;
            if m - a.ts >= w {
                return (false, true);
            }
        }
        m = m.max(a.ts);
    }
    (true, ooo)
}

/// Model verdict for the last arrival: (inclusive reading, strict reading); each = ids per source or None.
fn model(h: &[Arr], nsrc: usize, w: i64, cap: usize) -> (Option<Vec<i64>>, Option<Vec<i64>>) {
    let n = h.len();
    let e = h[n - 1];
    let pick = |strict: bool| -> Option<Vec<i64>> {
        let mut out = Vec::new();
        for s in 0..nsrc {
            let arrivals: Vec<usize> = (0..n).filter(|j| h[*j].src == s && h[*j].key == e.key).collect();
            let kept = &arrivals[arrivals.len().saturating_sub(cap)..];
            let j = kept.iter().rev().find(|j| if strict { h[**j].ts > e.ts - w } else { h[**j].ts >= e.ts - w })?;
            out.push(*j as i64);
        }
        Some(out)
    };
    (pick(false), pick(true))
}

fn mk(a: &Arr, id: usize, engine: bool) -> varpulis_runtime::Event {
    let ty = if engine { TYPES[a.src].to_string() } else { format!("S{}", a.src) };
    keyed_event(&ty, id as i64, a.ts * 2, KEYS[a.key])
}

fn program(nsrc: usize, w: i64) -> Program {
    let src = if nsrc == 2 {
        format!("stream J = join(A, B)\n    .on(A.k == B.k)\n    .window({w}s)\n    .emit(a: A.id, b: B.id)\n")
    } else {
        format!("stream J = join(A, B, C)\n    .on(A.k == B.k and B.k == C.k)\n    .window({w}s)\n    .emit(a: A.id, b: B.id, c: C.id)\n")
    };
    parse(&src)
}

/// Real execution: per arrival, the ids (one per source) of the joined output, or None.
fn run_real(h: &[Arr], cfg: Cfg, prog: Option<&Program>) -> Result<Vec<Option<Vec<i64>>>, String> {
    let int = |e: &varpulis_runtime::Event, f: &str| match e.data.get(f) {
        Some(Value::Int(x)) => *x,
        _ => -1,
    };
    if cfg.engine {
        let owned;
        let prog = match prog {
            Some(p) => p,
            None => {
                owned = program(cfg.nsrc, cfg.w);
                &owned
            }
        };
        let outs = run_engine(prog, h.iter().enumerate().map(|(i, a)| EngOp::Ev(mk(a, i, true))).collect())?;
        let mut res = Vec::new();
        for (step, o) in outs.iter().enumerate() {
            match o.len() {
                0 => res.push(None),
                1 => res.push(Some(["a", "b", "c"][..cfg.nsrc].iter().map(|f| int(&o[0], f)).collect())),
                k => return Err(format!("arrival {step} produced {k} joined outputs")),
            }
        }
        Ok(res)
    } else {
        let sources: Vec<String> = (0..cfg.nsrc).map(|i| format!("S{i}")).collect();
        let mut keys = FxHashMap::default();
        for s in &sources {
            keys.insert(s.clone(), "k".to_string());
        }
        let mut jb = JoinBuffer::new(sources.clone(), keys, Duration::seconds(cfg.w)).with_max_events(cfg.cap);
        Ok(h.iter().enumerate().map(|(i, a)| jb.add_event(&sources[a.src], mk(a, i, false)).map(|e| (0..cfg.nsrc).map(|s| int(&e, &format!("S{s}.id"))).collect())).collect())
    }
}

fn case_json(h: &[Arr], cfg: Cfg) -> J {
    json!({"nsrc": cfg.nsrc, "window_s": cfg.w, "cap": cfg.cap, "engine": cfg.engine,
           "arrivals": h.iter().map(|a| json!([a.src, a.key, a.ts])).collect::<Vec<_>>(), "readable": readable(h)})
}

fn check(h: &[Arr], cfg: Cfg, prog: Option<&Program>, acc: &mut Acc, order: u64) {
    if h.is_empty() {
        return;
    }
    let (ok, ooo) = disorder(h, cfg.w);
    if !ok {
        acc.count("histories_outside_the_disorder_bound_skipped", 1);
        return;
    }
    let res = mc::catch(|| run_real(h, cfg, prog));
    acc.evaluations += 1;
    acc.count("arrivals_executed", h.len() as u64);
    // attributes of the case
    let at_cap = (0..cfg.nsrc).any(|s| (0..2).any(|k| h.iter().filter(|a| a.src == s && a.key == k).count() > cfg.cap));
    let comp = format!("{}{}{}", if cfg.engine { "engine_" } else { "" }, if ooo { "out_of_order" } else { "in_order" }, if at_cap { "_at_cap" } else { "" });
    let size = ((((h.len() * 4 + cfg.nsrc) * 4 + cfg.w as usize) << 40) as u64 | order.min((1 << 40) - 1)) as usize;
    let head = format!("{}-way join{}, window {}s, cap {}, arrivals {:?}", cfg.nsrc, if cfg.engine { " (engine)" } else { "" }, cfg.w, cfg.cap, readable(h));
    let got = match res {
        Ok(Ok(g)) => g,
        Ok(Err(m)) => return acc.viol.add(format!("C15:{comp}:multiple_outputs"), format!("{head}: {m}"), case_json(h, cfg), size),
        Err(p) => return acc.viol.add(format!("C15:{comp}:panic"), format!("{head}: panic {p} at {}", mc::last_panic_location()), case_json(h, cfg), size),
    };
    acc.outcome(&(cfg.nsrc, cfg.w, cfg.cap, cfg.engine, &got));
    let (incl, strict) = model(h, cfg.nsrc, cfg.w, cfg.cap);
    if incl.is_some() {
        acc.nontrivial += 1;
    }
    let last = got.last().cloned().flatten();
    if last == incl || last == strict {
        if incl != strict {
            acc.count(&format!("boundary_partner_exactly_W_old_{}_{}", if last == incl { "joined" } else { "not_joined" }, if ooo { "out_of_order_history" } else { "in_order_history" }), 1);
        }
        return;
    }
    let e = h[h.len() - 1];
    match (&last, &strict, &incl) {
        (None, Some(want), _) => acc.viol.add(format!("C15:{comp}:partner_expired_early"), format!("{head}: the last arrival has same-key partners within {}s in every source (arrivals {want:?}) but no joined output was produced", cfg.w), case_json(h, cfg), size),
        (Some(g), _, None) => acc.viol.add(format!("C15:{comp}:spurious_output"), format!("{head}: joined output from arrivals {g:?} although some source has no key-{} event within {}s of ts={}s", KEYS[e.key], cfg.w, e.ts), case_json(h, cfg), size),
        (Some(g), _, Some(want)) => acc.viol.add(format!("C15:{comp}:wrong_partner"), format!("{head}: joined output takes its fields from arrivals {g:?}; the most recently arrived in-window events are {want:?}"), case_json(h, cfg), size),
        (None, None, _) => {}
    }
}

fn self_test() {
    let a = |src, key, ts| Arr { src, key, ts };
    // B@0 then A@1, W=1: B is exactly W old → inclusive joins, strict does not
    assert_eq!(model(&[a(1, 0, 0), a(0, 0, 1)], 2, 1, 1000), (Some(vec![1, 0]), None));
    // W=2: inside under both readings
    assert_eq!(model(&[a(1, 0, 0), a(0, 0, 1)], 2, 2, 1000), (Some(vec![1, 0]), Some(vec![1, 0])));
    // different key: never
    assert_eq!(model(&[a(1, 1, 0), a(0, 0, 0)], 2, 2, 1000), (None, None));
    // most recently arrived in-window partner wins: B@0 B@1 A@1 → B arrival 1
    assert_eq!(model(&[a(1, 0, 0), a(1, 0, 1), a(0, 0, 1)], 2, 2, 1000).0, Some(vec![2, 1]));
    // cap 1 on source B: B@3 evicts B@1; the late A@1 (disorder 2 < W=3) joins the kept B@3 (the model only looks back: ts ≥ 1−3)
    assert_eq!(model(&[a(1, 0, 1), a(1, 0, 3), a(0, 0, 1)], 2, 3, 1).0, Some(vec![2, 1]));
    // the expected finding: B@0, A@4, A@2 with W=3: B@0 is within 3s of the late A@2
    assert_eq!(model(&[a(1, 0, 0), a(0, 0, 4), a(0, 0, 2)], 2, 3, 1000), (Some(vec![2, 0]), Some(vec![2, 0])));
    assert_eq!(disorder(&[a(1, 0, 0), a(0, 0, 4), a(0, 0, 2)], 3), (true, true));
    assert_eq!(disorder(&[a(1, 0, 0), a(0, 0, 4), a(0, 0, 1)], 3), (false, true));
    // 3-way needs all three sources
    assert_eq!(model(&[a(0, 0, 0), a(1, 0, 0)], 3, 1, 1000).0, None);
    assert_eq!(model(&[a(0, 0, 0), a(1, 0, 0), a(2, 0, 0)], 3, 1, 1000).0, Some(vec![0, 1, 2]));
    assert_eq!(arr_of(0, 2), a(0, 0, 0));
    assert_eq!(arr_of(19, 2), a(1, 1, 4));
}

pub fn run(args: &Args) -> ! {
    let mut rep = Report::new(args, "model_checking");
    self_test();
    if let Some(path) = &args.replay {
        let c = mc::load_replay(path);
        let cfg = Cfg { nsrc: c["nsrc"].as_u64().unwrap_or(2) as usize, w: c["window_s"].as_i64().unwrap_or(1), cap: c["cap"].as_u64().unwrap_or(1000) as usize, engine: c["engine"].as_bool().unwrap_or(false) };
        let h: Vec<Arr> = c["arrivals"].as_array().map(|a| a.iter().map(|x| Arr { src: x[0].as_u64().unwrap_or(0) as usize, key: x[1].as_u64().unwrap_or(0) as usize, ts: x[2].as_i64().unwrap_or(0) }).collect()).unwrap_or_default();
        let mut acc = Acc::default();
        check(&h, cfg, None, &mut acc, 0);
        rep.absorb(acc);
        rep.evaluations = rep.evaluations.max(1);
        rep.finish();
    }
    let deadline = Deadline::after(std::time::Duration::from_secs(args.tier.pick(32, 1080)));
    {
        let h = [Arr { src: 1, key: 0, ts: 0 }, Arr { src: 0, key: 0, ts: 4 }, Arr { src: 0, key: 0, ts: 2 }];
        for engine in [false, true] {
            let cfg = Cfg { nsrc: 2, w: 3, cap: 1000, engine };
            if run_real(&h, cfg, None) != run_real(&h, cfg, None) {
                mc::machinery_error("join replay is not deterministic");
            }
        }
    }
    // (nsrc, engine, max history length)
    let plan: [(usize, bool, usize); 4] = [
        (2, false, args.tier.pick(5, 6)),
        (3, false, args.tier.pick(4, 5)),
        (2, true, args.tier.pick(4, 5)),
        (3, true, args.tier.pick(3, 4)),
    ];
    let mut states = 0u64;
    for (nsrc, engine, maxlen) in plan {
        for w in 1..=3i64 {
            let caps: &[usize] = if engine { &[1000] } else { &[1, 2, 1000] };
            for &cap in caps {
                let cfg = Cfg { nsrc, w, cap, engine };
                let prog = if engine { Some(program(nsrc, w)) } else { None };
                let k = nsrc * 2 * NTS;
                let space = SeqSpace::new(k, 1, maxlen);
                let (acc, done) = mc::par_indices(space.total(), args.threads, 1024, |i, acc| {
                    if i % 1024 == 0 && deadline.expired() {
                        return false;
                    }
                    let mut idx = Vec::with_capacity(maxlen);
                    space.decode(i, &mut idx);
                    let h: Vec<Arr> = idx.iter().map(|d| arr_of(*d, nsrc)).collect();
                    check(&h, cfg, prog.as_ref(), acc, i);
                    true
                });
                if !done {
                    rep.cap_hit(&format!("wall cap during {nsrc}-way engine={engine} W={w}s cap={cap}"));
                }
                rep.traces += acc.evaluations;
                states += acc.outcomes.len() as u64;
                rep.add_count(&format!("histories_{nsrc}way_{}", if engine { "engine" } else { "joinbuffer" }), acc.evaluations);
                rep.absorb(acc);
            }
        }
    }
    // Boundary consistency (added after seeded change C15): whether a partner exactly W old joins is
    // not fixed by the property text, but the choice must not depend on unrelated arrivals. Fine-grained
    // in-order histories (ms timestamps around the boundary, window 1 s) on the real JoinBuffer: for
    // every history whose last arrival has a same-key partner exactly 1 s old and none strictly inside
    // the window, record whether it joined; both answers occurring is a violation.
    {
        let ts_ms: [i64; 5] = [0, 950, 1000, 1950, 2000];
        let k = 2 * ts_ms.len(); // source × timestamp, one key
        let maxlen = args.tier.pick(4usize, 5usize);
        let space = SeqSpace::new(k, 2, maxlen);
        let (acc, done) = mc::par_indices(space.total(), args.threads, 512, |i, acc| {
            let mut idx = Vec::new();
            space.decode(i, &mut idx);
            let h: Vec<(usize, i64)> = idx.iter().map(|d| (d % 2, ts_ms[d / 2])).collect();
            if !h.windows(2).all(|w| w[0].1 <= w[1].1) {
                return true; // in-order histories only
            }
            let (ls, lt) = h[h.len() - 1];
            let other = 1 - ls;
            let partners: Vec<i64> = h[..h.len() - 1].iter().filter(|(s, _)| *s == other).map(|(_, t)| lt - *t).collect();
            let on_boundary = partners.iter().any(|d| *d == 1000);
            let inside = partners.iter().any(|d| *d < 1000);
            if !on_boundary || inside {
                return true;
            }
            let sources = vec!["S0".to_string(), "S1".to_string()];
            let mut keys = FxHashMap::default();
            for sname in &sources {
                keys.insert(sname.clone(), "k".to_string());
            }
            let joined = mc::catch(|| {
                let mut jb = JoinBuffer::new(sources.clone(), keys.clone(), Duration::seconds(1));
                let mut last = None;
                for (i, (src, t)) in h.iter().enumerate() {
                    let mut e = varpulis_runtime::Event::new_at(format!("S{src}"), chrono::DateTime::from_timestamp_millis(1_700_000_000_000 + *t).unwrap());
                    e.data.insert("id".into(), varpulis_core::Value::Int(i as i64));
                    e.data.insert("k".into(), varpulis_core::Value::str("x"));
                    last = jb.add_event(&sources[*src], e);
                }
                last.is_some()
            });
            acc.evaluations += 1;
            match joined {
                Ok(true) => {
                    acc.count("fine_grid_boundary_partner_joined", 1);
                    if acc.counts.get("fine_grid_boundary_partner_joined") == Some(&1) {
                        acc.samples.push(json!({"family":"boundary consistency","window":"1s","arrivals_ms":h,"joined":true}));
                    }
                }
                Ok(false) => {
                    acc.count("fine_grid_boundary_partner_not_joined", 1);
                    if acc.counts.get("fine_grid_boundary_partner_not_joined") == Some(&1) {
                        acc.samples.push(json!({"family":"boundary consistency","window":"1s","arrivals_ms":h,"joined":false}));
                    }
                }
                Err(p) => acc.viol.add("C15:in_order:panic", format!("fine-grid history {h:?}: panic {p}"), json!({"fine_grid_arrivals_ms": h}), h.len()),
            }
            true
        });
        let _ = done;
        let j = acc.counts.get("fine_grid_boundary_partner_joined").copied().unwrap_or(0);
        let nj = acc.counts.get("fine_grid_boundary_partner_not_joined").copied().unwrap_or(0);
        let examples: Vec<J> = acc.samples.iter().filter(|s| s["family"] == "boundary consistency").cloned().collect();
        rep.traces += acc.evaluations;
        rep.absorb(acc);
        if j > 0 && nj > 0 {
            rep.violation(mc::Violation {
                sig: "C15:in_order:boundary_choice_depends_on_unrelated_arrivals".into(),
                desc: format!("in-order arrivals, window 1 s: a same-key partner exactly 1 s old joined in {j} histories and did not join in {nj} histories (examples: {})", serde_json::to_string(&examples).unwrap_or_default()),
                case: json!({"fine_grid_examples": examples}),
                size: 1,
            });
        }
    }
    rep.states = states;
    rep.transitions = rep.extra.get("arrivals_executed").and_then(|v| v.as_u64()).unwrap_or(0);
    rep.set("bounds", json!({"history_length": {"joinbuffer_2way": plan[0].2, "joinbuffer_3way": plan[1].2, "engine_2way": plan[2].2, "engine_3way": plan[3].2}, "window_s": [1, 2, 3], "caps": [1, 2, 1000], "ts_grid_s": [0, 1, 2, 3, 4], "keys": KEYS}));
    rep.sample(json!({"join":"2-way JoinBuffer","window":"3s","arrivals":["B(k=x, ts=0s)","A(k=x, ts=4s)","A(k=x, ts=2s)"]}));
    rep.sample(json!({"join":"3-way engine","program":"stream J = join(A, B, C).on(A.k == B.k and B.k == C.k).window(2s).emit(a: A.id, b: B.id, c: C.id)"}));
    rep.rule = format!("Exhaustive: every arrival history over source × key{{x,y}} × ts ∈ {{0..4}} s whose disorder is < W, W ∈ {{1,2,3}} s: JoinBuffer 2-way (length ≤ {}) and 3-way (≤ {}) with per-key cap ∈ {{1,2,1000}}; Engine join programs 2-way (≤ {}) and 3-way (≤ {}). The output (or silence) of the last arrival of each history is compared with the list model. Non-trivial = the model expects a joined output for the last arrival. transitions = add_event / process calls executed; states = distinct per-arrival output vectors.", plan[0].2, plan[1].2, plan[2].2, plan[3].2);
    rep.assume("don't-care: a partner exactly W older than the arriving event (`within the join window`): joined or not are both accepted; the observed choice is counted in the evidence, but for in-order arrivals it must be the same choice in every history (fine-grid boundary family)");
    rep.assume("the per-key cap is read as in DESIGN §3: a source contributes only its last `cap` arrivals for the key; the property text itself does not mention the cap");
    rep.assume("disorder is bounded by < W so that every earlier event is at most W newer than the arriving one; `within the window of the arriving event` then only looks back");
    rep.assume("engine programs join event types A, B, C directly (`join(A, B)` with undeclared streams is treated as a join of event types by the compiler)");
    rep.finish();
}
