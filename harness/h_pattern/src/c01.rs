//! C01 — every reported pattern match is a genuine occurrence of the pattern.
//!
//! Oracle: a soundness checker applied to every match the real code emits (no expectation about
//! *which* matches are emitted — that is C02/C03). Two observation points per (program, stream):
//!   * Engine level: the events drained from the `Engine` output channel; `.emit` projects every
//!     alias to `<alias>_id/_k/_v`, so each captured event is identified by its stream position and
//!     its captured fields are compared with the input event at that position.
//!   * SaseEngine level: the same VPL program compiled by the real `compile_to_sase_pattern_with_resolver`
//!     and driven through `SaseEngine::process`; `MatchResult.stack` shows every event of the match
//!     (for `all` steps the output columns only show the last one).
//! The harness-side mirror of the loader is tied to the real engine: per input event the matches
//! of both levels must have the same alias→id columns, otherwise the run stops as a machinery error.

use crate::common::*;
use mc::{Acc, Args, Deadline, Report};
use serde_json::json;
use std::sync::atomic::{AtomicBool, Ordering};
use std::sync::Mutex;
use std::time::Duration;
use varpulis_runtime::sase::MatchResult;

fn not_clause_hit(p: &Prog, e: &Ev, s0: Option<&Ev>) -> bool {
    if e.t != NOT_TYPE {
        return false;
    }
    match p.not {
        NotC::None => false,
        NotC::Plain => true,
        NotC::KEqS0 => matches!((e.key(), s0.and_then(|s| s.key())), (Some(a), Some(b)) if a == b),
    }
}

/// Soundness of one match given as (step index, stream position) pairs in stack order.
/// Alias references denote the latest earlier entry of the referenced step. Returns the violated
/// clause (a fixed label, used in the signature) and a description.
pub fn check_entries(p: &Prog, st: &[Ev], entries: &[(usize, usize)], emitted_at: usize, full_stack: bool) -> Result<(), (&'static str, String)> {
    if entries.is_empty() {
        return Err(("empty_match", "match without events".into()));
    }
    for w in entries.windows(2) {
        if w[1].1 <= w[0].1 {
            return Err(("arrival_order", format!("events #{} then #{} are not in arrival order", w[0].1, w[1].1)));
        }
        if w[1].0 < w[0].0 {
            return Err(("step_order", format!("step s{} follows step s{}", w[1].0, w[0].0)));
        }
    }
    for (i, s) in p.steps.iter().enumerate() {
        let cnt = entries.iter().filter(|e| e.0 == i).count();
        if cnt == 0 {
            return Err(("step_missing", format!("no event for step s{i}")));
        }
        if full_stack && !s.all && cnt > 1 {
            return Err(("step_repeated", format!("{cnt} events for the non-`all` step s{i}")));
        }
    }
    for (ei, &(si, pos)) in entries.iter().enumerate() {
        if pos >= st.len() {
            return Err(("foreign_event", format!("step s{si} holds id {pos}, not a position of the input")));
        }
        if pos > emitted_at {
            return Err(("before_arrival", format!("match emitted after input #{emitted_at} contains the later event #{pos}")));
        }
        let e = &st[pos];
        let step = &p.steps[si];
        if e.t != step.ty {
            return Err(("event_type", format!("step s{si} expects {} but holds #{pos}:{}", TYPE_NAMES[step.ty as usize], e.show())));
        }
        let refd = step.filt.refers().and_then(|r| entries[..ei].iter().rev().find(|x| x.0 == r).map(|x| &st[x.1]));
        if step.filt.refers().is_some() && refd.is_none() {
            return Err(("step_filter", format!("step s{si} refers to an alias with no earlier captured event")));
        }
        if !step.filt.holds(e, refd) {
            return Err((
                "step_filter",
                format!("step s{si}{} does not hold for #{pos}:{}{}", step.filt.text(), e.show(), refd.map(|r| format!(" with the referenced event {}", r.show())).unwrap_or_default()),
            ));
        }
    }
    if p.part {
        let k0 = st[entries[0].1].key();
        if let Some(x) = entries.iter().find(|x| st[x.1].key() != k0) {
            return Err(("partition", format!("events #{} and #{} have different partition values", entries[0].1, x.1)));
        }
    }
    if p.not != NotC::None {
        let (first, last) = (entries[0].1, entries[entries.len() - 1].1);
        // engine level with a leading `all` and an unpartitioned key predicate: the s0 in force when
        // the N event arrived is not observable (only the last s0 is) → don't-care there
        let s0_unobservable = !full_stack && p.steps[0].all && p.not == NotC::KEqS0 && !p.part;
        if !s0_unobservable {
            for q in first + 1..last {
                let s0 = entries.iter().rev().find(|x| x.0 == 0 && x.1 < q).map(|x| &st[x.1]);
                if not_clause_hit(p, &st[q], s0) {
                    return Err(("not_clause", format!("#{q}:{} satisfies the .not clause and lies between the first (#{first}) and last (#{last}) event of the match", st[q].show())));
                }
            }
        }
    }
    Ok(())
}

fn engine_entries(m: &OutMatch, st: &[Ev]) -> Result<Vec<(usize, usize)>, (&'static str, String)> {
    let mut v = Vec::new();
    for (i, c) in m.iter().enumerate() {
        let Some(c) = c else { return Err(("step_missing", format!("output has no columns for alias s{i}"))) };
        let Some(id) = c.id else { return Err(("foreign_event", format!("alias s{i} has no id column"))) };
        if id < 0 || id as usize >= st.len() {
            return Err(("foreign_event", format!("alias s{i} holds id {id}, not a position of the input")));
        }
        let e = &st[id as usize];
        let want_k = e.key().map(|k| KEY_NAMES[k as usize].to_string());
        if c.k != want_k || c.v != Some(e.v as i64) {
            return Err(("captured_fields", format!("alias s{i} shows k={:?} v={:?} but input #{id} is {}", c.k, c.v, e.show())));
        }
        v.push((i, id as usize));
    }
    Ok(v)
}

fn sase_entries(m: &MatchResult) -> Result<Vec<(usize, usize)>, (&'static str, String)> {
    let mut v = Vec::new();
    for se in &m.stack {
        let Some(al) = &se.alias else { return Err(("step_missing", "stack entry without alias".into())) };
        let si: usize = al.trim_start_matches('s').parse().map_err(|_| ("step_missing", format!("unknown alias {al}")))?;
        let id = event_id(&se.event);
        if id < 0 {
            return Err(("foreign_event", "stack entry without id".into()));
        }
        v.push((si, id as usize));
    }
    // the captured map must show the last stack entry of every alias
    for (al, ev) in &m.captured {
        let last = m.stack.iter().rev().find(|s| s.alias.as_deref() == Some(al.as_str())).map(|s| event_id(&s.event));
        if last != Some(event_id(ev)) {
            return Err(("captured_fields", format!("captured[{al}] is #{} but the last stack entry of {al} is {:?}", event_id(ev), last)));
        }
    }
    Ok(v)
}

pub struct Shared {
    pub mirror_mismatch: Mutex<Option<String>>,
    pub stop: AtomicBool,
}

/// One case: engine level + SaseEngine level. Returns the number of matches checked.
pub fn check_case(l: &Loaded, parts: &SaseParts, st: &[Ev], sh: &Shared, acc: &mut Acc) -> usize {
    let p = &l.prog;
    let size = st.len() * 100 + p.size();
    let head = || format!("{} | stream {}", l.text.lines().take_while(|x| !x.contains(".emit")).collect::<Vec<_>>().join(" ").trim(), show_stream(st));
    let mut checked = 0;
    // ---- engine level
    acc.evaluations += 1;
    let eng = match mc::catch(|| run_engine(&l.ast, p.n(), st)) {
        Err(panic) => {
            acc.viol.add(format!("C01:{}:engine:panic", p.sig_attrs_all()), format!("{} | panic at {}: {panic}", head(), mc::last_panic_location()), case_json(l, st), size);
            return 0;
        }
        Ok(Err(e)) => {
            acc.viol.add(format!("C01:{}:engine:error", p.sig_attrs_all()), format!("{} | {e}", head()), case_json(l, st), size);
            return 0;
        }
        Ok(Ok(b)) => b,
    };
    for (at, batch) in eng.iter().enumerate() {
        for m in batch {
            checked += 1;
            let r = engine_entries(m, st).and_then(|en| check_entries(p, st, &en, at, false));
            if let Err((clause, why)) = r {
                acc.viol.add(format!("C01:{}:engine:{clause}", p.sig_attrs_all()), format!("{} | output after #{at} {:?}: {why}", head(), m), case_json(l, st), size);
            }
        }
    }
    acc.outcome(&eng);
    // ---- SaseEngine level (events routed like the engine does: pattern types and .not types only)
    acc.evaluations += 1;
    let listened = |e: &Ev| p.steps.iter().any(|s| s.ty == e.t) || (e.t == NOT_TYPE && p.not != NotC::None);
    let direct = mc::catch(|| {
        let mut se = build_sase(parts);
        let mut out: Vec<Vec<MatchResult>> = Vec::with_capacity(st.len());
        for (i, e) in st.iter().enumerate() {
            out.push(if listened(e) { se.process(&mk_event(e, i)) } else { Vec::new() });
        }
        out
    });
    let direct = match direct {
        Err(panic) => {
            acc.viol.add(format!("C01:{}:sase:panic", p.sig_attrs_all()), format!("{} | panic at {}: {panic}", head(), mc::last_panic_location()), case_json(l, st), size);
            return checked;
        }
        Ok(d) => d,
    };
    for (at, batch) in direct.iter().enumerate() {
        for m in batch {
            checked += 1;
            let r = sase_entries(m).and_then(|en| check_entries(p, st, &en, at, true));
            if let Err((clause, why)) = r {
                let stack: Vec<String> = m.stack.iter().map(|s| format!("{}=#{}", s.alias.clone().unwrap_or_default(), event_id(&s.event))).collect();
                acc.viol.add(format!("C01:{}:sase:{clause}", p.sig_attrs_all()), format!("{} | match after #{at} stack [{}]: {why}", head(), stack.join(", ")), case_json(l, st), size);
            }
        }
        // tie the mirror to the engine: same alias→id columns per input event
        let mut a: Vec<Vec<Option<i64>>> = batch.iter().map(|m| (0..p.n()).map(|i| m.captured.get(&alias(i)).map(|e| event_id(e))).collect()).collect();
        let mut b: Vec<Vec<Option<i64>>> = eng[at].iter().map(|m| m.iter().map(|c| c.as_ref().and_then(|c| c.id)).collect()).collect();
        a.sort();
        b.sort();
        if a != b && !sh.stop.swap(true, Ordering::SeqCst) {
            *sh.mirror_mismatch.lock().unwrap() = Some(format!("{} | after #{at}: Engine outputs {:?} but the SaseEngine built by the harness mirror of the loader gives {:?}", head(), b, a));
        }
    }
    checked
}

impl Prog {
    /// signature attributes including the `all` shape of the program
    pub fn sig_attrs_all(&self) -> String {
        let n = self.n();
        let all = if !self.has_all() {
            "none"
        } else if self.steps[n - 1].all && self.steps[..n - 1].iter().all(|s| !s.all) {
            "trailing"
        } else if self.steps[0].all && self.steps[1..].iter().all(|s| !s.all) {
            "leading"
        } else if self.steps[0].all || self.steps[n - 1].all {
            "mixed"
        } else {
            "middle"
        };
        format!("{}:all={all}", self.sig_attrs())
    }
}

fn grammars(args: &Args) -> Vec<Grammar> {
    match args.tier {
        mc::Tier::Quick => vec![
            Grammar { max_steps: 2, with_all: true, wide: false, limit_from: 9, max_filtered: 9, limit_all_from: 9, max_all: 9, seq_twins: true },
            Grammar { max_steps: 3, with_all: true, wide: false, limit_from: 3, max_filtered: 1, limit_all_from: 9, max_all: 9, seq_twins: false },
        ],
        mc::Tier::Thorough => vec![
            Grammar { max_steps: 3, with_all: true, wide: false, limit_from: 9, max_filtered: 9, limit_all_from: 9, max_all: 9, seq_twins: true },
            Grammar { max_steps: 4, with_all: true, wide: false, limit_from: 4, max_filtered: 1, limit_all_from: 4, max_all: 1, seq_twins: false },
        ],
    }
}

pub fn all_programs(args: &Args) -> Vec<Prog> {
    let mut seen = std::collections::HashSet::new();
    let mut out = Vec::new();
    for g in grammars(args) {
        for p in programs(&g) {
            if seen.insert(p.clone()) {
                out.push(p);
            }
        }
    }
    out.sort_by_key(|p| p.size());
    out
}

pub fn self_test() {
    let a = |k, v| Ev { t: 0, k, v };
    let b = |k, v| Ev { t: 1, k, v };
    let n = |k| Ev { t: NOT_TYPE, k, v: 1 };
    let p = Prog {
        form: Form::Arrow,
        steps: vec![Step { ty: 0, all: false, filt: Filt::None }, Step { ty: 1, all: true, filt: Filt::VGtRef(0) }],
        part: true,
        not: NotC::KEqS0,
    };
    let st = [a(0, 1), b(0, 2), n(1), b(0, 2), b(1, 2), b(0, 1), n(0), b(0, 2)];
    assert!(check_entries(&p, &st, &[(0, 0), (1, 1), (1, 3)], 3, true).is_ok());
    assert_eq!(check_entries(&p, &st, &[(0, 0), (1, 3), (1, 1)], 3, true).unwrap_err().0, "arrival_order");
    assert_eq!(check_entries(&p, &st, &[(1, 1), (0, 0)], 3, true).unwrap_err().0, "arrival_order");
    assert_eq!(check_entries(&p, &st, &[(0, 0), (1, 4)], 4, true).unwrap_err().0, "partition");
    assert_eq!(check_entries(&p, &st, &[(0, 0), (1, 5)], 5, true).unwrap_err().0, "step_filter");
    assert_eq!(check_entries(&p, &st, &[(0, 0), (1, 1), (1, 7)], 7, true).unwrap_err().0, "not_clause");
    assert_eq!(check_entries(&p, &st, &[(0, 0), (1, 1)], 0, true).unwrap_err().0, "before_arrival");
    assert_eq!(check_entries(&p, &st, &[(0, 1), (1, 3)], 3, true).unwrap_err().0, "event_type");
    assert_eq!(check_entries(&p, &st, &[(0, 0)], 3, true).unwrap_err().0, "step_missing");
    assert_eq!(check_entries(&p, &st, &[(0, 0), (0, 0), (1, 1)], 3, true).unwrap_err().0, "arrival_order");
    // the N(y) at #2 does not satisfy k == s0.k (s0 has key x)
    assert!(check_entries(&p, &st, &[(0, 0), (1, 3)], 3, false).is_ok());
}

pub fn run(args: &Args) -> ! {
    self_test();
    let mut rep = Report::new(args, "exploration");
    let sh = Shared { mirror_mismatch: Mutex::new(None), stop: AtomicBool::new(false) };
    if let Some(path) = &args.replay {
        let case = mc::load_replay(path);
        let (prog, stream) = case_from_json(&case).unwrap_or_else(|e| mc::machinery_error(&e));
        let l = load(&prog, false, false).unwrap_or_else(|e| mc::machinery_error(&e));
        let parts = sase_parts(&l.ast).unwrap_or_else(|e| mc::machinery_error(&e));
        let mut acc = Acc::default();
        check_case(&l, &parts, &stream, &sh, &mut acc);
        rep.absorb(acc);
        if let Some(m) = sh.mirror_mismatch.lock().unwrap().take() {
            mc::machinery_error(&m);
        }
        rep.finish();
    }
    let deadline = Deadline::after(Duration::from_secs(args.tier.pick(33, 1080)));
    let progs = all_programs(args);
    let (max_len, budget) = args.tier.pick((5, 9_000u64), (7, 30_000u64));
    let float_upto = args.tier.pick(0usize, 2usize);
    let budget = budget_override(args, budget);
    let sweep = prepare(&progs, args.threads, &|p| (false, p.n() <= float_upto), max_len, 0, budget);
    if args.extra.iter().any(|a| a == "--dry-run") {
        sweep.dry_run(budget);
    }
    let parts: Vec<SaseParts> = sweep.loaded.iter().map(|l| sase_parts(&l.ast).unwrap_or_else(|e| mc::machinery_error(&format!("{e}\n{}", l.text)))).collect();
    let (acc, complete) = mc::par_items(&sweep.units, args.threads, |u, acc| {
        if deadline.expired() || sh.stop.load(Ordering::Relaxed) {
            return false;
        }
        let l = &sweep.loaded[u.prog];
        let (mut idx, mut st) = (Vec::new(), Vec::new());
        for i in u.lo..u.hi {
            sweep.decode(u.prog, i, &mut idx, &mut st);
            if !sweep.canonical(u.prog, &idx) {
                continue;
            }
            let n = check_case(l, &parts[u.prog], &st, &sh, acc);
            if n > 0 {
                acc.nontrivial += 1;
                acc.count("matches_checked", n as u64);
                acc.sample(|| json!({"program": l.text, "stream": show_stream(&st), "matches_checked_both_levels": n}));
            }
        }
        true
    });
    if let Some(m) = sh.mirror_mismatch.lock().unwrap().take() {
        mc::machinery_error(&format!("harness mirror of the loader disagrees with Engine: {m}"));
    }
    if !complete {
        rep.cap_hit("wall cap reached before every (program, stream) pair was executed");
    }
    rep.absorb(acc);
    rep.set("programs", json!(sweep.loaded.len()));
    rep.set("programs_with_all_step", json!(sweep.loaded.iter().filter(|l| l.prog.has_all()).count()));
    rep.set("programs_by_max_stream_length", json!(sweep.len_histogram));
    rep.set("streams_executed_of_index_space", json!([sweep.canonical_streams, sweep.total_streams]));
    rep.assume("the key values x and y are interchangeable (the programs only test keys for equality and partition by them), so one stream of every x↔y pair is executed; likewise step types are enumerated up to renaming");
    rep.rule = format!(
        "Exhaustive over programs × streams; every case is executed twice (fresh Engine: parse once per program, load, process per event; fresh SaseEngine built from the same parsed program by the real pattern compiler), evaluations = executions. Programs ({}): 1..={} steps, step types up to renaming over {{A,B,C}}, every combination of `all` flags in the arrow form, first-step filter ∈ {{none, v > 1, v == 2}} (sequence(...) form), later-step filter ∈ {{none, v > 1, v == 2, v > <earlier alias>.v, k == <earlier alias>.k}}, ± .partition_by(k), .not ∈ {{none, N, N where k == s0.k}}; {}. Streams per program: every sequence of length 1..=L over the program's own alphabet (event types it mentions, N if it has a .not clause; k ∈ {{x,y,missing}} for types whose key it reads; v ∈ {{1,2}} or {{1,2,3}} (thorough tier, programs of ≤ 2 steps: also the float 1.5) for types whose value it reads), L = largest length ≤ {max_len} (≥ number of steps) whose cumulative count of executed streams is ≤ {budget}; streams are executed up to swapping the key values x and y (only those whose first event carrying a key the program reads carries x). Non-trivial = at least one match was emitted and checked.",
        sweep.loaded.len(),
        args.tier.pick(3, 4),
        args.tier.pick("3-step programs carry at most one step filter", "all filter combinations up to 3 steps, 4-step programs carry at most one step filter and at most one `all` step"),
    );
    rep.assume("an alias reference in a step filter or .not clause denotes the latest event captured under that alias before the event being tested");
    rep.assume("at Engine level only the last event of an `all` step is visible (alias columns); its full run of events is checked on MatchResult.stack at SaseEngine level");
    rep.assume("at Engine level, a .not clause that refers to a leading `all` alias in an unpartitioned program is not checked (the s0 in force when N arrived is not observable there); it is checked at SaseEngine level");
    rep.assume("the SaseEngine of the second observation point is built by a harness mirror of engine/mod.rs (partition_by, add_negation, routing by listened event types); per input event its matches must equal the Engine's alias→id columns, otherwise the run aborts as machinery error");
    rep.finish()
}
