//! C05 — pattern state stays within its configured bounds and processing never panics.
//!
//! Explicit-state search (E2) on the real `SaseEngine`: a state is the event history that reaches
//! it (a fresh engine is built and the history replayed through `SaseEngine::process`), successors
//! append one event of the alphabet, states are merged by a canonical key read from the public
//! `SaseEngine::checkpoint()` (per partition the list of partial matches in vector order, each
//! with NFA state, number of stacked events, number of Kleene events and its age rank; plus the
//! created/dropped counters when the strategy is `Sample`, the only strategy that reads them).
//! Everything the transition functions read is in the key: run order (iteration, swap_remove),
//! NFA state, stack length (EvictLeastProgress), Kleene count (cap test), relative age
//! (EvictOldest / Sample), counters (Sample). Event ids are strictly increasing in every history, so
//! the always-true deferred predicate `id > b.id` behaves identically in merged states.
//!
//! Invariants, evaluated after the last event of every explored history (every prefix is itself an
//! explored history): no panic; partial matches per partition ≤ max_runs; Kleene events held by a
//! partial match and by an emitted match ≤ max_kleene_events; matches emitted by one completion
//! (grouped by start event) ≤ max_enumeration_results.

use crate::common::{event_id, sase_parts, SaseParts};
use mc::{Acc, Args, Deadline, Report};
use serde::{Deserialize, Serialize};
use serde_json::json;
use std::collections::BTreeMap;
use std::sync::Mutex;
use std::time::Duration;
use varpulis_core::Value;
use varpulis_runtime::persistence::RunCheckpoint;
use varpulis_runtime::sase::{BackpressureStrategy, SaseEngine};
use varpulis_runtime::Event;

#[derive(Clone, Copy, Debug, PartialEq, Eq, Hash, Serialize, Deserialize)]
pub enum PatKind {
    /// `A as a -> B as b -> C as c`
    Seq3,
    /// `A as a -> all B as b -> C as c`
    MiddleAll,
    /// `A as a -> all B as b`
    TrailingAll,
    /// `all A as a -> B as b`
    LeadingAll,
    /// `A as a -> all B where id > b.id as b -> C as c` (every combination admissible)
    MiddleAllSelfRef,
}
impl PatKind {
    fn src(self) -> &'static str {
        match self {
            PatKind::Seq3 => "stream S = A as a -> B as b -> C as c\n",
            PatKind::MiddleAll => "stream S = A as a -> all B as b -> C as c\n",
            PatKind::TrailingAll => "stream S = A as a -> all B as b\n",
            PatKind::LeadingAll => "stream S = all A as a -> B as b\n",
            PatKind::MiddleAllSelfRef => "stream S = A as a -> all B where id > b.id as b -> C as c\n",
        }
    }
    fn name(self) -> &'static str {
        match self {
            PatKind::Seq3 => "no_all",
            PatKind::MiddleAll => "middle_all",
            PatKind::TrailingAll => "trailing_all",
            PatKind::LeadingAll => "leading_all",
            PatKind::MiddleAllSelfRef => "middle_all_selfref",
        }
    }
    fn kleene_alias(self) -> Option<&'static str> {
        match self {
            PatKind::Seq3 => None,
            PatKind::LeadingAll => Some("a"),
            _ => Some("b"),
        }
    }
    fn index(self) -> usize {
        [PatKind::Seq3, PatKind::MiddleAll, PatKind::TrailingAll, PatKind::LeadingAll, PatKind::MiddleAllSelfRef].iter().position(|p| *p == self).unwrap()
    }
}

#[derive(Clone, Copy, Debug, PartialEq, Serialize, Deserialize)]
pub enum Strat {
    Drop,
    Error,
    EvictOldest,
    EvictLeastProgress,
    Sample0,
    Sample50,
    Sample100,
}
impl Strat {
    fn real(self) -> BackpressureStrategy {
        match self {
            Strat::Drop => BackpressureStrategy::Drop,
            Strat::Error => BackpressureStrategy::Error,
            Strat::EvictOldest => BackpressureStrategy::EvictOldest,
            Strat::EvictLeastProgress => BackpressureStrategy::EvictLeastProgress,
            Strat::Sample0 => BackpressureStrategy::Sample { rate: 0.0 },
            Strat::Sample50 => BackpressureStrategy::Sample { rate: 0.5 },
            Strat::Sample100 => BackpressureStrategy::Sample { rate: 1.0 },
        }
    }
    fn name(self) -> &'static str {
        match self {
            Strat::Drop => "drop",
            Strat::Error => "error",
            Strat::EvictOldest => "evict_oldest",
            Strat::EvictLeastProgress => "evict_least_progress",
            Strat::Sample0 => "sample_0",
            Strat::Sample50 => "sample_0.5",
            Strat::Sample100 => "sample_1",
        }
    }
    fn is_sample(self) -> bool {
        matches!(self, Strat::Sample0 | Strat::Sample50 | Strat::Sample100)
    }
}
const STRATS: [Strat; 7] = [Strat::Drop, Strat::Error, Strat::EvictOldest, Strat::EvictLeastProgress, Strat::Sample0, Strat::Sample50, Strat::Sample100];

#[derive(Clone, Copy, Debug, Serialize, Deserialize)]
pub struct Config {
    pub pat: PatKind,
    pub strat: Strat,
    pub max_runs: usize,
    pub partitioned: bool,
    pub kleene_cap: u32,
    pub results_cap: usize,
}

const T0_MS: i64 = 1_700_000_000_000;
/// alphabet index → event: unpartitioned A,B,C; partitioned (type, key) with key ∈ {x,y}
fn mk(sym: usize, partitioned: bool, pos: usize) -> Event {
    let (t, k) = if partitioned { (sym / 2, sym % 2) } else { (sym, 0) };
    let mut e = Event::new_at(["A", "B", "C"][t], chrono::DateTime::from_timestamp_millis(T0_MS + pos as i64 * 1000).unwrap());
    e.data.insert("id".into(), Value::Int(pos as i64));
    e.data.insert("k".into(), Value::str(["x", "y"][k]));
    e
}
fn show_hist(hist: &[usize], partitioned: bool) -> String {
    hist.iter()
        .map(|s| if partitioned { format!("{}({})", ["A", "B", "C"][s / 2], ["x", "y"][s % 2]) } else { ["A", "B", "C"][*s].to_string() })
        .collect::<Vec<_>>()
        .join(" ")
}

fn build(cfg: &Config, parts: &[SaseParts]) -> SaseEngine {
    let mut e = SaseEngine::new(parts[cfg.pat.index()].pattern.clone())
        .with_max_runs(cfg.max_runs)
        .with_backpressure(cfg.strat.real())
        .with_max_kleene_events(cfg.kleene_cap)
        .with_max_enumeration_results(cfg.results_cap);
    if cfg.partitioned {
        e = e.with_partition_by("k".into());
    }
    e
}

fn kleene_entries(alias: Option<&str>, rc: &RunCheckpoint) -> usize {
    match alias {
        Some(a) => rc.stack.iter().filter(|s| s.alias.as_deref() == Some(a)).count(),
        None => 0,
    }
}
fn start_id(rc: &RunCheckpoint) -> i64 {
    match rc.stack.first().and_then(|s| s.event.fields.get("id")) {
        Some(varpulis_runtime::persistence::SerializableValue::Int(x)) => *x,
        _ => -1,
    }
}

type RunKey = (usize, usize, i64, usize);
#[derive(Hash, PartialEq, Eq, Clone, Debug)]
pub struct StateKey {
    runs: Vec<(String, Vec<RunKey>)>,
    counters: Option<(u64, u64)>,
}

pub struct Outcome {
    pub key: StateKey,
    pub limit_reached: bool,
}

/// Replay one history on a fresh engine; check the invariants after the last event; report through `acc`.
pub fn run_history(cfg: &Config, parts: &[SaseParts], hist: &[usize], acc: &mut Acc) -> Option<Outcome> {
    let alias = cfg.pat.kleene_alias();
    // shortest history first, then the simplest configuration
    let size = hist.len() * 100_000
        + cfg.max_runs * 1000
        + cfg.partitioned as usize * 500
        + STRATS.iter().position(|s| *s == cfg.strat).unwrap_or(0) * 50
        + (cfg.kleene_cap as usize).min(9) * 5
        + cfg.results_cap.min(4);
    let case = || json!({"config": cfg, "history": hist, "readable": show_hist(hist, cfg.partitioned), "src": cfg.pat.src()});
    let head = || {
        format!(
            "{} | max_runs={} strategy={} {} max_kleene_events={} max_results={} | events: {}",
            cfg.pat.src().trim(),
            cfg.max_runs,
            cfg.strat.name(),
            if cfg.partitioned { "partition_by(k)" } else { "unpartitioned" },
            cfg.kleene_cap,
            cfg.results_cap,
            show_hist(hist, cfg.partitioned)
        )
    };
    let res = mc::catch(|| {
        let mut eng = build(cfg, parts);
        let mut last = Vec::new();
        for (i, s) in hist.iter().enumerate() {
            last = eng.process(&mk(*s, cfg.partitioned, i));
        }
        let _ = eng.stats();
        let x = eng.extended_stats();
        (eng.checkpoint(), last, x.utilization)
    });
    let (cp, last, util) = match res {
        Err(p) => {
            acc.viol.add(format!("C05:{}:panic", cfg.pat.name()), format!("{} | panic at {}: {p}", head(), mc::last_panic_location()), case(), size);
            return None;
        }
        Ok(x) => x,
    };
    let mut limit_reached = false;
    // partial matches per partition
    let mut parts_runs: BTreeMap<String, &Vec<RunCheckpoint>> = BTreeMap::new();
    if cfg.partitioned {
        for (k, v) in &cp.partitioned_runs {
            parts_runs.insert(k.clone(), v);
        }
        if !cp.active_runs.is_empty() {
            parts_runs.insert("<unpartitioned list>".into(), &cp.active_runs);
        }
    } else {
        parts_runs.insert(String::new(), &cp.active_runs);
    }
    for (pk, runs) in &parts_runs {
        if runs.len() > cfg.max_runs {
            acc.viol.add(
                format!("C05:max_runs:{}:{}", cfg.strat.name(), if cfg.partitioned { "partitioned" } else { "unpartitioned" }),
                format!("{} | {} partial matches in partition {:?}, max_runs {}", head(), runs.len(), pk, cfg.max_runs),
                case(),
                size,
            );
        }
        if runs.len() >= cfg.max_runs {
            limit_reached = true;
        }
        for r in runs.iter() {
            let held = kleene_entries(alias, r).max(r.kleene_events.as_ref().map(|k| k.len()).unwrap_or(0));
            if alias.is_some() && held >= cfg.kleene_cap as usize {
                limit_reached = true;
            }
            if held > cfg.kleene_cap as usize {
                acc.viol.add(
                    format!("C05:{}:kleene_events_cap", cfg.pat.name()),
                    format!("{} | a partial match (started at #{}) holds {held} Kleene events, max_kleene_events {}", head(), start_id(r), cfg.kleene_cap),
                    case(),
                    size,
                );
            }
        }
    }
    // matches emitted by the last event, grouped by completion (= start event of the run)
    let mut per_start: BTreeMap<i64, usize> = BTreeMap::new();
    for m in &last {
        *per_start.entry(m.stack.first().map(|s| event_id(&s.event)).unwrap_or(-1)).or_insert(0) += 1;
        if let Some(a) = alias {
            let held = m.stack.iter().filter(|s| s.alias.as_deref() == Some(a)).count();
            if held > cfg.kleene_cap as usize {
                acc.viol.add(
                    format!("C05:{}:kleene_events_cap", cfg.pat.name()),
                    format!("{} | an emitted match holds {held} Kleene events, max_kleene_events {}", head(), cfg.kleene_cap),
                    case(),
                    size,
                );
            }
        }
    }
    for (s, c) in &per_start {
        if *c >= cfg.results_cap {
            limit_reached = true;
        }
        if *c > cfg.results_cap {
            acc.viol.add(
                format!("C05:{}:results_cap", cfg.pat.name()),
                format!("{} | the completion of the run started at #{s} emitted {c} matches, max results {}", head(), cfg.results_cap),
                case(),
                size,
            );
        }
    }
    if !util.is_finite() {
        acc.viol.add(format!("C05:{}:stats_not_finite", cfg.pat.name()), format!("{} | extended_stats().utilization = {util}", head()), case(), size);
    }
    // canonical key
    let mut runs = Vec::new();
    for (pk, rs) in &parts_runs {
        let mut starts: Vec<i64> = rs.iter().map(start_id).collect();
        starts.sort();
        let v: Vec<RunKey> = rs
            .iter()
            .map(|r| (r.current_state, r.stack.len(), r.kleene_events.as_ref().map(|k| k.len() as i64).unwrap_or(-1), starts.iter().position(|s| *s == start_id(r)).unwrap_or(0)))
            .collect();
        runs.push((pk.clone(), v));
    }
    let counters = cfg.strat.is_sample().then_some((cp.total_runs_created, cp.total_runs_dropped));
    Some(Outcome { key: StateKey { runs, counters }, limit_reached })
}

pub fn configs(args: &Args) -> Vec<Config> {
    let max_m = args.tier.pick(4usize, 8usize);
    let mut out = Vec::new();
    for pat in [PatKind::Seq3, PatKind::MiddleAll, PatKind::TrailingAll, PatKind::LeadingAll, PatKind::MiddleAllSelfRef] {
        let kcaps: &[u32] = if pat == PatKind::Seq3 { &[20] } else { &[1, 2, 20] };
        let rcaps: &[usize] = if pat == PatKind::MiddleAllSelfRef { &[1, 3, 10_000] } else { &[10_000] };
        for &kleene_cap in kcaps {
            for &results_cap in rcaps {
                for strat in STRATS {
                    for max_runs in 1..=max_m {
                        for partitioned in [false, true] {
                            out.push(Config { pat, strat, max_runs, partitioned, kleene_cap, results_cap });
                        }
                    }
                }
            }
        }
    }
    out
}

fn load_parts() -> Vec<SaseParts> {
    [PatKind::Seq3, PatKind::MiddleAll, PatKind::TrailingAll, PatKind::LeadingAll, PatKind::MiddleAllSelfRef]
        .iter()
        .map(|p| {
            let ast = varpulis_parser::parse(p.src()).unwrap_or_else(|e| mc::machinery_error(&format!("parse {}: {e}", p.src())));
            sase_parts(&ast).unwrap_or_else(|e| mc::machinery_error(&e))
        })
        .collect()
}

pub fn run(args: &Args) -> ! {
    let mut rep = Report::new(args, "model_checking");
    let parts = load_parts();
    if let Some(path) = &args.replay {
        let v = mc::load_replay(path);
        let cfg: Config = serde_json::from_value(v["config"].clone()).unwrap_or_else(|e| mc::machinery_error(&format!("replay config: {e}")));
        let hist: Vec<usize> = serde_json::from_value(v["history"].clone()).unwrap_or_else(|e| mc::machinery_error(&format!("replay history: {e}")));
        let mut acc = Acc::default();
        acc.evaluations += 1;
        // every prefix, so the first violating event is shown as well
        for l in 1..=hist.len() {
            run_history(&cfg, &parts, &hist[..l], &mut acc);
        }
        rep.absorb(acc);
        rep.finish();
    }
    let deadline = Deadline::after(Duration::from_secs(args.tier.pick(33, 1080)));
    let cfgs = configs(args);
    // determinism gate: the same history twice must give the same canonical key
    {
        let probe = Config { pat: PatKind::MiddleAllSelfRef, strat: Strat::EvictOldest, max_runs: 2, partitioned: true, kleene_cap: 2, results_cap: 3 };
        let h = [0usize, 2, 1, 0, 2, 3, 0, 4, 5];
        let mut a = Acc::default();
        let k1 = run_history(&probe, &parts, &h, &mut a).map(|o| o.key);
        let k2 = run_history(&probe, &parts, &h, &mut a).map(|o| o.key);
        if k1 != k2 || k1.is_none() {
            mc::machinery_error("replaying the same history twice gave different canonical states");
        }
    }
    let (depth_unpart, depth_part) = args.tier.pick((10usize, 7usize), (13usize, 10usize));
    let totals = Mutex::new((0u64, 0u64, 0u64, true)); // states, transitions, max depth reached, all complete
    let (acc, complete) = mc::par_items(&cfgs, args.threads, |cfg, acc| {
        if deadline.expired() {
            return false;
        }
        let n_ops = if cfg.partitioned { 6 } else { 3 };
        let depth = if cfg.partitioned { depth_part } else { depth_unpart };
        let local = Mutex::new(Acc::default());
        let stats = mc::bfs_histories(n_ops, depth, 1, &deadline, |hist: &[usize]| {
            let mut a = local.lock().unwrap();
            a.evaluations += 1;
            let o = run_history(cfg, &parts, hist, &mut a)?;
            if o.limit_reached {
                a.nontrivial += 1;
            }
            a.outcome(&(cfg.pat.index(), cfg.max_runs, &o.key));
            if hist.len() == depth && a.samples.is_empty() && o.limit_reached {
                a.samples.push(json!({"config": cfg, "history": show_hist(hist, cfg.partitioned), "state_reached": format!("{:?}", o.key)}));
            }
            Some(o.key)
        });
        acc.merge(local.into_inner().unwrap());
        let mut t = totals.lock().unwrap();
        t.0 += stats.states;
        t.1 += stats.transitions;
        t.2 = t.2.max(stats.max_depth as u64);
        t.3 &= stats.complete;
        true
    });
    let t = totals.into_inner().unwrap();
    if !complete || !t.3 {
        rep.cap_hit("wall cap reached before the search of every configuration was finished");
    }
    rep.states = t.0;
    rep.transitions = t.1;
    rep.traces = acc.evaluations;
    rep.absorb(acc);
    rep.set("configurations", json!(cfgs.len()));
    rep.set("max_history_length", json!({"unpartitioned": depth_unpart, "partitioned": depth_part}));
    rep.rule = format!(
        "Breadth-first search over event histories on the real SaseEngine, one search per configuration: pattern ∈ {{A→B→C, A→all B→C, A→all B, all A→B, A→all B where id > b.id→C}} (VPL text compiled by the real compiler) × strategy ∈ {{Drop, Error, EvictOldest, EvictLeastProgress, Sample 0 / 0.5 / 1}} × max_runs 1..={} × ± partition_by(k) × max_kleene_events ∈ {{1,2,20}} (Kleene patterns) × max results ∈ {{1,3,10000}} (self-referencing pattern): {} configurations. Alphabet: A,B,C (unpartitioned, history length ≤ {depth_unpart}) or {{A,B,C}}×k∈{{x,y}} (partitioned, length ≤ {depth_part}). A state is the history reaching it; successor = history + one event, replayed on a fresh engine; states are merged by the canonical key read from SaseEngine::checkpoint() (see c05.rs header). evaluations = histories executed (= traces); transitions = successor executions; states = distinct canonical states summed over configurations. Non-trivial = a limit is reached in the state (a partition holds max_runs partial matches, a partial match holds max_kleene_events Kleene events, or a completion emits max-results matches).",
        args.tier.pick(4, 8),
        cfgs.len()
    );
    rep.assume("SaseEngine::checkpoint() (public, read-only) is the observation of the pattern state: per partition the partial matches with their stack and Kleene events");
    rep.assume("state merging is sound because the key holds every field the transition functions read (run order, NFA state, stack length, Kleene count, relative age, and the created/dropped counters for Sample); ages come from Instant::now() at run creation, so age order = creation order = order of start-event ids");
    rep.assume("one completion = the matches of one process() call that share the start event of their run");
    rep.finish()
}
