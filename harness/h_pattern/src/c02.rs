//! C02 — sequence patterns without `all` report exactly the earliest completion of every start event.
//!
//! Oracle: a reference matcher of the semantics the property pins down (per start event, greedy
//! earliest continuation inside the partition, killed by the first event satisfying a `.not` clause).
//! The real `Engine` (parse → load → process per event) is compared with it on every stream of the
//! program's alphabet up to a length bound: the multisets of matches over the whole stream must be
//! equal (the property says nothing about *when* a match is emitted).
//!
//! One-step patterns (`sequence(s0: A …)`): the property quantifies over start events that "have a
//! completion afterwards". With no further step the text admits two readings — the completion is
//! the start event itself (every start event is owed a match), or a completion needs a later
//! event of the partition (which is how the engine behaves: the run sits in the accepting state and
//! is reported when the next event of its partition arrives, unless a `.not` event kills it first).
//! The oracle demands what both readings demand and allows what either allows:
//!   required ⊆ emitted ⊆ allowed, allowed = every start event (once), required = start events
//!   followed by a later event of their partition with no `.not` hit before that event.
//! How often the engine leaves a merely-allowed match unreported is counted in the evidence
//! (`one_step_*`). `--one-step-strict` turns the first reading into the demand (for triage only).

use crate::common::*;
use mc::{Acc, Args, Deadline, Report};
use serde_json::json;
use std::time::Duration;

pub type Match = Vec<usize>;

fn not_hit(p: &Prog, e: &Ev, s0: &Ev) -> bool {
    if e.t != NOT_TYPE {
        return false;
    }
    match p.not {
        NotC::None => false,
        NotC::Plain => true,
        NotC::KEqS0 => matches!((e.key(), s0.key()), (Some(a), Some(b)) if a == b),
    }
}

fn step_ok(p: &Prog, i: usize, e: &Ev, cap: &[usize], st: &[Ev]) -> bool {
    let s = &p.steps[i];
    e.t == s.ty && s.filt.holds(e, s.filt.refers().map(|r| &st[cap[r]]))
}

/// Reference: for every start event, the greedy earliest continuation (None = no completion).
/// Returns (start position, completed match).
pub fn reference(p: &Prog, st: &[Ev]) -> Vec<Match> {
    let mut out = Vec::new();
    for s in 0..st.len() {
        if !step_ok(p, 0, &st[s], &[], st) {
            continue;
        }
        let mut cap = vec![s];
        if p.n() == 1 {
            out.push(cap);
            continue;
        }
        for j in s + 1..st.len() {
            if not_hit(p, &st[j], &st[s]) {
                break;
            }
            if p.part && st[j].key() != st[s].key() {
                continue;
            }
            if step_ok(p, cap.len(), &st[j], &cap, st) {
                cap.push(j);
                if cap.len() == p.n() {
                    out.push(cap);
                    break;
                }
            }
        }
    }
    out
}

#[derive(Clone, Copy, PartialEq, Eq, Debug)]
pub enum OneStep {
    /// a later event of the partition exists and no `.not` hit precedes it
    Required,
    /// no later event of the start event's partition (stream ends first)
    Tail,
    /// a `.not` hit arrives before the next event of the partition
    NotAfterStart,
}

/// Classification of the start events of a one-step program (attributes of the case only).
/// "Event of the partition" = an event the stream listens to (a pattern type, or `N` when the
/// program has a `.not` clause) with the same key when partitioned, any such event otherwise.
pub fn one_step_class(p: &Prog, st: &[Ev], s: usize) -> OneStep {
    for j in s + 1..st.len() {
        let e = &st[j];
        let listened = p.steps.iter().any(|x| x.ty == e.t) || (e.t == NOT_TYPE && p.not != NotC::None);
        if !listened {
            continue;
        }
        if not_hit(p, e, &st[s]) {
            return OneStep::NotAfterStart;
        }
        if !p.part || e.key() == st[s].key() {
            return OneStep::Required;
        }
    }
    OneStep::Tail
}

pub struct Opts {
    pub one_step_strict: bool,
}

fn strict_case(l: &Loaded, st: &[Ev]) -> serde_json::Value {
    let mut c = case_json(l, st);
    c["one_step_strict"] = json!(true);
    c
}

fn diff(exp: &[Match], got: &[Match]) -> (Vec<Match>, Vec<Match>) {
    let (me, mg) = (mc::multiset(exp.iter().cloned()), mc::multiset(got.iter().cloned()));
    let mut missing = Vec::new();
    let mut extra = Vec::new();
    for (m, n) in &me {
        let g = mg.get(m).copied().unwrap_or(0);
        for _ in g..*n {
            missing.push(m.clone());
        }
    }
    for (m, n) in &mg {
        let e = me.get(m).copied().unwrap_or(0);
        for _ in e..*n {
            extra.push(m.clone());
        }
    }
    (missing, extra)
}

/// Run one case on the real engine and judge it. Returns true when the reference expects ≥ 1 match.
pub fn check_case(l: &Loaded, st: &[Ev], opts: &Opts, acc: &mut Acc) -> bool {
    let p = &l.prog;
    acc.evaluations += 1;
    let exp = reference(p, st);
    let size = st.len() * 100 + p.size();
    let res = mc::catch(|| run_engine(&l.ast, p.n(), st));
    let batches = match res {
        Err(panic) => {
            acc.viol.add(format!("C02:{}:panic", p.sig_attrs()), format!("panic at {} while processing {} — {}", mc::last_panic_location(), show_stream(st), panic), case_json(l, st), size);
            return !exp.is_empty();
        }
        Ok(Err(e)) => {
            acc.viol.add(format!("C02:{}:engine_error", p.sig_attrs()), format!("{e} on {}", show_stream(st)), case_json(l, st), size);
            return !exp.is_empty();
        }
        Ok(Ok(b)) => b,
    };
    let got: Vec<Match> = batches
        .iter()
        .flatten()
        .map(|m| m.iter().map(|c| c.as_ref().and_then(|c| c.id).map(|x| x as usize).unwrap_or(usize::MAX)).collect())
        .collect();
    acc.outcome(&got);
    let describe = |what: &str, ms: &[Match]| {
        format!(
            "{} | stream {} | {what} {:?} | reference {:?} | engine {:?}",
            l.text.lines().take_while(|x| !x.contains(".emit")).collect::<Vec<_>>().join(" ").trim(),
            show_stream(st),
            ms,
            exp,
            got
        )
    };
    if p.n() >= 2 {
        let (missing, extra) = diff(&exp, &got);
        if !missing.is_empty() || !extra.is_empty() {
            let shape = match (missing.is_empty(), extra.is_empty()) {
                (false, true) => "missing",
                (true, false) => "extra",
                _ => "missing+extra",
            };
            let what = if missing.is_empty() { "matches not in the reference:" } else { "reference matches not emitted:" };
            let ms = if missing.is_empty() { &extra } else { &missing };
            acc.viol.add(format!("C02:{}:{shape}", p.sig_attrs()), describe(what, ms), case_json(l, st), size);
        }
    } else {
        // one-step programs: required ⊆ emitted ⊆ allowed (see module comment)
        let (missing, extra) = diff(&exp, &got);
        if !extra.is_empty() {
            acc.viol.add(format!("C02:{}:extra", p.sig_attrs()), describe("matches that are no start event, or reported twice:", &extra), case_json(l, st), size);
        }
        let mut hard = Vec::new();
        let mut tail = Vec::new();
        let mut after_not = Vec::new();
        for m in missing {
            match one_step_class(p, st, m[0]) {
                OneStep::Required => hard.push(m),
                OneStep::Tail => tail.push(m),
                OneStep::NotAfterStart => after_not.push(m),
            }
        }
        if !hard.is_empty() {
            acc.viol.add(
                format!("C02:{}:missing", p.sig_attrs()),
                describe("start events followed by a later event of their partition (no .not hit in between) but never reported:", &hard),
                case_json(l, st),
                size,
            );
        }
        // how the engine resolves the don't-care cases (counts only, unless --one-step-strict)
        for s in exp.iter().map(|m| m[0]) {
            match one_step_class(p, st, s) {
                OneStep::Required => {}
                OneStep::Tail => acc.count("one_step_tail_start_events", 1),
                OneStep::NotAfterStart => acc.count("one_step_start_events_with_not_hit_before_next_partition_event", 1),
            }
        }
        if !tail.is_empty() {
            acc.count("one_step_tail_start_events_unreported", tail.len() as u64);
            if opts.one_step_strict {
                acc.viol.add("C02:steps=1:tail", describe("start events with no later event of their partition, never reported:", &tail), strict_case(l, st), size);
            }
        }
        if !after_not.is_empty() {
            acc.count("one_step_start_events_with_not_hit_unreported", after_not.len() as u64);
            if opts.one_step_strict {
                acc.viol.add(
                    "C02:steps=1:not_after_start",
                    describe("start events whose pending report was cancelled by a later .not event:", &after_not),
                    strict_case(l, st),
                    size,
                );
            }
        }
    }
    !exp.is_empty()
}

fn grammar(args: &Args) -> Grammar {
    Grammar {
        max_steps: args.tier.pick(3, 4),
        with_all: false,
        wide: args.tier.pick(false, true),
        limit_from: 4,
        max_filtered: 1,
        limit_all_from: 9,
        max_all: 9,
        seq_twins: true,
    }
}

pub fn self_test() {
    let a = |k, v| Ev { t: 0, k, v };
    let b = |k, v| Ev { t: 1, k, v };
    let n = |k| Ev { t: NOT_TYPE, k, v: 1 };
    let st2 = |f: Filt| vec![Step { ty: 0, all: false, filt: Filt::None }, Step { ty: 1, all: false, filt: f }];
    // A -> B : A0 A1 B2 → both starts complete with B2
    let p = Prog { form: Form::Arrow, steps: st2(Filt::None), part: false, not: NotC::None };
    assert_eq!(reference(&p, &[a(0, 1), a(0, 1), b(0, 1)]), vec![vec![0, 2], vec![1, 2]]);
    // earliest continuation only: A0 B1 B2 → [0,1]
    assert_eq!(reference(&p, &[a(0, 1), b(0, 1), b(0, 1)]), vec![vec![0, 1]]);
    // filter v > s0.v: A(v=2) B(v=1) B(v=3)... values ≤ 3: A(2) B(1) B(3)
    let p = Prog { form: Form::Arrow, steps: st2(Filt::VGtRef(0)), part: false, not: NotC::None };
    assert_eq!(reference(&p, &[a(0, 2), b(0, 1), b(0, 3)]), vec![vec![0, 2]]);
    // partitioned: A(x) B(y) B(x) → [0,2]; missing keys form their own partition
    let p = Prog { form: Form::Arrow, steps: st2(Filt::None), part: true, not: NotC::None };
    assert_eq!(reference(&p, &[a(0, 1), b(1, 1), b(0, 1)]), vec![vec![0, 2]]);
    assert_eq!(reference(&p, &[a(2, 1), b(0, 1), b(2, 1)]), vec![vec![0, 2]]);
    // .not(N): A N B → nothing; N A B → [1,2]
    let p = Prog { form: Form::Arrow, steps: st2(Filt::None), part: false, not: NotC::Plain };
    assert!(reference(&p, &[a(0, 1), n(0), b(0, 1)]).is_empty());
    assert_eq!(reference(&p, &[n(0), a(0, 1), b(0, 1)]), vec![vec![1, 2]]);
    // .not(N where k == s0.k): A(x) N(y) B → match; A(x) N(x) B → none; A(missing) N(missing) B → match
    let p = Prog { form: Form::Arrow, steps: st2(Filt::None), part: false, not: NotC::KEqS0 };
    assert_eq!(reference(&p, &[a(0, 1), n(1), b(0, 1)]), vec![vec![0, 2]]);
    assert!(reference(&p, &[a(0, 1), n(0), b(0, 1)]).is_empty());
    assert_eq!(reference(&p, &[a(2, 1), n(2), b(0, 1)]), vec![vec![0, 2]]);
    // same-type steps A -> A: A0 A1 A2 → [0,1],[1,2]
    let p = Prog {
        form: Form::Arrow,
        steps: vec![Step { ty: 0, all: false, filt: Filt::None }, Step { ty: 0, all: false, filt: Filt::None }],
        part: false,
        not: NotC::None,
    };
    assert_eq!(reference(&p, &[a(0, 1), a(0, 1), a(0, 1)]), vec![vec![0, 1], vec![1, 2]]);
    // one step with filter v > 1
    let p1 = Prog { form: Form::Seq, steps: vec![Step { ty: 0, all: false, filt: Filt::VGt1 }], part: true, not: NotC::Plain };
    let st = [a(0, 2), a(1, 1), n(1), a(0, 2)];
    assert_eq!(reference(&p1, &st), vec![vec![0], vec![3]]);
    assert_eq!(one_step_class(&p1, &st, 0), OneStep::NotAfterStart);
    assert_eq!(one_step_class(&p1, &st, 3), OneStep::Tail);
    assert_eq!(one_step_class(&p1, &[a(0, 2), a(1, 1), a(0, 1)], 0), OneStep::Required);
    assert_eq!(diff(&[vec![0], vec![1]], &[vec![1], vec![1]]), (vec![vec![0]], vec![vec![1]]));
}

pub fn run(args: &Args) -> ! {
    self_test();
    let mut rep = Report::new(args, "exploration");
    let opts = Opts { one_step_strict: args.extra.iter().any(|a| a == "--one-step-strict") };
    if let Some(path) = &args.replay {
        let case = mc::load_replay(path);
        let (prog, stream) = case_from_json(&case).unwrap_or_else(|e| mc::machinery_error(&e));
        let l = load(&prog, true, false).unwrap_or_else(|e| mc::machinery_error(&e));
        let mut acc = Acc::default();
        // a replayed tail / not-after-start case is judged under the reading that produced it
        let strict = opts.one_step_strict || case["one_step_strict"].as_bool().unwrap_or(false);
        check_case(&l, &stream, &Opts { one_step_strict: strict }, &mut acc);
        rep.absorb(acc);
        rep.finish();
    }
    let deadline = Deadline::after(Duration::from_secs(args.tier.pick(33, 1080)));
    let mut progs = programs(&grammar(args));
    if args.tier == mc::Tier::Quick {
        // quick tier: 3-step programs in the sequence(...) form only with the first-step filter `v > 1`
        progs.retain(|p| p.n() < 3 || p.form == Form::Arrow || p.steps[0].filt == Filt::VGt1);
    }
    let (max_len, budget) = args.tier.pick((5, 24_000u64), (7, 120_000u64));
    let float_upto = args.tier.pick(0usize, 2usize);
    let budget = budget_override(args, budget);
    let sweep = prepare(&progs, args.threads, &|p| (p.n() <= 2, p.n() <= float_upto), max_len, 0, budget);
    if args.extra.iter().any(|a| a == "--dry-run") {
        sweep.dry_run(budget);
    }
    let (acc, complete) = mc::par_items(&sweep.units, args.threads, |u, acc| {
        if deadline.expired() {
            return false;
        }
        let l = &sweep.loaded[u.prog];
        let (mut idx, mut st) = (Vec::new(), Vec::new());
        for i in u.lo..u.hi {
            sweep.decode(u.prog, i, &mut idx, &mut st);
            if !sweep.canonical(u.prog, &idx) {
                continue;
            }
            if check_case(l, &st, &opts, acc) {
                acc.nontrivial += 1;
                acc.sample(|| json!({"program": l.text, "stream": show_stream(&st), "reference_matches": reference(&l.prog, &st)}));
            }
        }
        true
    });
    if !complete {
        rep.cap_hit("wall cap reached before every (program, stream) pair was executed");
    }
    rep.absorb(acc);
    rep.set("programs", json!(sweep.loaded.len()));
    rep.set("programs_by_max_stream_length", json!(sweep.len_histogram));
    rep.set("streams_executed_of_index_space", json!([sweep.canonical_streams, sweep.total_streams]));
    rep.assume("the key values x and y are interchangeable (the programs only test keys for equality and partition by them), so one stream of every x↔y pair is executed; likewise step types are enumerated up to renaming");
    rep.set("one_step_reading_strict", json!(opts.one_step_strict));
    rep.rule = format!(
        "Exhaustive over programs × streams. Programs: every sequence program without `all` of 1..={} steps: step types up to renaming over {{A,B,C}}; first-step filter ∈ {{none, v > 1, v == 2}} (sequence(...) form), later-step filter ∈ {{none, v > 1, v == 2, v > <previous alias>.v, k == s0.k{}}}{}; ± .partition_by(k); .not ∈ {{none, N, N where k == s0.k}}; arrow form and sequence(...) form{}. Streams per program: every sequence of length 1..=L over the program's own alphabet (the event types it mentions, N if it has a .not clause, for programs of ≤ 2 steps also one type it does not mention; k ∈ {{x, y, missing}} for types whose key the program reads; v ∈ {{1,2}} ({{1,2,3}} with two value references; thorough tier, programs of ≤ 2 steps: also the float 1.5) for types whose value it reads), L = the largest length ≤ {max_len} (and ≥ steps) whose cumulative count of executed streams is ≤ {budget}; streams are executed up to swapping the key values x and y (only those whose first event carrying a key the program reads carries x) (see programs_by_max_stream_length). Every case is one fresh Engine (parse once per program, load, process per event). Non-trivial = the reference expects at least one match.",
        grammar(args).max_steps,
        if grammar(args).wide { ", v > s0.v, k == <previous alias>.k" } else { "" },
        if grammar(args).max_steps >= 4 { "; 4-step programs carry at most one step filter" } else { "" },
        if args.tier == mc::Tier::Quick { " (quick tier: 3-step programs in the sequence(...) form only with the first-step filter v > 1)" } else { "" },
    );
    rep.assume("matches are compared as multisets over the whole stream; the property does not say when a match is emitted");
    rep.assume("a missing key puts the event into the partition of key-less events; a comparison with a missing operand is false");
    rep.assume("one-step patterns: the text's 'has a completion afterwards' is read as a don't-care for start events that are not followed by another event of their partition, or whose pending report is cancelled by a .not event that arrives first (required ⊆ emitted ⊆ allowed); the engine's choice is counted in one_step_* keys");
    rep.assume(".not events have a type of their own (N); a .not type that is also a step type is outside the alphabet");
    rep.finish()
}
