//! Shared pieces of the pattern-matching checks (C01, C02, C03, C05): the event alphabet, the grammar
//! of VPL sequence programs (always generated as *source text* and parsed by the real parser), the
//! engine driver, and a mirror of the loader that builds a bare `SaseEngine` from the parsed program
//! with the real pattern compiler.

use serde::{Deserialize, Serialize};
use serde_json::json;
use varpulis_core::ast::{Expr, FollowedByClause, Program, Stmt, StreamOp};
use varpulis_core::Value;
use varpulis_runtime::engine::compiler;
use varpulis_runtime::sase::{SaseEngine, SasePattern};
use varpulis_runtime::{Engine, Event};

pub const TYPE_NAMES: [&str; 4] = ["A", "B", "C", "N"];
pub const NOT_TYPE: u8 = 3;
pub const KEY_NAMES: [&str; 2] = ["x", "y"];
pub const K_MISSING: u8 = 2;
/// code of the float value 1.5 in `Ev::v`
pub const V_FLOAT: u8 = 15;
const T0_MS: i64 = 1_700_000_000_000;

/// One input event kind. `t` indexes TYPE_NAMES, `k`: 0 = "x", 1 = "y", 2 = field missing,
/// `v`: the value of field `v`: the integers 1, 2, 3, or the code 15 for the float 1.5.
#[derive(Clone, Copy, Debug, PartialEq, Eq, Hash, PartialOrd, Ord, Serialize, Deserialize)]
pub struct Ev {
    pub t: u8,
    pub k: u8,
    pub v: u8,
}

impl Ev {
    pub fn key(&self) -> Option<u8> {
        (self.k < K_MISSING).then_some(self.k)
    }
    pub fn num(&self) -> f64 {
        if self.v == V_FLOAT {
            1.5
        } else {
            self.v as f64
        }
    }
    pub fn show(&self) -> String {
        let k = if self.k < K_MISSING { KEY_NAMES[self.k as usize] } else { "-" };
        format!("{}(k={},v={})", TYPE_NAMES[self.t as usize], k, self.num())
    }
}

pub fn show_stream(st: &[Ev]) -> String {
    st.iter().enumerate().map(|(i, e)| format!("#{i}:{}", e.show())).collect::<Vec<_>>().join(" ")
}

/// The real event handed to the engine: fixed timestamps `T0 + pos·1s`, `id` = stream position.
pub fn mk_event(e: &Ev, pos: usize) -> Event {
    let ts = chrono::DateTime::from_timestamp_millis(T0_MS + pos as i64 * 1000).unwrap();
    let mut ev = Event::new_at(TYPE_NAMES[e.t as usize], ts);
    ev.data.insert("id".into(), Value::Int(pos as i64));
    if e.k < K_MISSING {
        ev.data.insert("k".into(), Value::str(KEY_NAMES[e.k as usize]));
    }
    ev.data.insert("v".into(), if e.v == V_FLOAT { Value::Float(1.5) } else { Value::Int(e.v as i64) });
    ev
}

// ------------------------------------------------------------------------------------------------
// Program grammar

#[derive(Clone, Copy, Debug, PartialEq, Eq, Hash, Serialize, Deserialize)]
pub enum Filt {
    None,
    /// `v == 2`
    VEq2,
    /// `v > 1`
    VGt1,
    /// `v > <alias of step i>.v`
    VGtRef(usize),
    /// `k == <alias of step i>.k`
    KEqRef(usize),
}

impl Filt {
    pub fn reads_v(&self) -> bool {
        matches!(self, Filt::VEq2 | Filt::VGt1 | Filt::VGtRef(_))
    }
    pub fn refers(&self) -> Option<usize> {
        match self {
            Filt::VGtRef(i) | Filt::KEqRef(i) => Some(*i),
            _ => None,
        }
    }
    pub fn text(&self) -> String {
        match self {
            Filt::None => String::new(),
            Filt::VEq2 => " where v == 2".into(),
            Filt::VGt1 => " where v > 1".into(),
            Filt::VGtRef(i) => format!(" where v > {}.v", alias(*i)),
            Filt::KEqRef(i) => format!(" where k == {}.k", alias(*i)),
        }
    }
    pub fn tag(&self) -> &'static str {
        match self {
            Filt::None => "none",
            Filt::VEq2 | Filt::VGt1 => "const",
            Filt::VGtRef(_) | Filt::KEqRef(_) => "ref",
        }
    }
    /// The independent evaluator of the tiny filter grammar. `refd` = the captured event the alias
    /// reference denotes (None when the filter has no reference). A missing operand makes the
    /// comparison false.
    pub fn holds(&self, e: &Ev, refd: Option<&Ev>) -> bool {
        match self {
            Filt::None => true,
            Filt::VEq2 => e.num() == 2.0,
            Filt::VGt1 => e.num() > 1.0,
            Filt::VGtRef(_) => refd.is_some_and(|r| e.num() > r.num()),
            Filt::KEqRef(_) => match (e.key(), refd.and_then(|r| r.key())) {
                (Some(a), Some(b)) => a == b,
                _ => false,
            },
        }
    }
}

#[derive(Clone, Copy, Debug, PartialEq, Eq, Hash, Serialize, Deserialize)]
pub struct Step {
    pub ty: u8,
    pub all: bool,
    pub filt: Filt,
}

#[derive(Clone, Copy, Debug, PartialEq, Eq, Hash, Serialize, Deserialize)]
pub enum NotC {
    None,
    /// `.not(N)`
    Plain,
    /// `.not(N where k == s0.k)`
    KEqS0,
}

#[derive(Clone, Copy, Debug, PartialEq, Eq, Hash, Serialize, Deserialize)]
pub enum Form {
    /// `A as s0 -> B where … as s1`
    Arrow,
    /// `sequence(s0: A where …, s1: B where …)`
    Seq,
}

#[derive(Clone, Debug, PartialEq, Eq, Hash, Serialize, Deserialize)]
pub struct Prog {
    pub form: Form,
    pub steps: Vec<Step>,
    pub part: bool,
    pub not: NotC,
}

pub fn alias(i: usize) -> String {
    format!("s{i}")
}

impl Prog {
    pub fn n(&self) -> usize {
        self.steps.len()
    }
    pub fn has_all(&self) -> bool {
        self.steps.iter().any(|s| s.all)
    }
    /// VPL source text of the program. `.emit` projects every captured event to the columns
    /// `<alias>_id`, `<alias>_k`, `<alias>_v` (a stream without `.emit` sends nothing to the
    /// output channel).
    pub fn src(&self) -> String {
        let mut s = String::from("stream S = ");
        match self.form {
            Form::Arrow => {
                for (i, st) in self.steps.iter().enumerate() {
                    let ty = TYPE_NAMES[st.ty as usize];
                    let all = if st.all { "all " } else { "" };
                    if i == 0 {
                        s += &format!("{all}{ty} as s0");
                    } else {
                        s += &format!(" -> {all}{ty}{} as {}", st.filt.text(), alias(i));
                    }
                }
            }
            Form::Seq => {
                let parts: Vec<String> = self
                    .steps
                    .iter()
                    .enumerate()
                    .map(|(i, st)| format!("{}: {}{}", alias(i), TYPE_NAMES[st.ty as usize], st.filt.text()))
                    .collect();
                s += &format!("sequence({})", parts.join(", "));
            }
        }
        s += "\n";
        if self.part {
            s += "    .partition_by(k)\n";
        }
        match self.not {
            NotC::None => {}
            NotC::Plain => s += "    .not(N)\n",
            NotC::KEqS0 => s += "    .not(N where k == s0.k)\n",
        }
        let cols: Vec<String> = (0..self.steps.len())
            .map(|i| {
                let a = alias(i);
                format!("{a}_id: {a}.id, {a}_k: {a}.k, {a}_v: {a}.v")
            })
            .collect();
        s += &format!("    .emit({})\n", cols.join(", "));
        s
    }
    /// Is this program expressible? (arrow form: ≥ 2 steps, no first-step filter; sequence form: no
    /// `all`; references only to earlier aliases.)
    pub fn well_formed(&self) -> bool {
        if self.steps.is_empty() {
            return false;
        }
        for (i, st) in self.steps.iter().enumerate() {
            if let Some(r) = st.filt.refers() {
                if r >= i {
                    return false;
                }
            }
        }
        match self.form {
            Form::Arrow => self.steps.len() >= 2 && self.steps[0].filt == Filt::None,
            Form::Seq => !self.has_all(),
        }
    }
    /// Per-program event alphabet, simplest kinds first: the event types the program mentions
    /// (plus `N` when it has a `.not` clause, plus — `with_foreign` — one type it does not
    /// mention); the key field varies over {x, y, missing} only for types whose key the program
    /// reads (partitioning reads every key), the value field over `vals` only for types whose
    /// value the program reads (own filter, or referenced by a later step); `with_float` adds 1.5.
    /// Second component: per symbol, whether it carries a key value (x or y) that the program reads.
    pub fn alphabet(&self, with_foreign: bool, with_float: bool) -> (Vec<Ev>, Vec<bool>) {
        let mut reads_k = [self.part; 4];
        let mut reads_v = [false; 4];
        let mut used = [false; 4];
        let mut vref_count = 0;
        for st in &self.steps {
            used[st.ty as usize] = true;
            if st.filt.reads_v() {
                reads_v[st.ty as usize] = true;
            }
            match st.filt {
                Filt::VGtRef(r) => {
                    reads_v[self.steps[r].ty as usize] = true;
                    vref_count += 1;
                }
                Filt::KEqRef(r) => {
                    reads_k[st.ty as usize] = true;
                    reads_k[self.steps[r].ty as usize] = true;
                }
                _ => {}
            }
        }
        if self.not != NotC::None {
            used[NOT_TYPE as usize] = true;
            if self.not == NotC::KEqS0 {
                reads_k[NOT_TYPE as usize] = true;
                reads_k[self.steps[0].ty as usize] = true;
            }
        }
        let vals: &[u8] = match (vref_count >= 2, with_float) {
            (true, false) => &[1, 2, 3],
            (false, false) => &[1, 2],
            (true, true) => &[1, 2, 3, V_FLOAT],
            (false, true) => &[1, 2, V_FLOAT],
        };
        let mut out = Vec::new();
        let mut keyed = Vec::new();
        let mut foreign_done = !with_foreign;
        for t in 0..4u8 {
            let is_foreign = !used[t as usize] && t != NOT_TYPE && !foreign_done;
            if !used[t as usize] && !is_foreign {
                continue;
            }
            if is_foreign {
                foreign_done = true;
                out.push(Ev { t, k: 0, v: 1 });
                keyed.push(false);
                continue;
            }
            let ks: &[u8] = if reads_k[t as usize] { &[0, 1, 2] } else { &[0] };
            let vs: &[u8] = if reads_v[t as usize] { vals } else { &[1] };
            for &k in ks {
                for &v in vs {
                    out.push(Ev { t, k, v });
                    keyed.push(reads_k[t as usize] && k < K_MISSING);
                }
            }
        }
        (out, keyed)
    }
    pub fn size(&self) -> usize {
        self.steps.len() * 4
            + self.steps.iter().filter(|s| s.filt != Filt::None).count()
            + self.steps.iter().filter(|s| s.all).count()
            + self.part as usize
            + (self.not != NotC::None) as usize
    }
    /// attribute string used in signatures: never depends on observed outputs
    pub fn sig_attrs(&self) -> String {
        let form = match self.form {
            Form::Arrow => "arrow",
            Form::Seq => "seq",
        };
        let filt = if self.steps.iter().any(|s| s.filt.tag() == "ref") {
            "ref"
        } else if self.steps.iter().any(|s| s.filt.tag() == "const") {
            "const"
        } else {
            "none"
        };
        let not = match self.not {
            NotC::None => "none",
            NotC::Plain => "plain",
            NotC::KEqS0 => "pred",
        };
        format!("steps={}:form={form}:filter={filt}:part={}:not={not}", self.n(), if self.part { "yes" } else { "no" })
    }
}

/// Type sequences of length n up to renaming of the types (restricted growth strings over ≤ 3 types).
pub fn type_seqs(n: usize) -> Vec<Vec<u8>> {
    fn rec(n: usize, cur: &mut Vec<u8>, maxused: i32, out: &mut Vec<Vec<u8>>) {
        if cur.len() == n {
            out.push(cur.clone());
            return;
        }
        for t in 0..=((maxused + 1).min(2)) {
            cur.push(t as u8);
            rec(n, cur, maxused.max(t), out);
            cur.pop();
        }
    }
    let mut out = Vec::new();
    rec(n, &mut Vec::new(), -1, &mut out);
    out
}

/// Filters available to step `i` (0-based). `wide` adds references to a non-adjacent alias.
pub fn step_filters(i: usize, wide: bool) -> Vec<Filt> {
    if i == 0 {
        return vec![Filt::None, Filt::VGt1, Filt::VEq2];
    }
    let mut v = vec![Filt::None, Filt::VGt1, Filt::VEq2, Filt::VGtRef(i - 1), Filt::KEqRef(0)];
    if wide && i >= 2 {
        v.push(Filt::VGtRef(0));
        v.push(Filt::KEqRef(i - 1));
    }
    v
}

// ------------------------------------------------------------------------------------------------
// Parsed program + drivers

pub struct Loaded {
    pub prog: Prog,
    pub text: String,
    pub ast: Program,
    pub alphabet: Vec<Ev>,
    /// per alphabet symbol: carries a key value the program reads
    pub keyed: Vec<bool>,
}

pub fn load(prog: &Prog, with_foreign: bool, with_float: bool) -> Result<Loaded, String> {
    let text = prog.src();
    let ast = varpulis_parser::parse(&text).map_err(|e| format!("parse error for generated program: {e}\n{text}"))?;
    let (alphabet, keyed) = prog.alphabet(with_foreign, with_float);
    Ok(Loaded { prog: prog.clone(), text, ast, alphabet, keyed })
}

/// One captured event as seen in the output columns `<alias>_id`, `<alias>_k`, `<alias>_v`.
#[derive(Clone, Debug, PartialEq, Eq, Hash, PartialOrd, Ord)]
pub struct Cap {
    pub id: Option<i64>,
    pub k: Option<String>,
    pub v: Option<i64>,
}

/// One emitted match: per step alias the captured event columns (None = alias absent).
pub type OutMatch = Vec<Option<Cap>>;

fn cap_of(ev: &Event, al: &str) -> Option<Cap> {
    let get = |f: &str| ev.data.get(format!("{al}_{f}").as_str());
    let id = match get("id") {
        Some(Value::Int(x)) => Some(*x),
        _ => None,
    };
    let k = match get("k") {
        Some(Value::Str(s)) => Some(s.to_string()),
        _ => None,
    };
    let v = match get("v") {
        Some(Value::Int(x)) => Some(*x),
        Some(Value::Float(f)) => Some(if *f == 1.5 { V_FLOAT as i64 } else { -1 }),
        _ => None,
    };
    if id.is_none() && k.is_none() && v.is_none() {
        None
    } else {
        Some(Cap { id, k, v })
    }
}

thread_local! {
    static RT: tokio::runtime::Runtime = tokio::runtime::Builder::new_current_thread().build().expect("tokio runtime");
}

/// Drive the real `Engine` (fresh instance, `load`, one `process` per event) and return, per input
/// position, the matches drained from the output channel after that event.
pub fn run_engine(ast: &Program, n_aliases: usize, stream: &[Ev]) -> Result<Vec<Vec<OutMatch>>, String> {
    RT.with(|rt| {
        rt.block_on(async {
            let (tx, mut rx) = tokio::sync::mpsc::channel(4096);
            let mut eng = Engine::new(tx);
            eng.load(ast).map_err(|e| format!("Engine::load: {e}"))?;
            let mut out = Vec::with_capacity(stream.len());
            for (i, e) in stream.iter().enumerate() {
                eng.process(mk_event(e, i)).await.map_err(|e| format!("Engine::process: {e}"))?;
                let mut batch = Vec::new();
                while let Ok(o) = rx.try_recv() {
                    let m: OutMatch = (0..n_aliases).map(|a| cap_of(&o, &alias(a))).collect();
                    batch.push(m);
                }
                out.push(batch);
            }
            Ok(out)
        })
    })
}

/// Raw variant for programs with other alias names: returns the drained output events.
pub fn run_engine_raw(ast: &Program, events: &[Event]) -> Result<Vec<Vec<Event>>, String> {
    RT.with(|rt| {
        rt.block_on(async {
            let (tx, mut rx) = tokio::sync::mpsc::channel(65536);
            let mut eng = Engine::new(tx);
            eng.load(ast).map_err(|e| format!("Engine::load: {e}"))?;
            let mut out = Vec::with_capacity(events.len());
            for e in events {
                eng.process(e.clone()).await.map_err(|e| format!("Engine::process: {e}"))?;
                let mut batch = Vec::new();
                while let Ok(o) = rx.try_recv() {
                    batch.push(o);
                }
                out.push(batch);
            }
            Ok(out)
        })
    })
}

/// What the loader (`engine/mod.rs`, "Detection Mode (SASE)") extracts from a stream declaration.
pub struct SaseParts {
    pub pattern: SasePattern,
    pub partition: Option<String>,
    pub negations: Vec<FollowedByClause>,
}

/// Mirror of the loader: the SASE pattern is produced by the real
/// `compile_to_sase_pattern_with_resolver` from the parsed stream declaration.
pub fn sase_parts(ast: &Program) -> Result<SaseParts, String> {
    for st in &ast.statements {
        if let Stmt::StreamDecl { source, ops, .. } = &st.node {
            let mut fb = Vec::new();
            let mut neg = Vec::new();
            let mut partition = None;
            for op in ops {
                match op {
                    StreamOp::FollowedBy(c) => fb.push(c.clone()),
                    StreamOp::Not(c) => neg.push(c.clone()),
                    StreamOp::PartitionBy(Expr::Ident(f)) => partition = Some(f.clone()),
                    _ => {}
                }
            }
            let pattern = compiler::compile_to_sase_pattern_with_resolver(source, &fb, &neg, None, &|_| None)
                .ok_or_else(|| "compile_to_sase_pattern_with_resolver returned None".to_string())?;
            return Ok(SaseParts { pattern, partition, negations: neg });
        }
    }
    Err("no stream declaration in program".into())
}

pub fn build_sase(parts: &SaseParts) -> SaseEngine {
    let mut eng = SaseEngine::new(parts.pattern.clone());
    if let Some(p) = &parts.partition {
        eng = eng.with_partition_by(p.clone());
    }
    for c in &parts.negations {
        let pred = c.filter.as_ref().and_then(compiler::expr_to_sase_predicate);
        eng.add_negation(c.event_type.clone(), pred);
    }
    eng
}

pub fn event_id(e: &Event) -> i64 {
    match e.data.get("id") {
        Some(Value::Int(x)) => *x,
        _ => -1,
    }
}

pub fn case_json(l: &Loaded, stream: &[Ev]) -> serde_json::Value {
    json!({
        "prog": l.prog,
        "src": l.text,
        "stream": stream,
        "readable": show_stream(stream),
    })
}

pub fn case_from_json(case: &serde_json::Value) -> Result<(Prog, Vec<Ev>), String> {
    let prog: Prog = serde_json::from_value(case["prog"].clone()).map_err(|e| format!("replay case: prog: {e}"))?;
    let stream: Vec<Ev> = serde_json::from_value(case["stream"].clone()).map_err(|e| format!("replay case: stream: {e}"))?;
    Ok((prog, stream))
}

/// Number of streams of length 1..=len over k symbols, u of them without a key the program reads,
/// up to swapping the key values x and y (= streams whose first keyed symbol carries x).
pub fn canonical_streams(k: usize, u: usize, len: usize) -> u64 {
    (1..=len as u32).map(|l| (mc::pow(k as u64, l) + mc::pow(u as u64, l)) / 2).sum()
}

/// Largest L ≤ max_len with canonical_streams(k, u, L) ≤ budget (at least `min_len`).
pub fn length_for_budget(k: usize, u: usize, min_len: usize, max_len: usize, budget: u64) -> usize {
    let mut l = min_len;
    while l < max_len {
        if canonical_streams(k, u, l + 1) > budget {
            break;
        }
        l += 1;
    }
    l
}

/// A unit of work: a program index and a range of stream indices of its `SeqSpace`.
#[derive(Clone, Copy, Debug)]
pub struct Unit {
    pub prog: usize,
    pub lo: u64,
    pub hi: u64,
}

/// `--budget N` (development aid; the evidence states the budget in force)
pub fn budget_override(args: &mc::Args, default: u64) -> u64 {
    match args.extra.iter().position(|a| a == "--budget") {
        Some(i) => args.extra.get(i + 1).and_then(|s| s.parse().ok()).unwrap_or_else(|| mc::machinery_error("--budget needs a number")),
        None => default,
    }
}

pub fn split_units(prog: usize, total: u64, chunk: u64, out: &mut Vec<Unit>) {
    let mut lo = 0;
    while lo < total {
        let hi = (lo + chunk).min(total);
        out.push(Unit { prog, lo, hi });
        lo = hi;
    }
}

// ------------------------------------------------------------------------------------------------
// Program enumeration and the (program × stream) sweep shared by C01 and C02

pub struct Grammar {
    pub max_steps: usize,
    /// enumerate the `all` flag of every step (arrow form only)
    pub with_all: bool,
    /// references to non-adjacent aliases for steps ≥ 3
    pub wide: bool,
    /// programs of ≥ `limit_from` steps carry at most `max_filtered` step filters
    pub limit_from: usize,
    pub max_filtered: usize,
    /// programs of ≥ `limit_all_from` steps carry at most `max_all` steps marked `all`
    pub limit_all_from: usize,
    pub max_all: usize,
    /// also emit the `sequence(...)` form of programs whose first step has no filter (they compile
    /// to the same pattern as the arrow form; covers the other parser path)
    pub seq_twins: bool,
}

/// All programs of the grammar, simplest first.
pub fn programs(g: &Grammar) -> Vec<Prog> {
    let mut out = Vec::new();
    for n in 1..=g.max_steps {
        for types in type_seqs(n) {
            let per_step: Vec<Vec<Filt>> = (0..n).map(|i| step_filters(i, g.wide)).collect();
            let combos: u64 = per_step.iter().map(|v| v.len() as u64).product();
            for ci in 0..combos {
                let mut c = ci;
                let mut filts = Vec::with_capacity(n);
                for v in &per_step {
                    filts.push(v[(c % v.len() as u64) as usize]);
                    c /= v.len() as u64;
                }
                let filtered = filts.iter().filter(|f| **f != Filt::None).count();
                if n >= g.limit_from && filtered > g.max_filtered {
                    continue;
                }
                for part in [false, true] {
                    for not in [NotC::None, NotC::Plain, NotC::KEqS0] {
                        let mk = |form: Form, mask: u32| Prog {
                            form,
                            steps: (0..n).map(|i| Step { ty: types[i], all: mask >> i & 1 == 1, filt: filts[i] }).collect(),
                            part,
                            not,
                        };
                        if filts[0] == Filt::None && n >= 2 {
                            let masks = if g.with_all { 1u32 << n } else { 1 };
                            for mask in 0..masks {
                                if n >= g.limit_all_from && (mask as u32).count_ones() as usize > g.max_all {
                                    continue;
                                }
                                out.push(mk(Form::Arrow, mask));
                            }
                            if g.seq_twins {
                                out.push(mk(Form::Seq, 0));
                            }
                        } else {
                            out.push(mk(Form::Seq, 0));
                        }
                    }
                }
            }
        }
    }
    debug_assert!(out.iter().all(|p| p.well_formed()));
    out.sort_by_key(|p| p.size());
    out
}

pub struct Sweep {
    pub loaded: Vec<Loaded>,
    pub spaces: Vec<mc::SeqSpace>,
    pub units: Vec<Unit>,
    /// streams in the enumerated index space / streams executed (canonical up to x↔y)
    pub total_streams: u64,
    pub canonical_streams: u64,
    /// number of programs per maximum stream length
    pub len_histogram: std::collections::BTreeMap<usize, u64>,
}

/// Parse every program (in parallel; the parser runs each parse on a thread of its own) and cut the
/// (program × stream) space into work units. Stream lengths per program: 1..=L(p) with L(p) the
/// largest length ≤ `max_len` whose cumulative count of executed streams stays within `budget`
/// (never below `steps + slack_min`, capped by `max_len`). Executed = canonical up to swapping the key
/// values x and y: only streams whose first keyed symbol carries x are run.
pub fn prepare(progs: &[Prog], threads: usize, extras: &(dyn Fn(&Prog) -> (bool, bool) + Sync), max_len: usize, slack_min: usize, budget: u64) -> Sweep {
    let slots: Vec<std::sync::Mutex<Option<Result<Loaded, String>>>> = progs.iter().map(|_| std::sync::Mutex::new(None)).collect();
    mc::par_indices(progs.len() as u64, threads, 4, |i, _| {
        let (with_foreign, with_float) = extras(&progs[i as usize]);
        *slots[i as usize].lock().unwrap() = Some(load(&progs[i as usize], with_foreign, with_float));
        true
    });
    let mut loaded = Vec::with_capacity(progs.len());
    for s in slots {
        match s.into_inner().unwrap() {
            Some(Ok(l)) => loaded.push(l),
            Some(Err(e)) => mc::machinery_error(&e),
            None => mc::machinery_error("program not parsed"),
        }
    }
    let mut spaces = Vec::with_capacity(loaded.len());
    let mut units = Vec::new();
    let mut total = 0;
    let mut canon = 0;
    let mut hist = std::collections::BTreeMap::new();
    for (pi, l) in loaded.iter().enumerate() {
        let k = l.alphabet.len();
        let u = l.keyed.iter().filter(|x| !**x).count();
        let min_len = (l.prog.n() + slack_min).min(max_len);
        let len = length_for_budget(k, u, min_len, max_len, budget);
        let sp = mc::SeqSpace::new(k, 1, len);
        total += sp.total();
        canon += canonical_streams(k, u, len);
        *hist.entry(len).or_insert(0) += 1;
        split_units(pi, sp.total(), 8192, &mut units);
        spaces.push(sp);
    }
    Sweep { loaded, spaces, units, total_streams: total, canonical_streams: canon, len_histogram: hist }
}

impl Sweep {
    pub fn decode(&self, prog: usize, i: u64, idx: &mut Vec<usize>, out: &mut Vec<Ev>) {
        self.spaces[prog].decode(i, idx);
        out.clear();
        out.extend(idx.iter().map(|&a| self.loaded[prog].alphabet[a]));
    }
    /// canonical up to x↔y: the first symbol carrying a key the program reads carries x
    pub fn canonical(&self, prog: usize, idx: &[usize]) -> bool {
        let l = &self.loaded[prog];
        match idx.iter().find(|a| l.keyed[**a]) {
            Some(a) => l.alphabet[*a].k == 0,
            None => true,
        }
    }
    pub fn dry_run(&self, budget: u64) -> ! {
        println!("programs={} streams_in_index_space={} streams_executed={} budget_per_program={} programs_by_max_stream_length={:?}", self.loaded.len(), self.total_streams, self.canonical_streams, budget, self.len_histogram);
        mc::machinery_error("--dry-run: space printed, nothing executed")
    }
}
