//! C03 — Kleene closures report every admissible combination, up to the configured caps.
//!
//! Drives: the VPL programs `A as a -> all B <P> as b -> C as c` and `A as a -> all B <P> as b` are
//! parsed by the real parser, compiled by the real `compile_to_sase_pattern_with_resolver`, and run
//! (a) in a bare `SaseEngine` with every cap setting and (b) in the full `Engine` (default caps).
//! Oracle: brute force over the index subsets of the B events.
//!
//! What a `MatchResult` shows: `stack` holds the A event, *every* accumulated B event and the C event
//! (`rebuild_stack_with_combination` ignores the combination), `captured["b"]` holds the last B of the
//! combination behind that match. So per match only the last member of its combination is visible.
//! Pairwise distinctness of the emitted combinations is therefore established indirectly:
//! the public `KleeneCapture` (same `extend` calls, same ZDD code) is iterated in the harness, its
//! combinations must be pairwise distinct and be exactly all subsets, and the sequence of last-B ids
//! the engine emits must be the admissible ones of that iteration, in that order.

use crate::common::{event_id, run_engine_raw, sase_parts, SaseParts};
use mc::{Acc, Args, Deadline, Report};
use serde::{Deserialize, Serialize};
use serde_json::json;
use std::collections::BTreeSet;
use std::sync::Arc;
use std::time::Duration;
use varpulis_core::Value;
use varpulis_runtime::sase::{KleeneCapture, SaseEngine};
use varpulis_runtime::Event;

#[derive(Clone, Copy, Debug, PartialEq, Eq, Serialize, Deserialize)]
pub enum Pred {
    None,
    /// `v > 1` — consistent (does not mention b)
    Const,
    /// `v <op> b.v` — self-referencing
    SelfRef(Op),
}
#[derive(Clone, Copy, Debug, PartialEq, Eq, Serialize, Deserialize)]
pub enum Op {
    Gt,
    Ge,
    Ne,
    Lt,
    Eq,
}
impl Op {
    fn text(self) -> &'static str {
        match self {
            Op::Gt => ">",
            Op::Ge => ">=",
            Op::Ne => "!=",
            Op::Lt => "<",
            Op::Eq => "==",
        }
    }
    /// cur <op> prev
    fn holds(self, cur: i64, prev: i64) -> bool {
        match self {
            Op::Gt => cur > prev,
            Op::Ge => cur >= prev,
            Op::Ne => cur != prev,
            Op::Lt => cur < prev,
            Op::Eq => cur == prev,
        }
    }
}
impl Pred {
    fn text(self) -> String {
        match self {
            Pred::None => String::new(),
            Pred::Const => " where v > 1".into(),
            Pred::SelfRef(op) => format!(" where v {} b.v", op.text()),
        }
    }
    fn class(self) -> &'static str {
        match self {
            Pred::None => "none",
            Pred::Const => "consistent",
            Pred::SelfRef(_) => "selfref",
        }
    }
    /// eager qualification of a single B event
    fn qualifies(self, v: i64) -> bool {
        match self {
            Pred::Const => v > 1,
            _ => true,
        }
    }
}

#[derive(Clone, Copy, Debug, PartialEq, Eq, Serialize, Deserialize)]
pub struct PatSpec {
    pub trailing: bool,
    pub pred: Pred,
}
impl PatSpec {
    pub fn src(&self) -> String {
        if self.trailing {
            format!("stream S = A as a -> all B{} as b\n    .emit(a: a.id, b: b.id)\n", self.pred.text())
        } else {
            format!("stream S = A as a -> all B{} as b -> C as c\n    .emit(a: a.id, b: b.id, c: c.id)\n", self.pred.text())
        }
    }
    fn pos(&self) -> &'static str {
        if self.trailing {
            "trailing_all"
        } else {
            "middle_all"
        }
    }
    fn sig(&self, clause: &str) -> String {
        format!("C03:{}:{clause}:{}", self.pos(), self.pred.class())
    }
}

pub struct Pat {
    pub spec: PatSpec,
    pub text: String,
    pub ast: varpulis_core::ast::Program,
    pub parts: SaseParts,
}

pub fn load_pat(spec: PatSpec) -> Pat {
    let text = spec.src();
    let ast = varpulis_parser::parse(&text).unwrap_or_else(|e| mc::machinery_error(&format!("parse {text}: {e}")));
    let parts = sase_parts(&ast).unwrap_or_else(|e| mc::machinery_error(&e));
    Pat { spec, text, ast, parts }
}

const T0_MS: i64 = 1_700_000_000_000;
fn ev(ty: &str, id: i64, v: i64) -> Event {
    let mut e = Event::new_at(ty, chrono::DateTime::from_timestamp_millis(T0_MS + id * 1000).unwrap());
    e.data.insert("id".into(), Value::Int(id));
    e.data.insert("v".into(), Value::Int(v));
    e
}

/// all non-empty index subsets (ascending) of 0..m whose consecutive members satisfy `op`
pub fn admissible(vals: &[i64], pred: Pred) -> Vec<Vec<usize>> {
    let m = vals.len();
    let mut out = Vec::new();
    for mask in 1u32..(1u32 << m) {
        let idx: Vec<usize> = (0..m).filter(|i| mask >> i & 1 == 1).collect();
        let ok = match pred {
            Pred::SelfRef(op) => idx.windows(2).all(|w| op.holds(vals[w[1]], vals[w[0]])),
            _ => true,
        };
        if ok {
            out.push(idx);
        }
    }
    out
}

fn show_vals(vals: &[i64]) -> String {
    format!("A#0 {}{}", vals.iter().enumerate().map(|(i, v)| format!("B#{}(v={v})", i + 1)).collect::<Vec<_>>().join(" "), "")
}

#[derive(Serialize, Deserialize, Clone, Debug)]
pub struct Case {
    pub spec: PatSpec,
    pub vals: Vec<i64>,
    /// None = full Engine with default caps
    pub caps: Option<(u32, usize)>,
}

fn case_json(c: &Case, text: &str) -> serde_json::Value {
    json!({"case": c, "src": text, "stream": format!("{}{}", show_vals(&c.vals), if c.spec.trailing { "" } else { " C" })})
}

/// ids of the stack entries carrying alias `b`
fn stack_b_ids(m: &varpulis_runtime::sase::MatchResult) -> Vec<i64> {
    m.stack.iter().filter(|s| s.alias.as_deref() == Some("b")).map(|s| event_id(&s.event)).collect()
}

/// Display adaptor that builds its text only when a description is actually formatted.
struct Lazy<F: Fn() -> String>(F);
impl<F: Fn() -> String> std::fmt::Display for Lazy<F> {
    fn fmt(&self, f: &mut std::fmt::Formatter<'_>) -> std::fmt::Result {
        f.write_str(&(self.0)())
    }
}

thread_local! {
    /// smallest case size already recorded per signature by this worker thread
    static SEEN: std::cell::RefCell<std::collections::HashMap<String, usize>> = std::cell::RefCell::new(Default::default());
}

/// Record a violation; the description and the replay case are only built when this case is
/// smaller than what this worker already holds for the signature (the known trailing-`all`
/// findings fail millions of cases; every one is still counted).
fn lazy_viol(acc: &mut Acc, sig: String, size: usize, mk: impl FnOnce() -> (String, serde_json::Value)) {
    let build = SEEN.with(|m| {
        let mut m = m.borrow_mut();
        match m.get(&sig) {
            Some(s) if *s <= size => false,
            _ => {
                m.insert(sig.clone(), size);
                true
            }
        }
    });
    if build {
        let (desc, case) = mk();
        acc.viol.add(sig, desc, case, size);
    } else {
        acc.viol.push(mc::Violation { sig, desc: String::new(), case: serde_json::Value::Null, size: usize::MAX });
    }
}

struct Counters {
    nontrivial: bool,
}

/// SaseEngine level, one cap setting.
fn check_sase(pat: &Pat, vals: &[i64], ecap: u32, rcap: usize, acc: &mut Acc) -> Counters {
    let spec = pat.spec;
    let n = vals.len();
    let case = Case { spec, vals: vals.to_vec(), caps: Some((ecap, rcap)) };
    let size = n * 10 + (ecap as usize).min(9);
    acc.evaluations += 1;
    let head = Lazy(|| format!("{} | caps(events={ecap}, results={rcap}) | {}", pat.text.lines().next().unwrap_or(""), show_vals(vals)));
    let run = mc::catch(|| {
        let mut eng: SaseEngine = SaseEngine::new(pat.parts.pattern.clone()).with_max_kleene_events(ecap).with_max_enumeration_results(rcap);
        let mut per_event = Vec::with_capacity(n + 2);
        per_event.push(eng.process(&ev("A", 0, 0)));
        for (i, v) in vals.iter().enumerate() {
            per_event.push(eng.process(&ev("B", i as i64 + 1, *v)));
        }
        if !spec.trailing {
            per_event.push(eng.process(&ev("C", n as i64 + 1, 0)));
        }
        per_event
    });
    let per_event = match run {
        Err(p) => {
            lazy_viol(acc, spec.sig("panic"), size, || (format!("{head} | panic at {}: {p}", mc::last_panic_location()), case_json(&case, &pat.text)));
            return Counters { nontrivial: false };
        }
        Ok(r) => r,
    };
    let last_ids = |ms: &[varpulis_runtime::sase::MatchResult]| -> Vec<i64> { ms.iter().map(|m| m.captured.get("b").map(|e| event_id(e)).unwrap_or(-1)).collect() };
    acc.outcome(&per_event.iter().map(|ms| last_ids(ms)).collect::<Vec<_>>());
    let mut nontrivial = false;
    // nothing may be emitted before the closure can complete
    if !per_event[0].is_empty() {
        lazy_viol(acc, spec.sig("match_count"), size, || (format!("{head} | {} matches emitted at the A event", per_event[0].len()), case_json(&case, &pat.text)));
    }
    // qualifying B events (1-based ids) and the ones kept under the events cap
    let qual: Vec<usize> = (0..n).filter(|i| spec.pred.qualifies(vals[*i])).collect();
    let kept: Vec<usize> = qual.iter().copied().take(ecap as usize).collect();
    if (ecap as usize) < qual.len() {
        nontrivial = true;
    }
    if !spec.trailing {
        for (i, ms) in per_event.iter().enumerate().take(n + 1).skip(1) {
            if !ms.is_empty() {
                lazy_viol(acc, spec.sig("match_count"), size, || (format!("{head} | {} matches emitted at B#{i}, before the C event", ms.len()), case_json(&case, &pat.text)));
            }
        }
        let ms = &per_event[n + 1];
        let kept_ids: Vec<i64> = kept.iter().map(|i| *i as i64 + 1).collect();
        // caps on what a match holds
        for m in ms {
            let b = stack_b_ids(m);
            if b.len() > ecap as usize {
                lazy_viol(acc, spec.sig("events_cap"), size, || (format!("{head} | a match holds {} B events {:?}, cap {ecap}", b.len(), b), case_json(&case, &pat.text)));
            }
        }
        if ms.len() > rcap.max(1) && matches!(spec.pred, Pred::SelfRef(_)) {
            lazy_viol(acc, spec.sig("results_cap"), size, || (format!("{head} | {} matches emitted at the completion, cap {rcap}", ms.len()), case_json(&case, &pat.text)));
        }
        match spec.pred {
            Pred::None | Pred::Const => {
                let want = if kept.is_empty() { 0 } else { 1 };
                if ms.len() != want {
                    lazy_viol(acc, spec.sig("match_count"), size, || (format!("{head} | {} matches at the C event, the property demands {want} (one match with all accumulated B events)", ms.len()), case_json(&case, &pat.text)));
                } else if want == 1 {
                    let b = stack_b_ids(&ms[0]);
                    let whole: Vec<i64> = ms[0].stack.iter().map(|s| event_id(&s.event)).collect();
                    let mut want_stack = vec![0i64];
                    want_stack.extend(&kept_ids);
                    want_stack.push(n as i64 + 1);
                    if b != kept_ids || whole != want_stack {
                        lazy_viol(acc, spec.sig("stack_contents"), size, || (format!("{head} | the match holds events {whole:?} (B: {b:?}); all accumulated B events are {kept_ids:?}"), case_json(&case, &pat.text)));
                    }
                }
            }
            Pred::SelfRef(_) => {
                let kv: Vec<i64> = kept.iter().map(|i| vals[*i]).collect();
                let adm = admissible(&kv, spec.pred);
                if adm.len() >= 2 || rcap < adm.len() {
                    nontrivial = true;
                }
                let want = adm.len().min(rcap);
                let got = last_ids(ms);
                let ref_last: Vec<i64> = adm.iter().map(|s| kept[*s.last().unwrap()] as i64 + 1).collect();
                if got.len() != want {
                    lazy_viol(acc, spec.sig("match_count"), size, || (format!("{head} | {} matches at the C event (last B of each: {got:?}); admissible combinations: {}, results cap {rcap} → {want} demanded", got.len(), adm.len()), case_json(&case, &pat.text)));
                } else {
                    let (mg, mr) = (mc::multiset(got.iter().copied()), mc::multiset(ref_last.iter().copied()));
                    let within = mg.iter().all(|(k, c)| mr.get(k).copied().unwrap_or(0) >= *c);
                    let exact = want < adm.len() || mg == mr;
                    if !within || !exact {
                        lazy_viol(acc, spec.sig("last_events"), size, || (format!("{head} | the last B events of the emitted matches are {got:?}; those of the admissible combinations are {ref_last:?}"), case_json(&case, &pat.text)));
                    } else {
                        // identity of the combinations: bind the emission to KleeneCapture::iter_combinations
                        match kc_filtered_last_ids(&kept, vals, spec.pred) {
                            Err(why) => {
                                lazy_viol(acc, spec.sig("kleene_capture_combinations"), size, || (format!("{head} | KleeneCapture::iter_combinations: {why}"), case_json(&case, &pat.text)));
                            }
                            Ok(seq) => {
                                let seq: Vec<i64> = seq.into_iter().take(rcap).collect();
                                if seq == got {
                                    acc.count("cases_with_combination_identity_established", 1);
                                } else {
                                    acc.count("cases_with_combination_identity_unobserved", 1);
                                }
                            }
                        }
                    }
                }
            }
        }
    } else {
        // trailing `all`: every qualifying B arrival is a completion
        // judged up to the first B that fails a consistent filter (the text is silent about what such
        // an event does to an open run)
        let upto = (0..n).find(|i| !spec.pred.qualifies(vals[*i])).unwrap_or(n);
        if upto < n {
            let later: usize = per_event[upto + 1..].iter().map(|m| m.len()).sum();
            acc.count("trailing_all_streams_with_a_B_failing_the_filter", 1);
            if !per_event[upto + 1].is_empty() {
                acc.count("trailing_all_failing_B_reemits_a_match", 1);
            }
            let later_qual = (upto + 1..n).filter(|i| spec.pred.qualifies(vals[*i])).count();
            if later_qual > 0 && later == per_event[upto + 1].len() {
                acc.count("trailing_all_no_match_after_a_failing_B_although_B_events_qualify", 1);
            }
        }
        for j in 1..=upto {
            let ms = &per_event[j];
            for m in ms {
                let b = stack_b_ids(m);
                if b.len() > ecap as usize {
                    lazy_viol(acc, spec.sig("events_cap"), size, || (format!("{head} | at B#{j} a match holds {} B events {:?}, cap {ecap}", b.len(), b), case_json(&case, &pat.text)));
                }
            }
            if j > ecap as usize {
                continue; // beyond the cap nothing more is demanded than the bound above
            }
            match spec.pred {
                Pred::None | Pred::Const => {
                    let want_b: Vec<i64> = (1..=j as i64).collect();
                    if ms.len() != 1 {
                        lazy_viol(acc, spec.sig("match_count"), size, || (format!("{head} | {} matches at B#{j}, the property demands one match with all accumulated B events", ms.len()), case_json(&case, &pat.text)));
                    } else if stack_b_ids(&ms[0]) != want_b {
                        lazy_viol(acc, spec.sig("stack_contents"), size, || (format!("{head} | the match at B#{j} holds B events {:?}; accumulated: {want_b:?}", stack_b_ids(&ms[0])), case_json(&case, &pat.text)));
                    }
                }
                Pred::SelfRef(_) => {
                    let adm = admissible(&vals[..j], spec.pred);
                    let ending = adm.iter().filter(|s| *s.last().unwrap() == j - 1).count();
                    if ending >= 2 {
                        nontrivial = true;
                    }
                    let (lo, hi) = (ending.min(rcap), adm.len().min(rcap));
                    if ms.len() > rcap {
                        lazy_viol(acc, spec.sig("results_cap"), size, || (format!("{head} | {} matches at B#{j}, cap {rcap}", ms.len()), case_json(&case, &pat.text)));
                    }
                    if ms.len() < lo {
                        lazy_viol(acc, spec.sig("missing_combinations"), size, || (format!("{head} | at the completion B#{j} the engine emits {} match(es); {ending} admissible combinations end at B#{j} (e.g. {:?}), {} exist in all, results cap {rcap} → at least {lo} demanded", ms.len(), adm.iter().filter(|s| *s.last().unwrap() == j - 1).last().map(|s| s.iter().map(|i| i + 1).collect::<Vec<_>>()), adm.len()), case_json(&case, &pat.text)));
                    } else if ms.len() > hi {
                        lazy_viol(acc, spec.sig("match_count"), size, || (format!("{head} | {} matches at B#{j}, only {} admissible combinations exist", ms.len(), adm.len()), case_json(&case, &pat.text)));
                    }
                }
            }
        }
    }
    Counters { nontrivial }
}

/// Build a `KleeneCapture` the way `advance_run_shared` does for the kept events, check that its
/// combinations are pairwise distinct ascending index sets and exactly all subsets, and return the
/// last-B ids of the non-empty admissible ones in iteration order.
fn kc_filtered_last_ids(kept: &[usize], vals: &[i64], pred: Pred) -> Result<Vec<i64>, String> {
    let mut kc = KleeneCapture::new();
    for i in kept {
        kc.extend(Arc::new(ev("B", *i as i64 + 1, vals[*i])), Some("b".into()));
    }
    let mut seen = BTreeSet::new();
    let mut seq = Vec::new();
    for combo in kc.iter_combinations() {
        let ids: Vec<i64> = combo.iter().map(|s| event_id(&s.event)).collect();
        if !ids.windows(2).all(|w| w[0] < w[1]) {
            return Err(format!("combination {ids:?} is not in arrival order"));
        }
        if !seen.insert(ids.clone()) {
            return Err(format!("combination {ids:?} yielded twice"));
        }
        if ids.is_empty() {
            continue;
        }
        let ok = match pred {
            Pred::SelfRef(op) => ids.windows(2).all(|w| op.holds(vals[w[1] as usize - 1], vals[w[0] as usize - 1])),
            _ => true,
        };
        if ok {
            seq.push(*ids.last().unwrap());
        }
    }
    if seen.len() != 1usize << kept.len() {
        return Err(format!("{} combinations for {} events, 2^n = {} expected", seen.len(), kept.len(), 1usize << kept.len()));
    }
    Ok(seq)
}

/// Full Engine (default caps: 20 events, 10 000 results): outputs per input event.
fn check_engine(pat: &Pat, vals: &[i64], acc: &mut Acc) -> bool {
    let spec = pat.spec;
    let n = vals.len();
    let case = Case { spec, vals: vals.to_vec(), caps: None };
    let size = n * 10;
    acc.evaluations += 1;
    let head = Lazy(|| format!("{} | Engine, default caps | {}", pat.text.lines().next().unwrap_or(""), show_vals(vals)));
    let mut events = vec![ev("A", 0, 0)];
    events.extend(vals.iter().enumerate().map(|(i, v)| ev("B", i as i64 + 1, *v)));
    if !spec.trailing {
        events.push(ev("C", n as i64 + 1, 0));
    }
    let out = match mc::catch(|| run_engine_raw(&pat.ast, &events)) {
        Err(p) => {
            lazy_viol(acc, spec.sig("panic"), size, || (format!("{head} | panic at {}: {p}", mc::last_panic_location()), case_json(&case, &pat.text)));
            return false;
        }
        Ok(Err(e)) => mc::machinery_error(&format!("{head}: {e}")),
        Ok(Ok(o)) => o,
    };
    let b_ids = |batch: &[Event]| -> Vec<i64> {
        batch
            .iter()
            .map(|o| match o.data.get("b") {
                Some(Value::Int(x)) => *x,
                _ => -1,
            })
            .collect()
    };
    acc.outcome(&out.iter().map(|b| b_ids(b)).collect::<Vec<_>>());
    let mut nontrivial = false;
    if !spec.trailing {
        let early: usize = out[..n + 1].iter().map(|b| b.len()).sum();
        if early > 0 {
            lazy_viol(acc, spec.sig("engine_output"), size, || (format!("{head} | {early} outputs before the C event"), case_json(&case, &pat.text)));
        }
        let got = b_ids(&out[n + 1]);
        let qual: Vec<usize> = (0..n).filter(|i| spec.pred.qualifies(vals[*i])).collect();
        let want: Vec<i64> = match spec.pred {
            Pred::None | Pred::Const => qual.last().map(|i| vec![*i as i64 + 1]).unwrap_or_default(),
            Pred::SelfRef(_) => {
                let adm = admissible(vals, spec.pred);
                nontrivial = adm.len() >= 2;
                adm.iter().map(|s| *s.last().unwrap() as i64 + 1).collect()
            }
        };
        if mc::multiset(got.iter().copied()) != mc::multiset(want.iter().copied()) {
            lazy_viol(acc, spec.sig("engine_output"), size, || (format!("{head} | the outputs at the C event carry b = {got:?}; the admissible combinations end at {want:?}"), case_json(&case, &pat.text)));
        }
    } else {
        let upto = (0..n).find(|i| !spec.pred.qualifies(vals[*i])).unwrap_or(n);
        for j in 1..=upto {
            let got = b_ids(&out[j]);
            match spec.pred {
                Pred::None | Pred::Const => {
                    if got != vec![j as i64] {
                        lazy_viol(acc, spec.sig("engine_output"), size, || (format!("{head} | outputs at B#{j} carry b = {got:?}; one match ending at B#{j} demanded"), case_json(&case, &pat.text)));
                    }
                }
                Pred::SelfRef(_) => {
                    let adm = admissible(&vals[..j], spec.pred);
                    let ending = adm.iter().filter(|s| *s.last().unwrap() == j - 1).count();
                    nontrivial |= ending >= 2;
                    if got.len() < ending {
                        lazy_viol(acc, spec.sig("missing_combinations"), size, || (format!("{head} | {} output(s) at the completion B#{j}; {ending} admissible combinations end at B#{j}", got.len()), case_json(&case, &pat.text)));
                    } else if got.len() > adm.len() {
                        lazy_viol(acc, spec.sig("engine_output"), size, || (format!("{head} | {} outputs at B#{j}, only {} admissible combinations exist", got.len(), adm.len()), case_json(&case, &pat.text)));
                    }
                }
            }
        }
    }
    nontrivial
}

fn event_caps(n: usize) -> Vec<u32> {
    let mut s = BTreeSet::new();
    for c in [1i64, 2, n as i64 - 1, n as i64, n as i64 + 1] {
        if c >= 1 {
            s.insert(c as u32);
        }
    }
    s.into_iter().collect()
}

fn result_caps(n: usize, count: usize) -> Vec<usize> {
    let mut s = BTreeSet::new();
    for c in [1i64, 2, 3, count as i64 - 1, count as i64, 1i64 << n] {
        if c >= 1 {
            s.insert(c as usize);
        }
    }
    s.into_iter().collect()
}

/// every cap setting for one (pattern, stream)
fn check_all_caps(pat: &Pat, vals: &[i64], acc: &mut Acc) {
    let n = vals.len();
    for ecap in event_caps(n) {
        let rcaps = match pat.spec.pred {
            Pred::SelfRef(_) => {
                let kept: Vec<i64> = vals.iter().copied().take(ecap as usize).collect();
                let cnt = admissible(&kept, pat.spec.pred).len();
                result_caps(n, cnt)
            }
            _ => vec![1, 1usize << n],
        };
        for rcap in rcaps {
            if check_sase(pat, vals, ecap, rcap, acc).nontrivial {
                acc.nontrivial += 1;
            }
        }
    }
}

pub fn structured(n: usize) -> Vec<(&'static str, Vec<i64>)> {
    let n_ = n as i64;
    vec![
        ("constant", vec![2; n]),
        ("increasing", (1..=n_).collect()),
        ("decreasing", (1..=n_).rev().collect()),
        ("sawtooth", (0..n_).map(|i| 1 + i % 2).collect()),
        ("single_peak", (0..n_).map(|i| if i <= n_ / 2 { i + 1 } else { n_ - i }).collect()),
    ]
}

fn decode_vals(mut code: u64, n: usize) -> Vec<i64> {
    let mut v = Vec::with_capacity(n);
    for _ in 0..n {
        v.push((code % 3) as i64 + 1);
        code /= 3;
    }
    v
}

pub fn self_test() {
    // v > b.v over values 1,2,1: subsets {0},{1},{2},{0,1} admissible; {1,2},{0,2},{0,1,2} not
    let adm = admissible(&[1, 2, 1], Pred::SelfRef(Op::Gt));
    assert_eq!(adm, vec![vec![0], vec![1], vec![0, 1], vec![2]]);
    // v >= b.v over constant values: all 7
    assert_eq!(admissible(&[2, 2, 2], Pred::SelfRef(Op::Ge)).len(), 7);
    // v != b.v over 1,1: {0},{1}
    assert_eq!(admissible(&[1, 1], Pred::SelfRef(Op::Ne)).len(), 2);
    assert_eq!(admissible(&[3, 1], Pred::None).len(), 3);
    assert_eq!(event_caps(1), vec![1, 2]);
    assert_eq!(event_caps(4), vec![1, 2, 3, 4, 5]);
    assert_eq!(result_caps(3, 4), vec![1, 2, 3, 4, 8]);
    assert_eq!(decode_vals(5, 2), vec![3, 2]);
    let seq = kc_filtered_last_ids(&[0, 1, 2], &[1, 2, 1], Pred::SelfRef(Op::Gt)).expect("KleeneCapture self-test");
    assert_eq!(mc::multiset(seq), mc::multiset(vec![1, 2, 2, 3]));
}

pub fn run(args: &Args) -> ! {
    self_test();
    let mut rep = Report::new(args, "exploration");
    if let Some(path) = &args.replay {
        let v = mc::load_replay(path);
        let c: Case = serde_json::from_value(v["case"].clone()).unwrap_or_else(|e| mc::machinery_error(&format!("replay case: {e}")));
        let pat = load_pat(c.spec);
        let mut acc = Acc::default();
        match c.caps {
            Some((e, r)) => {
                check_sase(&pat, &c.vals, e, r, &mut acc);
            }
            None => {
                check_engine(&pat, &c.vals, &mut acc);
            }
        }
        rep.absorb(acc);
        rep.finish();
    }
    let deadline = Deadline::after(Duration::from_secs(args.tier.pick(33, 1080)));
    let preds = [Pred::None, Pred::Const, Pred::SelfRef(Op::Gt), Pred::SelfRef(Op::Ge), Pred::SelfRef(Op::Ne), Pred::SelfRef(Op::Lt), Pred::SelfRef(Op::Eq)];
    let mut pats = Vec::new();
    for trailing in [false, true] {
        for pred in preds {
            pats.push(load_pat(PatSpec { trailing, pred }));
        }
    }
    let n_max = args.tier.pick(7usize, 9usize);
    let n_engine = args.tier.pick(6usize, 7usize);
    let n_struct = args.tier.pick(12usize, 14usize);
    // units: (pattern, n, code range); longest streams first for load balance, violations keep the smallest
    #[derive(Clone, Copy)]
    struct U {
        pat: usize,
        n: usize,
        lo: u64,
        hi: u64,
    }
    let mut units = Vec::new();
    for n in (1..=n_max).rev() {
        let total = mc::pow(3, n as u32);
        let chunk = args.tier.pick(243u64, 81u64).min(total);
        for pat in 0..pats.len() {
            let mut lo = 0;
            while lo < total {
                units.push(U { pat, n, lo, hi: (lo + chunk).min(total) });
                lo += chunk;
            }
        }
    }
    let (acc, complete) = mc::par_items(&units, args.threads, |u, acc| {
        if deadline.expired() {
            return false;
        }
        let pat = &pats[u.pat];
        for code in u.lo..u.hi {
            let vals = decode_vals(code, u.n);
            check_all_caps(pat, &vals, acc);
            if u.n <= n_engine && check_engine(pat, &vals, acc) {
                acc.nontrivial += 1;
            }
            if code == u.hi - 1 && u.n == n_max {
                acc.sample(|| json!({"program": pat.text, "stream": format!("{}{}", show_vals(&vals), if pat.spec.trailing { "" } else { " C" }), "event_caps": event_caps(u.n), "admissible_combinations": admissible(&vals, pat.spec.pred).len()}));
            }
        }
        true
    });
    if !complete {
        rep.cap_hit("wall cap reached during the exhaustive value sweep");
    }
    rep.absorb(acc);
    // structured families up to n_struct B events
    let mut fam_units = Vec::new();
    for n in (n_max + 1..=n_struct).rev() {
        for pat in 0..pats.len() {
            for f in 0..5usize {
                fam_units.push((pat, n, f));
            }
        }
    }
    let (acc, complete) = mc::par_items(&fam_units, args.threads, |(pi, n, f), acc| {
        if deadline.expired() {
            return false;
        }
        let (_, vals) = structured(*n).swap_remove(*f);
        check_all_caps(&pats[*pi], &vals, acc);
        true
    });
    if !complete {
        rep.cap_hit("wall cap reached during the structured families");
    }
    rep.absorb(acc);
    rep.set("patterns", json!(pats.len()));
    rep.set("max_B_events_exhaustive", json!(n_max));
    rep.set("max_B_events_structured", json!(n_struct));
    rep.rule = format!(
        "Exhaustive. Programs: `A as a -> all B <P> as b -> C as c` and the variant ending in the `all` step, P ∈ {{none, v > 1 (consistent), v > b.v, v >= b.v, v != b.v, v < b.v, v == b.v (self-referencing)}} — 14 programs, parsed and compiled by the real code. Streams: A, then n B events with every value vector over {{1,2,3}}^n for n = 1..={n_max}, then C (no C for the trailing variant); plus the families constant / increasing / decreasing / sawtooth / single peak for n = {}..={n_struct}. Caps, per stream: max Kleene events ∈ {{1, 2, n−1, n, n+1}} × max results ∈ {{1, 2, 3, count−1, count, 2^n}} (count = admissible combinations of that stream under that events cap; {{1, 2^n}} for filters that do not mention b), each on a fresh SaseEngine; for n ≤ {n_engine} also the full Engine with default caps. evaluations = executions. Non-trivial = at least two admissible combinations (ending at one completion, for the trailing variant), or a cap that binds.",
        n_max + 1
    );
    rep.assume("a MatchResult exposes only the last B of its combination (stack holds every accumulated B); identity/distinctness of combinations is established through the public KleeneCapture (same ZDD code, same extend calls): its iteration yields pairwise distinct ascending subsets, exactly 2^n of them, and the engine's sequence of last-B ids equals the admissible ones of that iteration in order (cases_with_combination_identity_established / _unobserved)");
    rep.assume("under an events cap the property only bounds how many B events are kept; the oracle expects the first `cap` qualifying events, which is what 'all accumulated B events' means for the engine's accumulation order");
    rep.assume("when the results cap binds, any `cap` distinct admissible combinations are accepted");
    rep.assume("trailing `all`: every qualifying B arrival is a completion; with a self-referencing filter at least the admissible combinations ending at that B (the new ones) and at most all admissible combinations of the B events so far are demanded; a B that fails a consistent filter, or a foreign event, while the run is open is outside the property text — such streams are judged up to that event (engine behaviour there is counted in trailing_all_* keys)");
    rep.finish()
}
