//! h_pattern — C01, C02, C03, C05 (pattern matching: sase.rs, engine/compiler.rs, engine/pipeline.rs).

mod c01;
mod c02;
mod c03;
mod c05;
mod common;

fn main() {
    let args = mc::parse_args();
    mc::quiet_panics();
    match args.prop.as_str() {
        "C01" => c01::run(&args),
        "C02" => c02::run(&args),
        "C03" => c03::run(&args),
        "C05" => c05::run(&args),
        other => mc::machinery_error(&format!("h_pattern serves C01, C02, C03, C05 (got {other})")),
    }
}
