//! C06 (ZDD set-family algebra) and C07 (canonicity, reducedness, GC) — see DESIGN.md §3.
//!
//! Reference model: a family over a universe of n ≤ 5 variables is a bit set over the 2^n subsets
//! (bit s set ⇔ the subset with element mask s is a member). Union/intersection/difference are
//! `|`, `&`, `& !`; extend-with-optional and product are the obvious loops. Nothing else is trusted.

use mc::{Acc, Args, Deadline, Report, Tier};
use serde_json::json;
use std::collections::BTreeSet;
use std::time::Duration;
use varpulis_zdd::{SharedArena, Zdd, ZddArena, ZddHandle, ZddRef};

type Fam = u32; // bit set over subsets (n ≤ 5 → 32 subsets)

fn members(f: Fam) -> impl Iterator<Item = u32> {
    (0..32u32).filter(move |s| f >> s & 1 == 1)
}
fn elems(s: u32) -> Vec<u32> {
    (0..5u32).filter(|v| s >> v & 1 == 1).collect()
}
fn fam_str(f: Fam) -> String {
    let v: Vec<String> = members(f).map(|s| format!("{:?}", elems(s))).collect();
    format!("{{{}}}", v.join(","))
}
fn ref_pwo(f: Fam, v: u32) -> Fam {
    let mut o = f;
    for s in members(f) {
        o |= 1 << (s | (1 << v));
    }
    o
}
fn ref_product(f: Fam, g: Fam) -> Fam {
    let mut o = 0;
    for a in members(f) {
        for b in members(g) {
            o |= 1 << (a | b);
        }
    }
    o
}

fn build_arena(a: &mut ZddArena, f: Fam) -> ZddHandle {
    let mut h = a.empty();
    for s in members(f) {
        let x = a.from_set(&elems(s));
        h = a.union(h, x);
    }
    h
}
fn build_zdd(f: Fam) -> Zdd {
    let mut z = Zdd::empty();
    for s in members(f) {
        z = z.union(&Zdd::from_set(&elems(s)));
    }
    z
}
/// family denoted by an arena handle, via iteration; Err on a malformed iteration
/// (duplicate member, member not ascending, element outside the universe)
fn arena_fam(a: &ZddArena, h: ZddHandle) -> Result<Fam, String> {
    let mut f: Fam = 0;
    for set in a.iter(h) {
        if !set.windows(2).all(|w| w[0] < w[1]) {
            return Err(format!("member {set:?} not in strictly ascending element order"));
        }
        let mut s = 0u32;
        for v in &set {
            if *v >= 5 {
                return Err(format!("element {v} outside universe"));
            }
            s |= 1 << v;
        }
        if f >> s & 1 == 1 {
            return Err(format!("member {set:?} yielded twice"));
        }
        f |= 1 << s;
    }
    Ok(f)
}
fn zdd_fam(z: &Zdd) -> Result<Fam, String> {
    let mut f: Fam = 0;
    for set in z.iter() {
        if !set.windows(2).all(|w| w[0] < w[1]) {
            return Err(format!("member {set:?} not ascending"));
        }
        let mut s = 0u32;
        for v in &set {
            s |= 1 << v;
        }
        if f >> s & 1 == 1 {
            return Err(format!("member {set:?} yielded twice"));
        }
        f |= 1 << s;
    }
    Ok(f)
}

/// Full observation of an arena handle against the expected family over `n` variables.
fn check_arena(a: &mut ZddArena, h: ZddHandle, exp: Fam, n: u32) -> Result<(), String> {
    let got = arena_fam(a, h)?;
    if got != exp {
        return Err(format!("iter gives {} expected {}", fam_str(got), fam_str(exp)));
    }
    let c = a.count(h);
    if c != exp.count_ones() as usize {
        return Err(format!("count {} expected {}", c, exp.count_ones()));
    }
    if a.count_uncached(h) != exp.count_ones() as usize {
        return Err("count_uncached wrong".into());
    }
    for s in 0..(1u32 << n) {
        let e = elems(s);
        let want = exp >> s & 1 == 1;
        if a.contains(h, &e) != want || a.contains_sorted(h, &e) != want {
            return Err(format!("contains({e:?}) != {want}"));
        }
        let mut rev = e.clone();
        rev.reverse();
        if a.contains(h, &rev) != want {
            return Err(format!("contains({rev:?}) (unsorted) != {want}"));
        }
    }
    Ok(())
}
fn check_zdd(z: &Zdd, exp: Fam, n: u32) -> Result<(), String> {
    let got = zdd_fam(z)?;
    if got != exp {
        return Err(format!("iter gives {} expected {}", fam_str(got), fam_str(exp)));
    }
    if z.count() != exp.count_ones() as usize {
        return Err(format!("count {} expected {}", z.count(), exp.count_ones()));
    }
    for s in 0..(1u32 << n) {
        let e = elems(s);
        if z.contains(&e) != (exp >> s & 1 == 1) {
            return Err(format!("contains({e:?}) wrong"));
        }
    }
    Ok(())
}

/// C07 (ii): every stored node reduced (hi != Empty) and ordered (var < var(child)).
fn check_nodes(a: &ZddArena) -> Result<(), String> {
    let nodes = a.verif_nodes();
    let var_of = |r: ZddRef| -> Option<u32> { r.node_id().map(|id| nodes[id as usize].1) };
    let mut seen = BTreeSet::new();
    for (id, var, lo, hi) in &nodes {
        if hi.is_empty() {
            return Err(format!("node {id} (var {var}) has an empty include-branch"));
        }
        for c in [lo, hi] {
            if let Some(cv) = var_of(*c) {
                if cv <= *var {
                    return Err(format!("node {id}: var {var} not below child var {cv}"));
                }
            }
        }
        if !seen.insert((*var, format!("{lo:?}"), format!("{hi:?}"))) {
            return Err(format!("node {id} duplicates another stored node (var {var})"));
        }
    }
    Ok(())
}

#[derive(Clone, Copy, Debug, PartialEq, Eq)]
enum BinOp {
    Union,
    Inter,
    Diff,
}
const BINOPS: [BinOp; 3] = [BinOp::Union, BinOp::Inter, BinOp::Diff];
impl BinOp {
    fn name(self) -> &'static str {
        match self {
            BinOp::Union => "union",
            BinOp::Inter => "intersection",
            BinOp::Diff => "difference",
        }
    }
    fn reference(self, a: Fam, b: Fam) -> Fam {
        match self {
            BinOp::Union => a | b,
            BinOp::Inter => a & b,
            BinOp::Diff => a & !b,
        }
    }
    fn arena(self, ar: &mut ZddArena, a: ZddHandle, b: ZddHandle) -> ZddHandle {
        match self {
            BinOp::Union => ar.union(a, b),
            BinOp::Inter => ar.intersection(a, b),
            BinOp::Diff => ar.difference(a, b),
        }
    }
    fn zdd(self, a: &Zdd, b: &Zdd) -> Zdd {
        match self {
            BinOp::Union => a.union(b),
            BinOp::Inter => a.intersection(b),
            BinOp::Diff => a.difference(b),
        }
    }
    fn shared(self, ar: &SharedArena, a: ZddHandle, b: ZddHandle) -> ZddHandle {
        match self {
            BinOp::Union => ar.union(a, b),
            BinOp::Inter => ar.intersection(a, b),
            BinOp::Diff => ar.difference(a, b),
        }
    }
}

struct Ctx {
    c06: bool,
    c07: bool,
}

fn viol(acc: &mut Acc, prop: &str, comp: &str, shape: &str, desc: String, case: serde_json::Value, size: usize) {
    acc.viol.add(format!("{prop}:{comp}:{shape}"), desc, case, size);
}

// ---------------------------------------------------------------------------------------------
// Phase 1: one warm arena holding every family over `n` variables, all ordered pairs, then GC.

fn phase_warm_pairs(ctx: &Ctx, n: u32, fams: &[Fam], acc: &mut Acc, gc_passes: &[(usize, usize)]) {
    let mut arena = ZddArena::new();
    let mut handles: Vec<ZddHandle> = fams.iter().map(|f| build_arena(&mut arena, *f)).collect();
    for (i, f) in fams.iter().enumerate() {
        acc.evaluations += 1;
        if let Err(e) = check_arena(&mut arena, handles[i], *f, n) {
            viol(acc, "C06", "arena", "build_from_sets", format!("family {} built by from_set+union: {e}", fam_str(*f)), json!({"kind":"build","n":n,"fam":f}), f.count_ones() as usize);
        }
    }
    let index_of = |f: Fam| fams.binary_search(&f).ok();
    let pass = |arena: &mut ZddArena, handles: &[ZddHandle], live: &[usize], acc: &mut Acc, after_gc: bool| {
        for &i in live {
            for &j in live {
                for op in BINOPS {
                    acc.evaluations += 1;
                    let exp = op.reference(fams[i], fams[j]);
                    if exp != 0 && exp != fams[i] && exp != fams[j] {
                        acc.nontrivial += 1;
                    }
                    let h = op.arena(arena, handles[i], handles[j]);
                    let size = (fams[i].count_ones() + fams[j].count_ones()) as usize;
                    let case = json!({"kind":"arena_pair","n":n,"op":op.name(),"a":fams[i],"b":fams[j],"after_gc":after_gc});
                    if ctx.c06 {
                        if let Err(e) = check_arena(arena, h, exp, n) {
                            let shape = if after_gc { format!("{}_after_gc", op.name()) } else { op.name().to_string() };
                            viol(acc, "C06", "arena", &shape, format!("arena {} of {} and {}: {e}", op.name(), fam_str(fams[i]), fam_str(fams[j])), case.clone(), size);
                        }
                    }
                    if ctx.c07 && after_gc {
                        if let Err(e) = check_arena(arena, h, exp, n) {
                            viol(acc, "C07", "gc", "later_operation_wrong", format!("after gc, {} of the surviving handles of {} and {}: {e}", op.name(), fam_str(fams[i]), fam_str(fams[j])), case.clone(), size);
                        }
                    }
                    if ctx.c07 {
                        // canonicity: the result must be the very handle of the same family built from sets
                        let got = arena_fam(arena, h).unwrap_or(u32::MAX);
                        if got == exp {
                            if let Some(k) = index_of(exp) {
                                if live.contains(&k) && handles[k] != h {
                                    viol(acc, "C07", "canonicity", op.name(), format!("{} of {} and {} denotes {} but its root differs from the stored handle of that family", op.name(), fam_str(fams[i]), fam_str(fams[j]), fam_str(exp)), case, size);
                                }
                            }
                        }
                    }
                }
            }
        }
    };
    let all: Vec<usize> = (0..fams.len()).collect();
    pass(&mut arena, &handles, &all, acc, false);
    if ctx.c07 {
        acc.evaluations += 1;
        if let Err(e) = check_nodes(&arena) {
            viol(acc, "C07", "reduced", "warm_arena", e, json!({"kind":"warm_nodes","n":n}), 0);
        }
    }
    // GC passes: keep the families whose index ≡ r (mod m); the others die.
    for &(m, r) in gc_passes {
        let keep: Vec<usize> = (0..fams.len()).filter(|i| i % m == r).collect();
        let live: Vec<ZddHandle> = keep.iter().map(|i| handles[*i]).collect();
        let (stats, newh) = arena.gc(&live);
        acc.count("gc_calls", 1);
        acc.evaluations += 1;
        let case = json!({"kind":"warm_gc","n":n,"keep_mod":m,"keep_rem":r});
        if newh.len() != keep.len() {
            viol(acc, "C07", "gc", "handle_count", format!("gc returned {} handles for {} live", newh.len(), keep.len()), case.clone(), 0);
            return;
        }
        if stats.nodes_after > stats.nodes_before {
            viol(acc, "C07", "gc", "grew", format!("gc grew the table {} -> {}", stats.nodes_before, stats.nodes_after), case.clone(), 0);
        }
        for (k, i) in keep.iter().enumerate() {
            handles[*i] = newh[k];
        }
        for (k, i) in keep.iter().enumerate() {
            acc.evaluations += 1;
            if let Err(e) = check_arena(&mut arena, newh[k], fams[*i], n) {
                viol(acc, "C07", "gc", "live_family_changed", format!("after gc(keep idx%{m}=={r}) the handle of {}: {e}", fam_str(fams[*i])), case.clone(), fams[*i].count_ones() as usize);
            }
        }
        if let Err(e) = check_nodes(&arena) {
            viol(acc, "C07", "reduced", "after_gc", e, case.clone(), 0);
        }
        // operations on the survivors must still be right (caches were keyed by old node ids)
        pass(&mut arena, &handles, &keep, acc, true);
        // dead families are rebuilt so the next pass sees every family again
        for i in 0..fams.len() {
            if !keep.contains(&i) {
                handles[i] = build_arena(&mut arena, fams[i]);
            }
        }
    }
}

// standalone + shared-arena pairs for one (i,j)
fn standalone_pair(n: u32, fa: Fam, fb: Fam, acc: &mut Acc) {
    let (za, zb) = (build_zdd(fa), build_zdd(fb));
    let size = (fa.count_ones() + fb.count_ones()) as usize;
    for op in BINOPS {
        acc.evaluations += 1;
        let exp = op.reference(fa, fb);
        if exp != 0 && exp != fa && exp != fb {
            acc.nontrivial += 1;
        }
        let z = op.zdd(&za, &zb);
        if let Err(e) = check_zdd(&z, exp, n) {
            viol(acc, "C06", "zdd", op.name(), format!("Zdd {} of {} and {}: {e}", op.name(), fam_str(fa), fam_str(fb)), json!({"kind":"zdd_pair","n":n,"op":op.name(),"a":fa,"b":fb}), size);
        }
    }
    acc.evaluations += 1;
    let exp = ref_product(fa, fb);
    if let Err(e) = check_zdd(&za.product(&zb), exp, n) {
        viol(acc, "C06", "zdd", "product", format!("Zdd product of {} and {}: {e}", fam_str(fa), fam_str(fb)), json!({"kind":"zdd_product","n":n,"a":fa,"b":fb}), size);
    }
}

fn unary_checks(n: u32, f: Fam, arena: &mut ZddArena, acc: &mut Acc) {
    let size = f.count_ones() as usize;
    let h = build_arena(arena, f);
    acc.evaluations += 1;
    if f.count_ones() >= 2 {
        acc.nontrivial += 1;
    }
    if let Err(e) = check_arena(arena, h, f, n) {
        viol(acc, "C06", "arena", "build_from_sets", format!("family {}: {e}", fam_str(f)), json!({"kind":"build","n":n,"fam":f}), size);
    }
    let z = build_zdd(f);
    if let Err(e) = check_zdd(&z, f, n) {
        viol(acc, "C06", "zdd", "build_from_sets", format!("family {}: {e}", fam_str(f)), json!({"kind":"zdd_build","n":n,"fam":f}), size);
    }
    for v in 0..=n.min(4) {
        acc.evaluations += 2;
        let exp = ref_pwo(f, v);
        let nn = n.max(v + 1);
        let hp = arena.product_with_optional(h, v);
        if let Err(e) = check_arena(arena, hp, exp, nn) {
            viol(acc, "C06", "arena", "product_with_optional", format!("arena extend {} with optional {v}: {e}", fam_str(f)), json!({"kind":"arena_pwo","n":n,"fam":f,"var":v}), size);
        }
        if let Err(e) = check_zdd(&z.product_with_optional(v), exp, nn) {
            viol(acc, "C06", "zdd", "product_with_optional", format!("Zdd extend {} with optional {v}: {e}", fam_str(f)), json!({"kind":"zdd_pwo","n":n,"fam":f,"var":v}), size);
        }
    }
}

fn small_families(n: u32, max_members: u32) -> Vec<Fam> {
    let subsets = 1u32 << n;
    let mut out = Vec::new();
    // all bit sets over `subsets` bits with popcount ≤ max_members
    fn rec(start: u32, subsets: u32, left: u32, cur: Fam, out: &mut Vec<Fam>) {
        out.push(cur);
        if left == 0 {
            return;
        }
        for s in start..subsets {
            rec(s + 1, subsets, left - 1, cur | (1 << s), out);
        }
    }
    rec(0, subsets, max_members, 0, &mut out);
    out.sort();
    out.dedup();
    out
}

// ---------------------------------------------------------------------------------------------
// Phase 3: operation histories over registers (C07 and C06 "operation sequences incl. gc").

#[derive(Clone, Copy, Debug)]
enum Op {
    Set(usize, u32),
    Bin(BinOp, usize, usize),
    Pwo(usize, u32),
    Gc(u32),
    GcCaches,
}
const NREG: usize = 3;
fn op_alphabet(n: u32) -> Vec<Op> {
    let mut v = Vec::new();
    let sets: &[u32] = if n >= 5 { &[0b0, 0b1, 0b110, 0b1001, 0b10000] } else { &[0b0, 0b1, 0b110, 0b1001] };
    for r in 0..NREG {
        for s in sets {
            v.push(Op::Set(r, *s));
        }
    }
    for op in BINOPS {
        for a in 0..NREG {
            for b in 0..NREG {
                v.push(Op::Bin(op, a, b));
            }
        }
    }
    let vars: &[u32] = if n >= 5 { &[0, 2, 4] } else { &[0, 2, 3] };
    for r in 0..NREG {
        for x in vars {
            v.push(Op::Pwo(r, *x));
        }
    }
    for m in 0..(1u32 << NREG) {
        v.push(Op::Gc(m));
    }
    v.push(Op::GcCaches);
    v
}
fn op_json(o: &Op) -> serde_json::Value {
    match o {
        Op::Set(r, s) => json!(format!("r{r} = from_set({:?})", elems(*s))),
        Op::Bin(op, a, b) => json!(format!("r{a} = {}(r{a}, r{b})", op.name())),
        Op::Pwo(r, v) => json!(format!("r{r} = product_with_optional(r{r}, {v})")),
        Op::Gc(m) => json!(format!("gc(keep registers {:?})", mc::bits(*m, NREG))),
        Op::GcCaches => json!("gc_caches_only()"),
    }
}

/// Replay one history on a fresh arena; returns the register valuation reached (reference model),
/// reporting every discrepancy between the arena and the model at the end of the history.
fn run_history(ctx: &Ctx, n: u32, alphabet: &[Op], hist: &[usize], acc: &mut Acc) -> [Fam; NREG] {
    let mut arena = ZddArena::new();
    let mut regs = [arena.empty(); NREG];
    let mut model = [0 as Fam; NREG];
    let ops: Vec<&Op> = hist.iter().map(|i| &alphabet[*i]).collect();
    let case = || json!({"kind":"history","n":n,"ops":hist,"readable":hist.iter().map(|i| op_json(&alphabet[*i])).collect::<Vec<_>>()});
    let last_kind = ops.last().map(|o| match o {
        Op::Set(..) => "from_set".to_string(),
        Op::Bin(op, ..) => op.name().to_string(),
        Op::Pwo(..) => "product_with_optional".to_string(),
        Op::Gc(..) => "gc".to_string(),
        Op::GcCaches => "gc_caches_only".to_string(),
    });
    let had_gc = ops.iter().any(|o| matches!(o, Op::Gc(_) | Op::GcCaches));
    for o in &ops {
        match **o {
            Op::Set(r, s) => {
                regs[r] = arena.from_set(&elems(s));
                model[r] = 1 << s;
            }
            Op::Bin(op, a, b) => {
                regs[a] = op.arena(&mut arena, regs[a], regs[b]);
                model[a] = op.reference(model[a], model[b]);
            }
            Op::Pwo(r, v) => {
                regs[r] = arena.product_with_optional(regs[r], v);
                model[r] = ref_pwo(model[r], v);
            }
            Op::Gc(mask) => {
                let keep = mc::bits(mask, NREG);
                let live: Vec<ZddHandle> = keep.iter().map(|r| regs[*r]).collect();
                let (_, newh) = arena.gc(&live);
                if newh.len() != live.len() {
                    viol(acc, "C07", "gc", "handle_count", "gc returned a different number of handles".into(), case(), hist.len());
                    return model;
                }
                for r in 0..NREG {
                    match keep.iter().position(|k| *k == r) {
                        Some(k) => regs[r] = newh[k],
                        None => {
                            regs[r] = arena.empty();
                            model[r] = 0;
                        }
                    }
                }
            }
            Op::GcCaches => {
                arena.gc_caches_only();
            }
        }
    }
    acc.evaluations += 1;
    let lk = last_kind.unwrap_or_else(|| "init".into());
    let shape = if had_gc && lk != "gc" { format!("{lk}_in_history_with_gc") } else { lk.clone() };
    for r in 0..NREG {
        if let Err(e) = check_arena(&mut arena, regs[r], model[r], n) {
            let (p, comp) = if lk.starts_with("gc") { ("C07", "gc") } else { ("C06", "arena_history") };
            if (p == "C06" && ctx.c06) || (p == "C07" && ctx.c07) || (had_gc && ctx.c07) {
                let p = if p == "C06" && !ctx.c06 { "C07" } else { p };
                let comp = if p == "C07" && comp == "arena_history" { "gc" } else { comp };
                let shape = if p == "C07" && comp == "gc" && !lk.starts_with("gc") { "later_operation_wrong".to_string() } else if p == "C07" { "live_family_changed".to_string() } else { shape.clone() };
                viol(acc, p, comp, &shape, format!("register r{r} after the history: {e}"), case(), hist.len());
            }
        }
    }
    if ctx.c07 {
        for a in 0..NREG {
            for b in (a + 1)..NREG {
                if model[a] == model[b] && arena_fam(&arena, regs[a]).ok() == Some(model[a]) && arena_fam(&arena, regs[b]).ok() == Some(model[b]) && regs[a] != regs[b] {
                    viol(acc, "C07", "canonicity", &lk, format!("r{a} and r{b} both denote {} but have different roots", fam_str(model[a])), case(), hist.len());
                }
            }
            // a fresh build of the same family in the same arena must hit the same root
            if arena_fam(&arena, regs[a]).ok() == Some(model[a]) {
                let fresh = build_arena(&mut arena, model[a]);
                if fresh != regs[a] {
                    viol(acc, "C07", "canonicity", &format!("{lk}_vs_rebuild"), format!("r{a} denotes {} but a from_set/union rebuild has another root", fam_str(model[a])), case(), hist.len());
                }
            }
        }
        if let Err(e) = check_nodes(&arena) {
            viol(acc, "C07", "reduced", &lk, e, case(), hist.len());
        }
    }
    model
}

fn main() {
    let args: Args = mc::parse_args();
    let ctx = Ctx { c06: args.prop == "C06", c07: args.prop == "C07" };
    if !ctx.c06 && !ctx.c07 {
        mc::machinery_error("h_zdd serves C06 and C07");
    }
    let level = if ctx.c07 { "model_checking" } else { "exploration" };
    let mut rep = Report::new(&args, level);
    let deadline = Deadline::after(Duration::from_secs(args.tier.pick(50, 1100)));
    self_test();

    if let Some(path) = &args.replay {
        let case = mc::load_replay(path);
        let mut acc = Acc::default();
        replay(&ctx, &case, &mut acc);
        rep.absorb(acc);
        rep.evaluations = rep.evaluations.max(1);
        rep.finish();
    }

    // ---- Phase 1: warm arena, all families over 3 variables, all ordered pairs, then GC passes.
    let fams3: Vec<Fam> = (0..256u32).collect();
    {
        let mut acc = Acc::default();
        phase_warm_pairs(&ctx, 3, &fams3, &mut acc, &[(3, 1), (2, 0), (5, 4)]);
        rep.sample(json!({"phase":"warm arena pairs","a":fam_str(0b0110),"op":"difference","b":fam_str(0b1010)}));
        rep.absorb(acc);
    }
    if ctx.c06 {
        // standalone API: all ordered pairs over 3 variables (+ product)
        let (acc, _) = mc::par_indices(256 * 256, args.threads, 256, |i, acc| {
            standalone_pair(3, (i / 256) as Fam, (i % 256) as Fam, acc);
            true
        });
        rep.absorb(acc);
        // thread-safe wrapper: all ordered pairs over 2 variables
        let mut acc = Acc::default();
        let sh = SharedArena::new();
        let hs: Vec<ZddHandle> = (0..16u32)
            .map(|f| {
                let mut h = sh.empty();
                for s in members(f) {
                    let x = sh.from_set(&elems(s));
                    h = sh.union(h, x);
                }
                h
            })
            .collect();
        for i in 0..16usize {
            for j in 0..16usize {
                for op in BINOPS {
                    acc.evaluations += 1;
                    let h = op.shared(&sh, hs[i], hs[j]);
                    let exp = op.reference(i as Fam, j as Fam);
                    let mut got = 0u32;
                    for s in 0..4u32 {
                        if sh.contains(h, &elems(s)) {
                            got |= 1 << s;
                        }
                    }
                    if got != exp || sh.count(h) != exp.count_ones() as usize {
                        viol(&mut acc, "C06", "shared_arena", op.name(), format!("SharedArena {} of {} and {} gives {}", op.name(), fam_str(i as u32), fam_str(j as u32), fam_str(got)), json!({"kind":"shared_pair","op":op.name(),"a":i,"b":j}), 2);
                    }
                }
            }
        }
        rep.absorb(acc);
    }

    // ---- Phase 2: 4 variables: every family (unary observations), pairs of small families.
    if ctx.c06 {
        let (acc, done) = mc::par_indices(65536, args.threads, 256, |i, acc| {
            if i % 256 == 0 && deadline.expired() {
                return false;
            }
            thread_local! { static ARENA: std::cell::RefCell<(ZddArena, u32)> = std::cell::RefCell::new((ZddArena::new(), 0)); }
            ARENA.with(|c| {
                let mut c = c.borrow_mut();
                c.1 += 1;
                if c.1 % 512 == 0 {
                    c.0 = ZddArena::new();
                }
                unary_checks(4, i as Fam, &mut c.0, acc);
            });
            true
        });
        if !done {
            rep.cap_hit("wall cap during 4-variable unary sweep");
        }
        rep.absorb(acc);
    }
    {
        let maxm = args.tier.pick(2, 3);
        let small4 = small_families(4, maxm);
        let nf = small4.len() as u64;
        // one warm arena per worker chunk of rows; pair (i, j) for all j
        let (acc, done) = mc::par_indices(nf, args.threads, 1, |i, acc| {
            if deadline.expired() {
                return false;
            }
            let mut arena = ZddArena::new();
            let hs: Vec<ZddHandle> = small4.iter().map(|f| build_arena(&mut arena, *f)).collect();
            let fa = small4[i as usize];
            for (j, fb) in small4.iter().enumerate() {
                for op in BINOPS {
                    acc.evaluations += 1;
                    let exp = op.reference(fa, *fb);
                    if exp != 0 && exp != fa && exp != *fb {
                        acc.nontrivial += 1;
                    }
                    let h = op.arena(&mut arena, hs[i as usize], hs[j]);
                    let size = (fa.count_ones() + fb.count_ones()) as usize;
                    let case = json!({"kind":"arena_pair","n":4,"op":op.name(),"a":fa,"b":fb,"after_gc":false});
                    if ctx.c06 {
                        if let Err(e) = check_arena(&mut arena, h, exp, 4) {
                            viol(acc, "C06", "arena", op.name(), format!("arena {} of {} and {}: {e}", op.name(), fam_str(fa), fam_str(*fb)), case.clone(), size);
                        }
                    }
                    if ctx.c07 && arena_fam(&arena, h).ok() == Some(exp) {
                        let fresh = build_arena(&mut arena, exp);
                        if fresh != h {
                            viol(acc, "C07", "canonicity", op.name(), format!("{} of {} and {}: root differs from a rebuild of {}", op.name(), fam_str(fa), fam_str(*fb), fam_str(exp)), case, size);
                        }
                    }
                }
                if ctx.c06 && (args.tier == Tier::Thorough || (i as usize + j) % 7 == 0) {
                    standalone_pair(4, fa, *fb, acc);
                }
            }
            if ctx.c07 {
                if let Err(e) = check_nodes(&arena) {
                    viol(acc, "C07", "reduced", "pairs4", e, json!({"kind":"row4","row":fa}), 0);
                }
            }
            true
        });
        if !done {
            rep.cap_hit("wall cap during 4-variable pair sweep");
        }
        rep.absorb(acc);
        rep.set("families_4var_small", json!(nf));
    }
    // 5 variables: pairs of families with ≤ 2 members (quick: ≤ 1 member + sampled? no: all ≤2 in both tiers)
    {
        let small5 = small_families(5, 2);
        let nf = small5.len() as u64;
        let stride = args.tier.pick(4u64, 1u64); // quick: rows i with i % 4 == 0 (still all columns)
        let (acc, done) = mc::par_indices(nf, args.threads, 1, |i, acc| {
            if i % stride != 0 {
                return true;
            }
            if deadline.expired() {
                return false;
            }
            let mut arena = ZddArena::new();
            let hs: Vec<ZddHandle> = small5.iter().map(|f| build_arena(&mut arena, *f)).collect();
            let fa = small5[i as usize];
            for (j, fb) in small5.iter().enumerate() {
                for op in BINOPS {
                    acc.evaluations += 1;
                    let exp = op.reference(fa, *fb);
                    if exp != 0 && exp != fa && exp != *fb {
                        acc.nontrivial += 1;
                    }
                    let h = op.arena(&mut arena, hs[i as usize], hs[j]);
                    let case = json!({"kind":"arena_pair","n":5,"op":op.name(),"a":fa,"b":fb,"after_gc":false});
                    let size = (fa.count_ones() + fb.count_ones()) as usize;
                    if ctx.c06 {
                        if let Err(e) = check_arena(&mut arena, h, exp, 5) {
                            viol(acc, "C06", "arena", op.name(), format!("arena {} of {} and {}: {e}", op.name(), fam_str(fa), fam_str(*fb)), case.clone(), size);
                        }
                    }
                    if ctx.c07 && arena_fam(&arena, h).ok() == Some(exp) {
                        let fresh = build_arena(&mut arena, exp);
                        if fresh != h {
                            viol(acc, "C07", "canonicity", op.name(), format!("{} of {} and {}: root differs from a rebuild", op.name(), fam_str(fa), fam_str(*fb)), case, size);
                        }
                    }
                }
            }
            true
        });
        if !done {
            rep.cap_hit("wall cap during 5-variable pair sweep");
        }
        rep.absorb(acc);
    }

    // ---- Phase 3: every operation history up to a depth over 3 registers (stateless enumeration).
    let mut states: BTreeSet<[Fam; NREG]> = BTreeSet::new();
    for (n, depth) in [(4u32, args.tier.pick(4usize, 5usize)), (5u32, args.tier.pick(3usize, 4usize))] {
        let alphabet = op_alphabet(n);
        let space = mc::SeqSpace::new(alphabet.len(), 0, depth);
        let total = space.total();
        let (acc, done) = mc::par_indices(total, args.threads, 4096, |i, acc| {
            if i % 4096 == 0 && deadline.expired() {
                return false;
            }
            let mut hist = Vec::new();
            space.decode(i, &mut hist);
            let st = run_history(&ctx, n, &alphabet, &hist, acc);
            acc.outcome(&st);
            if st.iter().filter(|f| f.count_ones() >= 2).count() >= 1 {
                acc.nontrivial += 1;
            }
            if i == total - 1 {
                acc.samples.push(json!({"phase":"history","n":n,"ops":hist.iter().map(|k| op_json(&alphabet[*k])).collect::<Vec<_>>()}));
            }
            true
        });
        if !done {
            rep.cap_hit(&format!("wall cap during history enumeration n={n} depth={depth}"));
        }
        rep.transitions += acc.evaluations;
        rep.traces += acc.evaluations;
        rep.set(&format!("histories_n{n}_depth{depth}"), json!(total));
        rep.set(&format!("op_alphabet_n{n}"), json!(alphabet.len()));
        let _ = &mut states;
        rep.states += acc.outcomes.len() as u64;
        rep.absorb(acc);
    }
    rep.rule = "Exhaustive: (1) all 256 families over 3 variables in one warm arena, all 65 536 ordered pairs × {union, intersection, difference}, then three garbage collections (keeping index classes) each followed by all pairs of survivors; standalone Zdd: all pairs + product; SharedArena: all pairs over 2 variables. (2) 4 variables: all 65 536 families for build/count/contains/iter/extend-with-optional, all ordered pairs of families with few members; 5 variables: pairs of families with ≤ 2 members. (3) every operation history up to the stated depth over 3 registers with ops from_set/union/intersection/difference/product_with_optional/gc(keep ⊆ registers)/gc_caches_only, arena compared with the bit-set model at the end of every history. Non-trivial = result differs from both operands and from ∅ (pairs), or a register holds ≥ 2 members (histories).".into();
    rep.assume("families are compared through iter/count/contains of the public API; node-level checks use the read-only verif_nodes hook");
    rep.assume("histories are enumerated without state merging (arena caches are part of the state and are not abstracted away); `states` = distinct register valuations reached");
    rep.finish();
}

fn replay(ctx: &Ctx, case: &serde_json::Value, acc: &mut Acc) {
    let kind = case["kind"].as_str().unwrap_or("");
    let n = case["n"].as_u64().unwrap_or(3) as u32;
    match kind {
        "arena_pair" if !case["after_gc"].as_bool().unwrap_or(false) => {
            let (a, b) = (case["a"].as_u64().unwrap() as Fam, case["b"].as_u64().unwrap() as Fam);
            let op = BINOPS.iter().find(|o| o.name() == case["op"].as_str().unwrap()).copied().unwrap();
            let mut arena = ZddArena::new();
            let (ha, hb) = (build_arena(&mut arena, a), build_arena(&mut arena, b));
            let h = op.arena(&mut arena, ha, hb);
            acc.evaluations += 1;
            let exp = op.reference(a, b);
            if ctx.c06 {
                if let Err(e) = check_arena(&mut arena, h, exp, n) {
                    viol(acc, "C06", "arena", op.name(), format!("arena {} of {} and {}: {e}", op.name(), fam_str(a), fam_str(b)), case.clone(), 0);
                }
            }
            if ctx.c07 && arena_fam(&arena, h).ok() == Some(exp) && build_arena(&mut arena, exp) != h {
                viol(acc, "C07", "canonicity", op.name(), "root differs from rebuild".into(), case.clone(), 0);
            }
        }
        "zdd_pair" | "zdd_product" => {
            let (a, b) = (case["a"].as_u64().unwrap() as Fam, case["b"].as_u64().unwrap() as Fam);
            standalone_pair(n, a, b, acc);
        }
        "history" => {
            let alphabet = op_alphabet(n);
            let hist: Vec<usize> = case["ops"].as_array().unwrap().iter().map(|v| v.as_u64().unwrap() as usize).collect();
            run_history(ctx, n, &alphabet, &hist, acc);
        }
        "build" | "arena_pwo" | "zdd_pwo" | "zdd_build" => {
            let f = case["fam"].as_u64().unwrap() as Fam;
            let mut arena = ZddArena::new();
            unary_checks(n, f, &mut arena, acc);
        }
        _ => {
            let fams3: Vec<Fam> = (0..256u32).collect();
            phase_warm_pairs(ctx, 3, &fams3, acc, &[(3, 1), (2, 0), (5, 4)]);
        }
    }
}

/// The reference model is exercised on hand-computed cases before it is trusted.
fn self_test() {
    // {{0},{1}} ∪ {{1},{0,1}}
    let a: Fam = (1 << 0b01) | (1 << 0b10);
    let b: Fam = (1 << 0b10) | (1 << 0b11);
    assert_eq!(BinOp::Union.reference(a, b), (1 << 1) | (1 << 2) | (1 << 3));
    assert_eq!(BinOp::Inter.reference(a, b), 1 << 2);
    assert_eq!(BinOp::Diff.reference(a, b), 1 << 1);
    // {∅,{0}} extended with optional 1 = {∅,{0},{1},{0,1}}
    assert_eq!(ref_pwo(0b11, 1), 0b1111);
    // {{0}} × {{1}} = {{0,1}}
    assert_eq!(ref_product(1 << 1, 1 << 2), 1 << 3);
    assert_eq!(ref_product(0, 1 << 2), 0);
    assert_eq!(elems(0b1010), vec![1, 3]);
    assert_eq!(small_families(2, 1).len(), 5);
}
