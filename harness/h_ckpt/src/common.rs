//! Shared driver code for the checkpoint harnesses: fixed timestamps, one current-thread tokio
//! runtime per worker thread, output projection.

use tokio::sync::mpsc;
use varpulis_core::ast::Program;
use varpulis_core::Value;
use varpulis_runtime::{Engine, Event};

/// 2023-11-14T22:13:20Z, a whole second: every event timestamp is `T0 + k·1 s (+ sub-ms offset)`.
pub const T0_NS: i64 = 1_700_000_000_000_000_000;
pub const OUT_CAP: usize = 4096;

pub fn ts(ns_after_t0: i64) -> chrono::DateTime<chrono::Utc> {
    chrono::DateTime::from_timestamp_nanos(T0_NS + ns_after_t0)
}

thread_local! {
    static RT: tokio::runtime::Runtime = tokio::runtime::Builder::new_current_thread().build().expect("tokio runtime");
}

pub fn block_on<F: std::future::Future>(f: F) -> F::Output {
    RT.with(|rt| rt.block_on(f))
}

/// Output fields that carry wall-clock values (never compared).
const WALL_CLOCK_FIELDS: [&str; 1] = ["match_duration_ms"];

/// `(event_type, data)` projection of an output event as a canonical string (fields sorted).
pub fn project(e: &Event) -> String {
    let mut d: Vec<String> = e
        .data
        .iter()
        .filter(|(k, _)| !WALL_CLOCK_FIELDS.contains(&&***k))
        .map(|(k, v)| format!("{k}={}", show_value(v)))
        .collect();
    d.sort();
    format!("{}{{{}}}", e.event_type, d.join(","))
}

pub fn show_value(v: &Value) -> String {
    match v {
        Value::Null => "null".into(),
        Value::Bool(b) => b.to_string(),
        Value::Int(i) => format!("{i}"),
        Value::Float(f) => format!("{f:?}f"),
        Value::Str(s) => format!("{s:?}"),
        Value::Timestamp(t) => format!("ts({t})"),
        Value::Duration(d) => format!("dur({d})"),
        Value::Array(a) => format!("[{}]", a.iter().map(show_value).collect::<Vec<_>>().join(",")),
        Value::Map(m) => {
            let mut e: Vec<String> = m.iter().map(|(k, v)| format!("{k:?}:{}", show_value(v))).collect();
            e.sort();
            format!("{{{}}}", e.join(","))
        }
    }
}

/// The outputs one `process` call produced, as a sorted multiset of projections (the engine emits
/// some outputs from hash-map iterations; order inside one call is a don't-care).
pub fn drain(rx: &mut mpsc::Receiver<Event>) -> Vec<String> {
    let mut o = Vec::new();
    while let Ok(e) = rx.try_recv() {
        o.push(project(&e));
    }
    o.sort();
    o
}

pub fn fresh_engine(program: &Program) -> Result<(Engine, mpsc::Receiver<Event>), String> {
    let (tx, rx) = mpsc::channel(OUT_CAP);
    let mut eng = Engine::new(tx);
    eng.load(program).map_err(|e| format!("Engine::load: {e}"))?;
    Ok((eng, rx))
}

pub fn parse(src: &str) -> Program {
    match varpulis_parser::parse(src) {
        Ok(p) => p,
        Err(e) => mc::machinery_error(&format!("harness program does not parse: {e}\n{src}")),
    }
}
