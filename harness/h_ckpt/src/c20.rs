//! C20 — checkpoints survive serialisation unchanged (DESIGN.md §3).
//!
//! A real engine (one "host" program per kind of state that can hold an event or a value: windows,
//! partitions, pattern runs, Kleene captures, partition keys, join buffers, distinct keys,
//! variables) is driven until it holds an event `X` whose field `f` carries the generated value and
//! whose timestamp carries the generated precision. Then
//!
//!   cp  = engine.create_checkpoint()
//!   cp2 = codec::deserialize(codec::serialize(cp, Json))          (three codec variants)
//!
//! must succeed, `cp2` must equal `cp` (compared as sorted JSON values of the two checkpoints), and
//! every event stored in `cp2`, converted back with the real `Event::from(SerializableEvent)`, must
//! equal the input event with the same `id` (type, timestamp, data; `Value` equality, NaN = NaN).

use crate::common::{self, block_on, fresh_engine, show_value};
use indexmap::IndexMap;
use mc::{Acc, Args, Deadline, Report, Tier};
use rustc_hash::FxBuildHasher;
use serde_json::{json, Value as J};
use std::sync::Arc;
use std::time::Duration;
use varpulis_core::ast::Program;
use varpulis_core::Value;
use varpulis_runtime::codec::{self, CheckpointFormat};
use varpulis_runtime::persistence::{Checkpoint, EngineCheckpoint, SerializableEvent};
use varpulis_runtime::Event;

// ---------------------------------------------------------------------------------------------
// values

const UNI: &str = "é\"\\";

fn leaves(tier: Tier) -> Vec<Value> {
    let mut v = vec![
        Value::Int(0),
        Value::Int(-1),
        Value::Int(i64::MIN),
        Value::Int(i64::MAX),
        Value::Float(0.5),
        Value::Float(-0.0),
        Value::Float(f64::NAN),
        Value::Float(f64::INFINITY),
        Value::Float(f64::NEG_INFINITY),
        Value::str(""),
        Value::str(UNI),
        Value::Bool(true),
        Value::Null,
        Value::Timestamp(common::T0_NS + 250_000),
        Value::Duration(1_500_000_250),
        Value::array(vec![]),
        Value::map(IndexMap::with_hasher(FxBuildHasher)),
    ];
    if tier == Tier::Thorough {
        v.extend([
            Value::Int(1 << 53),
            Value::Int(-(1 << 53) - 1),
            Value::Float(f64::MAX),
            Value::Float(f64::MIN_POSITIVE),
            Value::Float(5e-324),
            Value::Float(0.1 + 0.2),
            Value::Float(-1e300),
            Value::str("\u{0}\n\t"),
            Value::str("日本\u{1F600}\u{10FFFF}"),
            Value::str("null"),
            Value::Bool(false),
            Value::Timestamp(i64::MIN),
            Value::Timestamp(-1),
            Value::Duration(u64::MAX),
            Value::Duration(0),
        ]);
    }
    v
}

fn map_of(entries: Vec<(&str, Value)>) -> Value {
    let mut m: IndexMap<Arc<str>, Value, FxBuildHasher> = IndexMap::with_hasher(FxBuildHasher);
    for (k, v) in entries {
        m.insert(k.into(), v);
    }
    Value::map(m)
}

/// All values of depth ≤ 2 over the leaves: containers hold one or two elements.
fn values(tier: Tier) -> Vec<Value> {
    let l = leaves(tier);
    let mut out = l.clone();
    for a in &l {
        out.push(Value::array(vec![a.clone()]));
        out.push(map_of(vec![("k", a.clone())]));
    }
    for a in &l {
        for b in &l {
            out.push(Value::array(vec![a.clone(), b.clone()]));
            out.push(map_of(vec![("k", a.clone()), (UNI, b.clone())]));
        }
    }
    for a in &l {
        out.push(Value::array(vec![Value::array(vec![a.clone()])]));
        out.push(Value::array(vec![map_of(vec![("k", a.clone())])]));
        out.push(map_of(vec![("k", Value::array(vec![a.clone()]))]));
        out.push(map_of(vec![("k", map_of(vec![(UNI, a.clone())]))]));
    }
    for a in &l {
        for b in &l {
            out.push(Value::array(vec![Value::array(vec![a.clone(), b.clone()])]));
            out.push(map_of(vec![("k", map_of(vec![("k", a.clone()), (UNI, b.clone())]))]));
        }
    }
    out
}

fn any_float(v: &Value, pred: &dyn Fn(f64) -> bool) -> bool {
    match v {
        Value::Float(f) => pred(*f),
        Value::Array(a) => a.iter().any(|x| any_float(x, pred)),
        Value::Map(m) => m.values().any(|x| any_float(x, pred)),
        _ => false,
    }
}

/// value class used in signatures: an attribute of the generated value, never of what went wrong
fn value_class(v: &Value) -> &'static str {
    if any_float(v, &|f| f.is_nan()) {
        "float_nan"
    } else if any_float(v, &|f| f.is_infinite()) {
        "float_inf"
    } else {
        match v {
            Value::Null => "null",
            Value::Bool(_) => "bool",
            Value::Int(_) => "int",
            Value::Float(_) => "float_finite",
            Value::Str(_) => "str",
            Value::Timestamp(_) => "timestamp",
            Value::Duration(_) => "duration",
            Value::Array(_) => "array",
            Value::Map(_) => "map",
        }
    }
}

/// replay encoding of a value (JSON cannot carry NaN/inf/−0.0/u64 faithfully in a readable way)
fn enc(v: &Value) -> J {
    match v {
        Value::Null => J::Null,
        Value::Bool(b) => json!(b),
        Value::Int(i) => json!({"i": i}),
        Value::Float(f) => json!({"f_bits": format!("{:016x}", f.to_bits()), "f": format!("{f:?}")}),
        Value::Str(s) => json!({"s": &**s}),
        Value::Timestamp(t) => json!({"ts": t}),
        Value::Duration(d) => json!({"dur": d}),
        Value::Array(a) => json!({"a": a.iter().map(enc).collect::<Vec<_>>()}),
        Value::Map(m) => json!({"m": m.iter().map(|(k, v)| json!([&**k, enc(v)])).collect::<Vec<_>>()}),
    }
}
fn dec(j: &J) -> Option<Value> {
    Some(match j {
        J::Null => Value::Null,
        J::Bool(b) => Value::Bool(*b),
        J::Object(o) => {
            if let Some(i) = o.get("i") {
                Value::Int(i.as_i64()?)
            } else if let Some(b) = o.get("f_bits") {
                Value::Float(f64::from_bits(u64::from_str_radix(b.as_str()?, 16).ok()?))
            } else if let Some(s) = o.get("s") {
                Value::str(s.as_str()?)
            } else if let Some(t) = o.get("ts") {
                Value::Timestamp(t.as_i64()?)
            } else if let Some(d) = o.get("dur") {
                Value::Duration(d.as_u64()?)
            } else if let Some(a) = o.get("a") {
                Value::array(a.as_array()?.iter().map(dec).collect::<Option<Vec<_>>>()?)
            } else if let Some(m) = o.get("m") {
                let mut im: IndexMap<Arc<str>, Value, FxBuildHasher> = IndexMap::with_hasher(FxBuildHasher);
                for e in m.as_array()? {
                    im.insert(e.get(0)?.as_str()?.into(), dec(e.get(1)?)?);
                }
                Value::map(im)
            } else {
                return None;
            }
        }
        _ => return None,
    })
}

// ---------------------------------------------------------------------------------------------
// hosts: real engines whose state holds the event / the value

struct Host {
    name: &'static str,
    src: &'static str,
    program: Program,
    /// benign events (type) that must precede X for it to be stored
    prefix: &'static [&'static str],
    /// event type of X; `None` = the value is stored through `Engine::set_variable`
    x_type: Option<&'static str>,
}

const CNT: &str = "    .aggregate(c: count())\n    .emit(c: c)\n";

fn hosts() -> Vec<Host> {
    let defs: Vec<(&'static str, String, &'static [&'static str], Option<&'static str>)> = vec![
        ("count_window", format!("stream S = A\n    .window(3)\n{CNT}"), &[], Some("A")),
        ("sliding_count_window", format!("stream S = A\n    .window(3, sliding: 2)\n{CNT}"), &[], Some("A")),
        ("tumbling_window", format!("stream S = A\n    .window(10s)\n{CNT}"), &[], Some("A")),
        ("sliding_window", format!("stream S = A\n    .window(10s, sliding: 5s)\n{CNT}"), &[], Some("A")),
        ("session_window", format!("stream S = A\n    .window(session: 10s)\n{CNT}"), &[], Some("A")),
        ("partitioned_count_window", format!("stream S = A\n    .partition_by(k)\n    .window(3)\n{CNT}"), &[], Some("A")),
        ("partitioned_tumbling_window", format!("stream S = A\n    .partition_by(k)\n    .window(10s)\n{CNT}"), &[], Some("A")),
        ("partitioned_sliding_window", format!("stream S = A\n    .partition_by(k)\n    .window(10s, sliding: 5s)\n{CNT}"), &[], Some("A")),
        ("partitioned_session_window", format!("stream S = A\n    .partition_by(k)\n    .window(session: 10s)\n{CNT}"), &[], Some("A")),
        ("window_partitioned_by_value", format!("stream S = A\n    .partition_by(f)\n    .window(10s)\n{CNT}"), &[], Some("A")),
        ("pattern_captured", "stream S = A as a -> B as b\n    .emit(a: a.id, b: b.id)\n".into(), &[], Some("A")),
        ("pattern_kleene_capture", "stream S = A as a -> all B as b -> C as c\n    .emit(a: a.id, c: c.id)\n".into(), &["A"], Some("B")),
        ("pattern_partitioned_by_value", "stream S = A as a -> B as b\n    .partition_by(f)\n    .emit(a: a.id, b: b.id)\n".into(), &[], Some("A")),
        ("join_buffer", "stream J = join(A, B)\n    .on(A.k == B.k)\n    .window(10s)\n    .emit(av: A.id, bv: B.id)\n".into(), &[], Some("A")),
        ("distinct_keys", "stream S = A\n    .distinct(f)\n    .emit(id: id)\n".into(), &[], Some("A")),
        ("variable", "var x = 1\nstream S = A\n    .emit(id: id)\n".into(), &[], None),
    ];
    defs.into_iter()
        .map(|(name, src, prefix, x_type)| {
            let src: &'static str = Box::leak(src.into_boxed_str());
            Host { name, src, program: common::parse(src), prefix, x_type }
        })
        .collect()
}

/// sub-millisecond part of X's timestamp (ns)
const TS_OFFS: [i64; 3] = [0, 250_000, 999_999];

fn mk_event(ty: &str, pos: usize, off_ns: i64, f: Value) -> Event {
    let mut e = Event::new_at(ty, common::ts(pos as i64 * 1_000_000_000 + off_ns));
    e.data.insert("id".into(), Value::Int(pos as i64));
    e.data.insert("k".into(), Value::str("x"));
    e.data.insert("f".into(), f);
    e.data.insert(UNI.into(), Value::Int(1));
    e
}

/// every event stored anywhere in an engine checkpoint
fn stored_events(cp: &EngineCheckpoint) -> Vec<&SerializableEvent> {
    let mut out: Vec<&SerializableEvent> = Vec::new();
    for w in cp.window_states.values() {
        out.extend(w.events.iter());
        for p in w.partitions.values() {
            out.extend(p.events.iter());
        }
    }
    for s in cp.sase_states.values() {
        for r in s.active_runs.iter().chain(s.partitioned_runs.values().flatten()) {
            out.extend(r.stack.iter().map(|e| &e.event));
            out.extend(r.captured.values());
            if let Some(k) = &r.kleene_events {
                out.extend(k.iter());
            }
        }
    }
    for j in cp.join_states.values() {
        for keyed in j.buffers.values() {
            for evs in keyed.values() {
                out.extend(evs.iter().map(|(_, e)| e));
            }
        }
    }
    out
}

fn event_diff(orig: &Event, got: &Event) -> Option<String> {
    if orig.event_type != got.event_type {
        return Some(format!("event type {:?} became {:?}", orig.event_type, got.event_type));
    }
    if orig.timestamp != got.timestamp {
        return Some(format!("timestamp {} became {}", orig.timestamp.to_rfc3339_opts(chrono::SecondsFormat::Nanos, true), got.timestamp.to_rfc3339_opts(chrono::SecondsFormat::Nanos, true)));
    }
    for (k, v) in &orig.data {
        match got.data.get(k) {
            Some(g) if g == v => {}
            Some(g) => return Some(format!("field {k:?} = {} became {}", show_value(v), show_value(g))),
            None => return Some(format!("field {k:?} = {} is missing", show_value(v))),
        }
    }
    if got.data.len() != orig.data.len() {
        return Some(format!("{} fields became {}", orig.data.len(), got.data.len()));
    }
    None
}

#[derive(Clone, Copy, Debug, PartialEq, Eq)]
enum Variant {
    /// serialize(EngineCheckpoint, Json) → deserialize (auto-detection)
    Plain,
    /// the same bytes behind leading whitespace (auto-detection skips whitespace)
    LeadingWhitespace,
    /// the engine checkpoint inside `Checkpoint.context_states["main"]`, as the stores persist it
    Wrapped,
}
const VARIANTS: [Variant; 3] = [Variant::Plain, Variant::LeadingWhitespace, Variant::Wrapped];
impl Variant {
    fn name(self) -> &'static str {
        match self {
            Variant::Plain => "plain",
            Variant::LeadingWhitespace => "leading_whitespace",
            Variant::Wrapped => "wrapped_in_checkpoint",
        }
    }
}

fn round_trip(cp: &EngineCheckpoint, variant: Variant) -> Result<EngineCheckpoint, String> {
    match variant {
        Variant::Plain | Variant::LeadingWhitespace => {
            let mut bytes = codec::serialize(cp, CheckpointFormat::Json).map_err(|e| format!("codec::serialize fails: {e}"))?;
            if variant == Variant::LeadingWhitespace {
                let mut b = b" \n\t".to_vec();
                b.append(&mut bytes);
                bytes = b;
            }
            codec::deserialize::<EngineCheckpoint>(&bytes).map_err(|e| format!("codec::deserialize fails on what codec::serialize wrote: {e}"))
        }
        Variant::Wrapped => {
            let outer = Checkpoint {
                id: 7,
                timestamp_ms: 1_700_000_000_000,
                events_processed: cp.events_processed,
                window_states: Default::default(),
                pattern_states: Default::default(),
                metadata: [(UNI.to_string(), UNI.to_string())].into_iter().collect(),
                context_states: [("main".to_string(), cp.clone())].into_iter().collect(),
            };
            let bytes = codec::serialize(&outer, CheckpointFormat::active()).map_err(|e| format!("codec::serialize fails: {e}"))?;
            let mut back: Checkpoint = codec::deserialize(&bytes).map_err(|e| format!("codec::deserialize fails on what codec::serialize wrote: {e}"))?;
            if back.id != 7 || back.metadata.get(UNI).map(String::as_str) != Some(UNI) {
                return Err("outer checkpoint id/metadata changed".into());
            }
            back.context_states.remove("main").ok_or_else(|| "context state `main` is missing after the round trip".to_string())
        }
    }
}

struct Case<'a> {
    host: &'a Host,
    value: Value,
    off: i64,
    /// one more benign event in front
    extra: bool,
    /// position in the enumeration order (simplest first); keeps the smallest failing case
    rank: usize,
}

fn case_json(c: &Case, variant: Variant) -> J {
    json!({"host": c.host.name, "program": c.host.src, "value": enc(&c.value), "value_readable": show_value(&c.value), "ts_sub_ms_ns": c.off, "extra_event": c.extra, "variant": variant.name()})
}

fn signature(c: &Case) -> String {
    // Two independent attributes of the case. Every value class is also enumerated with a
    // millisecond-exact timestamp, so a value-dependent defect always shows under C20:value=<class>;
    // cases whose stored event carries a sub-millisecond timestamp share one scope.
    // (The variable host stores no event, so its timestamp class is always millisecond-exact.)
    if c.off != 0 && c.host.x_type.is_some() {
        "C20:timestamp=sub_ms".to_string()
    } else {
        format!("C20:value={}", value_class(&c.value))
    }
}

fn eval_case(c: &Case, only_variant: Option<Variant>, acc: &mut Acc) {
    // ---- build the engine state (not the subject of C20: a panic here is not a C20 verdict)
    let mut inputs: Vec<Event> = Vec::new();
    let built = mc::catch(|| -> Result<EngineCheckpoint, String> {
        let (mut eng, mut rx) = fresh_engine(&c.host.program)?;
        if let Some(xt) = c.host.x_type {
            if c.extra {
                inputs.push(mk_event(xt, inputs.len(), 0, Value::Int(7)));
            }
            for ty in c.host.prefix {
                inputs.push(mk_event(ty, inputs.len(), 0, Value::Int(7)));
            }
            inputs.push(mk_event(xt, inputs.len(), c.off, c.value.clone()));
            block_on(async {
                for e in &inputs {
                    eng.process(e.clone()).await?;
                }
                Ok::<(), String>(())
            })?;
            while rx.try_recv().is_ok() {}
        } else {
            if c.extra {
                block_on(eng.process(mk_event("A", 0, 0, Value::Int(7))))?;
            }
            eng.set_variable("x", c.value.clone())?;
        }
        Ok(eng.create_checkpoint())
    });
    let cp = match built {
        Ok(Ok(cp)) => cp,
        Ok(Err(_)) | Err(_) => {
            acc.count("skipped_engine_could_not_hold_the_value", 1);
            return;
        }
    };
    let x_id = inputs.len().saturating_sub(1) as i64;
    let holds_x = match c.host.x_type {
        Some(_) => stored_events(&cp).iter().any(|e| matches!(e.fields.get("id"), Some(varpulis_runtime::persistence::SerializableValue::Int(i)) if *i == x_id)) || c.host.name == "distinct_keys",
        None => cp.variables.contains_key("x"),
    };
    let cp_json = mc::sorted_json(&serde_json::to_value(&cp).unwrap_or(J::Null));
    let size = c.rank;
    for variant in VARIANTS {
        if only_variant.is_some_and(|v| v != variant) {
            continue;
        }
        acc.evaluations += 1;
        if holds_x {
            acc.nontrivial += 1;
        }
        let verdict = mc::catch(|| -> Result<(), String> {
            let cp2 = round_trip(&cp, variant)?;
            let cp2_json = mc::sorted_json(&serde_json::to_value(&cp2).map_err(|e| e.to_string())?);
            if cp2_json != cp_json {
                return Err(format!("the checkpoint read back differs from the one written: {} vs {}", cp_json, cp2_json));
            }
            for se in stored_events(&cp2) {
                let got = Event::from(se.clone());
                let Some(Value::Int(id)) = got.data.get("id").cloned() else { return Err("a restored event has no integer `id` any more".into()) };
                let Some(orig) = inputs.get(id as usize) else { return Err(format!("a restored event has unknown id {id}")) };
                if let Some(d) = event_diff(orig, &got) {
                    return Err(format!("restored event id={id} differs from the event the engine was given: {d}"));
                }
            }
            if c.host.x_type.is_none() {
                let (mut e2, _rx) = fresh_engine(&c.host.program)?;
                e2.restore_checkpoint(&cp2).map_err(|e| format!("restore_checkpoint: {e}"))?;
                match e2.get_variable("x") {
                    Some(v) if *v == c.value => {}
                    other => return Err(format!("variable x = {} restored as {}", show_value(&c.value), other.map(show_value).unwrap_or_else(|| "<missing>".into()))),
                }
            }
            Ok(())
        });
        acc.outcome(&(c.host.name, show_value(&c.value), c.off, verdict.is_ok() && verdict.as_ref().is_ok_and(|r| r.is_ok())));
        let err = match verdict {
            Ok(Ok(())) => None,
            Ok(Err(e)) => Some(e),
            Err(p) => Some(format!("panic {p} at {}", mc::last_panic_location())),
        };
        if let Some(e) = err {
            let mut e = e;
            if e.len() > 700 {
                let mut cutp = 700;
                while !e.is_char_boundary(cutp) {
                    cutp -= 1;
                }
                e.truncate(cutp);
                e.push('…');
            }
            acc.viol.add(
                signature(c),
                format!("host {} ({}), event X with f = {} and timestamp T0+{}s+{}ns, codec variant {}: {e}", c.host.name, c.host.src.split_whitespace().collect::<Vec<_>>().join(" "), show_value(&c.value), inputs.len().saturating_sub(1), c.off, variant.name()),
                case_json(c, variant),
                size,
            );
        }
    }
}

fn self_test(hs: &[Host]) {
    for v in values(Tier::Thorough) {
        let back = dec(&enc(&v)).expect("replay encoding decodes");
        assert!(back == v && show_value(&back) == show_value(&v), "replay encoding loses {}", show_value(&v));
    }
    assert_eq!(value_class(&Value::array(vec![Value::Int(1), map_of(vec![("k", Value::Float(f64::NAN))])])), "float_nan");
    assert_eq!(value_class(&map_of(vec![("k", Value::Float(f64::NEG_INFINITY))])), "float_inf");
    assert_eq!(value_class(&Value::Float(-0.0)), "float_finite");
    assert_eq!(value_class(&Value::array(vec![Value::str("NaN")])), "array");
    assert_eq!(values(Tier::Quick).len(), 17 + 34 + 2 * 289 + 4 * 17 + 2 * 289);
    // event_diff on hand-made events
    let a = mk_event("A", 1, 250_000, Value::Float(f64::NAN));
    assert!(event_diff(&a, &a.clone()).is_none());
    let mut b = a.clone();
    b.timestamp = common::ts(1_000_000_000);
    assert!(event_diff(&a, &b).unwrap().contains("timestamp"));
    let mut b = a.clone();
    b.data.insert("f".into(), Value::Null);
    assert!(event_diff(&a, &b).unwrap().contains("\"f\""));
    // the visitor finds the two events a count window holds
    let h = hs.iter().find(|h| h.name == "count_window").unwrap();
    let (mut eng, _rx) = fresh_engine(&h.program).unwrap();
    block_on(async {
        eng.process(mk_event("A", 0, 0, Value::Int(7))).await.unwrap();
        eng.process(mk_event("A", 1, 0, Value::Int(8))).await.unwrap();
    });
    assert_eq!(stored_events(&eng.create_checkpoint()).len(), 2);
    assert!(CheckpointFormat::active() == CheckpointFormat::Json, "the harness is built without the binary codec");
}

pub fn run(args: &Args) -> ! {
    let mut rep = Report::new(args, "exploration");
    let hs = hosts();
    self_test(&hs);

    if let Some(path) = &args.replay {
        let case = mc::load_replay(path);
        let Some(host) = hs.iter().find(|h| Some(h.name) == case["host"].as_str()) else { mc::machinery_error("replay: unknown host") };
        let Some(value) = dec(&case["value"]) else { mc::machinery_error("replay: value does not decode") };
        let c = Case { host, value, off: case["ts_sub_ms_ns"].as_i64().unwrap_or(0), extra: case["extra_event"].as_bool().unwrap_or(false), rank: 0 };
        let variant = VARIANTS.iter().copied().find(|v| Some(v.name()) == case["variant"].as_str());
        println!("REPLAY host={} value={} ts_sub_ms_ns={} extra_event={} variant={:?}\n  program: {}", host.name, show_value(&c.value), c.off, c.extra, variant.map(|v| v.name()), host.src.replace('\n', "\n           "));
        let mut acc = Acc::default();
        eval_case(&c, variant, &mut acc);
        rep.absorb(acc);
        rep.evaluations = rep.evaluations.max(1);
        rep.finish();
    }

    let deadline = Deadline::after(Duration::from_secs(args.tier.pick(36, 1100)));
    let vals = values(args.tier);
    let per_value = (hs.len() * TS_OFFS.len() * 2) as u64;
    let total = vals.len() as u64 * per_value;
    let (acc, done) = mc::par_indices(total, args.threads, 32, |i, acc| {
        if deadline.expired() {
            return false;
        }
        // simplest first: value index is the slowest digit, so leaves come before containers
        let vi = (i / per_value) as usize;
        let r = (i % per_value) as usize;
        let host = &hs[r % hs.len()];
        let off = TS_OFFS[(r / hs.len()) % TS_OFFS.len()];
        let extra = r / (hs.len() * TS_OFFS.len()) == 1;
        let c = Case { host, value: vals[vi].clone(), off, extra, rank: i as usize };
        eval_case(&c, None, acc);
        if i + 1 == total || i == 0 {
            acc.samples.push(case_json(&c, Variant::Plain));
        }
        true
    });
    if !done {
        rep.cap_hit("wall cap during the value × host sweep");
    }
    rep.absorb(acc);
    rep.set("values", json!(vals.len()));
    rep.set("hosts", json!(hs.iter().map(|h| h.name).collect::<Vec<_>>()));
    rep.set("timestamp_sub_ms_parts_ns", json!(TS_OFFS));
    rep.set("codec_variants", json!(VARIANTS.iter().map(|v| v.name()).collect::<Vec<_>>()));
    rep.rule = "Exhaustive: every value of depth ≤ 2 over the leaf set (ints 0/−1/i64::MIN/MAX, floats 0.5/−0.0/NaN/±inf, \"\", a unicode string with quote and backslash, bool, null, Timestamp, Duration, [] and {}; thorough adds 15 more extreme leaves), containers of one or two elements, × every host (a real engine whose window / partition / pattern run / Kleene capture / partition key / join buffer / distinct key set / variable holds the event or the value) × timestamp sub-ms part {0, 250 µs, 999 999 ns} × with/without one more stored event × codec variant {plain, leading whitespace, wrapped in Checkpoint.context_states}. One evaluation = one create_checkpoint → codec::serialize → codec::deserialize → comparison. Non-trivial = the checkpoint written really holds the generated event / value.".into();
    rep.assume("`equal checkpoint` is decided on the sorted serde_json values of the checkpoint written and the checkpoint read back (EngineCheckpoint has no PartialEq); `equal restored events` on Event::from(SerializableEvent) of every event stored in the checkpoint read back against the input event with the same id: event type, full-precision timestamp and data under Value equality (NaN = NaN, −0.0 = 0.0)");
    rep.assume("only the JSON codec exists in this build (feature binary-codec off, CheckpointFormat::active() == Json is asserted); auto-detection is exercised with and without leading whitespace and on both top-level types");
    rep.assume("an engine that cannot be brought to hold the value (load/process/set_variable error or panic) yields no checkpoint and is counted under skipped_engine_could_not_hold_the_value, not judged");
    rep.finish();
}
