//! h_ckpt — engine checkpoint harnesses: C19 (checkpoint/restore invisible in the output) and
//! C20 (checkpoints survive serialisation unchanged). See DESIGN.md §3 and README-harness.md.

mod c19;
mod c20;
mod common;

fn main() {
    let args = mc::parse_args();
    mc::quiet_panics();
    match args.prop.as_str() {
        "C19" => c19::run(&args),
        "C20" => c20::run(&args),
        other => mc::machinery_error(&format!("h_ckpt serves C19 and C20, not {other}")),
    }
}
