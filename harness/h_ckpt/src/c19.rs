//! C19 — checkpoint and restore are invisible in the output (DESIGN.md §3).
//!
//! Differential, no hand-written expected value. For every program kind of the catalogue, every
//! stream over that kind's alphabet up to a length bound and every cut 0..=n:
//!
//!   reference   = fresh engine, whole stream, no checkpoint call at all
//!   instrumented= fresh engine, whole stream, `create_checkpoint` + `codec::serialize` at every cut
//!   restored(c) = `codec::deserialize` → fresh `Engine::load` → `restore_checkpoint` → events c..n
//!
//! The outputs of `restored(c)` must equal the reference outputs produced by events c..n (per input
//! event, as multisets), and the instrumented run must equal the reference.

use crate::common::{self, block_on, drain, fresh_engine};
use mc::{Acc, Args, Deadline, Report, SeqSpace};
use serde_json::{json, Value as J};
use std::time::Duration;
use varpulis_core::ast::Program;
use varpulis_core::Value;
use varpulis_runtime::codec::{self, CheckpointFormat};
use varpulis_runtime::persistence::EngineCheckpoint;
use varpulis_runtime::{Engine, Event};

/// sub-millisecond offsets added to an event timestamp (ns); index 0 = millisecond-exact
const OFFS_NS: [i64; 3] = [0, 250_000, 750_000];

#[derive(Clone, Debug)]
enum Payload {
    Ev { ty: &'static str, k: Option<&'static str>, v: Option<i64> },
    SetVar { name: &'static str, value: i64 },
}

fn ev(ty: &'static str, k: Option<&'static str>, v: Option<i64>) -> Payload {
    Payload::Ev { ty, k, v }
}

pub struct Kind {
    /// signature component, e.g. `window=sliding_count`
    pub name: &'static str,
    pub src: String,
    program: Program,
    payloads: Vec<Payload>,
    /// time moves in ms: > 0 advances the stream clock and stamps the event with it; ≤ 0 stamps the
    /// event `clock + move` without advancing (out-of-order event)
    moves_ms: Vec<i64>,
}

const AGG: &str = "    .aggregate(c: count(), lo: min(id), hi: max(id), s: sum(v))\n    .emit(c: c, lo: lo, hi: hi, s: s)\n";

fn catalogue() -> Vec<Kind> {
    let a12 = || vec![ev("A", None, Some(1)), ev("A", None, Some(2))];
    let axy = || vec![ev("A", Some("x"), Some(1)), ev("A", Some("y"), Some(1))];
    let ab = || vec![ev("A", None, Some(1)), ev("B", None, Some(1))];
    let ab12 = || vec![ev("A", None, Some(1)), ev("B", None, Some(1)), ev("A", None, Some(2)), ev("B", None, Some(2))];
    let step = || vec![1000];
    let gaps = || vec![1000, 3000];
    let mut v: Vec<(&'static str, String, Vec<Payload>, Vec<i64>)> = vec![
        // ---- windows (simplest first)
        ("window=count", format!("stream S = A\n    .window(2)\n{AGG}"), a12(), step()),
        ("window=sliding_count", format!("stream S = A\n    .window(3, sliding: 2)\n{AGG}"), a12(), step()),
        ("window=tumbling", format!("stream S = A\n    .window(2s)\n{AGG}"), vec![ev("A", None, Some(1))], gaps()),
        ("window=sliding", format!("stream S = A\n    .window(3s, sliding: 2s)\n{AGG}"), vec![ev("A", None, Some(1))], gaps()),
        ("window=session", format!("stream S = A\n    .window(session: 1s)\n{AGG}"), vec![ev("A", None, Some(1))], gaps()),
        ("window=partitioned_count", format!("stream S = A\n    .partition_by(k)\n    .window(2)\n{AGG}"), axy(), step()),
        ("window=partitioned_sliding_count", format!("stream S = A\n    .partition_by(k)\n    .window(3, sliding: 2)\n{AGG}"), axy(), step()),
        ("window=partitioned_tumbling", format!("stream S = A\n    .partition_by(k)\n    .window(2s)\n{AGG}"), axy(), gaps()),
        ("window=partitioned_sliding", format!("stream S = A\n    .partition_by(k)\n    .window(3s, sliding: 2s)\n{AGG}"), axy(), gaps()),
        ("window=partitioned_session", format!("stream S = A\n    .partition_by(k)\n    .window(session: 1s)\n{AGG}"), axy(), gaps()),
        // ---- sequence patterns
        ("pattern=seq", "stream S = A as a -> B as b\n    .emit(a: a.id, b: b.id)\n".into(), ab(), step()),
        ("pattern=seq_ref_filter", "stream S = A as a -> B where v > a.v as b -> A as c\n    .emit(a: a.id, b: b.id, c: c.id)\n".into(), ab12(), step()),
        (
            "pattern=seq_partitioned",
            "stream S = A as a -> B as b\n    .partition_by(k)\n    .emit(a: a.id, b: b.id)\n".into(),
            vec![ev("A", Some("x"), None), ev("B", Some("x"), None), ev("A", Some("y"), None), ev("B", Some("y"), None)],
            step(),
        ),
        ("pattern=seq_not", "stream S = A as a -> B as b\n    .not(N)\n    .emit(a: a.id, b: b.id)\n".into(), vec![ev("A", None, None), ev("B", None, None), ev("N", None, None)], step()),
        ("pattern=all_mid", "stream S = A as a -> all B as b -> A as c\n    .emit(a: a.id, b: b.id, c: c.id)\n".into(), ab(), step()),
        ("pattern=all_last", "stream S = A as a -> all B as b\n    .emit(a: a.id, b: b.id)\n".into(), ab(), step()),
        ("pattern=all_ref_filter", "stream S = A as a -> all B where v > a.v as b -> A as c\n    .emit(a: a.id, b: b.id, c: c.id)\n".into(), ab12(), step()),
        (
            "pattern=all_selfref_filter",
            "stream S = A as a -> all B where v > b.v as b -> A as c\n    .emit(a: a.id, b: b.id, c: c.id)\n".into(),
            vec![ev("A", None, Some(1)), ev("B", None, Some(1)), ev("B", None, Some(2))],
            step(),
        ),
        ("pattern=named_seq", "pattern P = SEQ(A as a, B as b)\nstream S = P\n    .emit(a: a.id, b: b.id)\n".into(), ab(), step()),
        ("pattern=named_seq_kleene", "pattern P = SEQ(A as a, B+ as b, A as c)\nstream S = P\n    .emit(t: \"m\")\n".into(), ab(), step()),
        ("pattern=named_and", "pattern P = A AND B\nstream S = P\n    .emit(t: \"and\")\n".into(), ab(), step()),
        ("pattern=trend_aggregate", "stream S = A as a -> all B as b\n    .trend_aggregate(c: count_trends())\n    .emit(c: c)\n".into(), ab(), step()),
        // ---- join, distinct, limit, variables, watermarks
        (
            "join",
            "stream J = join(A, B)\n    .on(A.k == B.k)\n    .window(2s)\n    .emit(ka: A.k, av: A.id, bv: B.id)\n".into(),
            vec![ev("A", Some("x"), None), ev("B", Some("x"), None), ev("A", Some("y"), None), ev("B", Some("y"), None)],
            gaps(),
        ),
        ("distinct", "stream S = A\n    .distinct(v)\n    .emit(id: id, v: v)\n".into(), vec![ev("A", None, Some(1)), ev("A", None, Some(2)), ev("A", None, Some(3))], step()),
        ("limit", "stream S = A\n    .limit(2)\n    .emit(id: id, v: v)\n".into(), a12(), step()),
        (
            "variables",
            "var x = 1\nlet c = 3\nstream S = A\n    .emit(id: id)\n".into(),
            vec![ev("A", None, None), Payload::SetVar { name: "x", value: 5 }, Payload::SetVar { name: "x", value: 6 }, Payload::SetVar { name: "c", value: 9 }],
            step(),
        ),
        ("watermark=late_drop", "stream S = A\n    .watermark(out_of_order: 1s)\n    .allowed_lateness(0s)\n    .emit(id: id)\n".into(), vec![ev("A", None, None)], vec![1000, -1000, -2000]),
        ("watermark=tumbling", format!("stream S = A\n    .watermark(out_of_order: 1s)\n    .allowed_lateness(0s)\n    .window(2s)\n{AGG}"), vec![ev("A", None, Some(1))], vec![1000, 3000, -2000]),
        // ---- more than one stateful stream in a program (state maps are keyed by stream name)
        (
            "program=window_and_pattern",
            format!("stream W = A\n    .window(2)\n{AGG}stream Q = A as a -> B as b\n    .emit(a: a.id, b: b.id)\n"),
            ab(),
            step(),
        ),
        (
            "program=derived_window",
            format!("stream D = A\n    .where(v > 1)\n    .emit(id: id, v: v)\nstream S = D\n    .window(2)\n{AGG}"),
            a12(),
            step(),
        ),
    ];
    v.drain(..)
        .map(|(name, src, payloads, moves_ms)| {
            let program = common::parse(&src);
            Kind { name, src, program, payloads, moves_ms }
        })
        .collect()
}

#[derive(Clone, Copy, PartialEq, Eq, Debug)]
enum Mode {
    /// every timestamp is a whole millisecond
    Ms,
    /// each event additionally carries a sub-millisecond offset ∈ {0, 250 µs, 750 µs}
    SubMs,
}
impl Mode {
    fn name(self) -> &'static str {
        match self {
            Mode::Ms => "ms_grid",
            Mode::SubMs => "sub_ms",
        }
    }
}

impl Kind {
    fn n_symbols(&self, mode: Mode) -> usize {
        self.payloads.len() * self.moves_ms.len() * if mode == Mode::SubMs { OFFS_NS.len() } else { 1 }
    }
    fn split(&self, sym: usize) -> (usize, usize, usize) {
        let (p, m) = (self.payloads.len(), self.moves_ms.len());
        (sym % p, (sym / p) % m, sym / (p * m))
    }
}

enum Act {
    Event(Event),
    SetVar(&'static str, Value),
}

/// Turn symbols into the concrete actions (fixed timestamps, `id` = stream position).
fn materialise(kind: &Kind, syms: &[usize], zero_offsets: bool) -> (Vec<Act>, Vec<J>) {
    let mut clock_ms: i64 = 0;
    let mut acts = Vec::with_capacity(syms.len());
    let mut readable = Vec::with_capacity(syms.len());
    for (pos, &s) in syms.iter().enumerate() {
        let (p, m, o) = kind.split(s);
        let mv = kind.moves_ms[m];
        let t_ms = if mv > 0 {
            clock_ms += mv;
            clock_ms
        } else {
            clock_ms + mv
        };
        let off = if zero_offsets { 0 } else { OFFS_NS[o] };
        match &kind.payloads[p] {
            Payload::Ev { ty, k, v } => {
                let mut e = Event::new_at(*ty, common::ts(t_ms * 1_000_000 + off));
                e.data.insert("id".into(), Value::Int(pos as i64));
                if let Some(k) = k {
                    e.data.insert("k".into(), Value::str(k));
                }
                if let Some(v) = v {
                    e.data.insert("v".into(), Value::Int(*v));
                }
                readable.push(json!(format!("{ty}{{id={pos}{}{}}} @T0+{}ms+{}us", k.map(|k| format!(",k={k}")).unwrap_or_default(), v.map(|v| format!(",v={v}")).unwrap_or_default(), t_ms, off / 1000)));
                acts.push(Act::Event(e));
            }
            Payload::SetVar { name, value } => {
                readable.push(json!(format!("engine.set_variable({name:?}, {value})")));
                acts.push(Act::SetVar(name, Value::Int(*value)));
            }
        }
    }
    (acts, readable)
}

type StepOut = Vec<String>;

async fn feed(eng: &mut Engine, rx: &mut tokio::sync::mpsc::Receiver<Event>, act: &Act) -> StepOut {
    let mut extra = Vec::new();
    match act {
        Act::Event(e) => {
            if let Err(err) = eng.process(e.clone()).await {
                extra.push(format!("process-error:{err}"));
            }
        }
        Act::SetVar(name, value) => {
            extra.push(format!("set_variable({name})->{}", if eng.set_variable(name, value.clone()).is_ok() { "ok" } else { "err" }));
        }
    }
    let mut o = drain(rx);
    o.extend(extra);
    o
}

/// What the engine exposes at the end of a run besides the output channel: its variables.
fn final_obs(eng: &Engine) -> StepOut {
    let mut v: Vec<String> = eng.variables().iter().map(|(k, v)| format!("var {k}={}", common::show_value(v))).collect();
    v.sort();
    v
}

/// Uninterrupted run without any checkpoint call: outputs per action, then the final observation.
fn run_reference(kind: &Kind, acts: &[Act]) -> Result<Vec<StepOut>, String> {
    let (mut eng, mut rx) = fresh_engine(&kind.program)?;
    Ok(block_on(async {
        let mut out = Vec::with_capacity(acts.len() + 1);
        for a in acts {
            out.push(feed(&mut eng, &mut rx, a).await);
        }
        out.push(final_obs(&eng));
        out
    }))
}

/// Same run, but `create_checkpoint` + `codec::serialize` before each action and after the last.
#[allow(clippy::type_complexity)]
fn run_instrumented(kind: &Kind, acts: &[Act]) -> Result<(Vec<StepOut>, Vec<Result<Vec<u8>, String>>), String> {
    let (mut eng, mut rx) = fresh_engine(&kind.program)?;
    Ok(block_on(async {
        let mut out = Vec::with_capacity(acts.len() + 1);
        let mut cps = Vec::with_capacity(acts.len() + 1);
        for a in acts {
            cps.push(codec::serialize(&eng.create_checkpoint(), CheckpointFormat::Json).map_err(|e| e.to_string()));
            out.push(feed(&mut eng, &mut rx, a).await);
        }
        cps.push(codec::serialize(&eng.create_checkpoint(), CheckpointFormat::Json).map_err(|e| e.to_string()));
        out.push(final_obs(&eng));
        (out, cps)
    }))
}

/// `deserialize` → fresh `Engine::load` → `restore_checkpoint` → the remaining actions.
fn run_restored(kind: &Kind, bytes: &[u8], rest: &[Act]) -> Result<Vec<StepOut>, String> {
    let cp: EngineCheckpoint = codec::deserialize(bytes).map_err(|e| format!("codec::deserialize: {e}"))?;
    let (mut eng, mut rx) = fresh_engine(&kind.program)?;
    eng.restore_checkpoint(&cp).map_err(|e| format!("restore_checkpoint: {e}"))?;
    Ok(block_on(async {
        let mut out = Vec::with_capacity(rest.len() + 1);
        for a in rest {
            out.push(feed(&mut eng, &mut rx, a).await);
        }
        out.push(final_obs(&eng));
        out
    }))
}

fn signature(kind: &Kind, sub_ms_before_cut: bool, shape: Option<&str>) -> String {
    let base = if sub_ms_before_cut { format!("C19:timestamp=sub_ms:{}", kind.name) } else { format!("C19:{}", kind.name) };
    match shape {
        Some(s) => format!("{base}:{s}"),
        None => base,
    }
}

fn show_steps(s: &[StepOut]) -> String {
    let v: Vec<String> = s.iter().map(|o| format!("[{}]", o.join(" "))).collect();
    v.join(" ")
}

/// Evaluate one stream at every cut (or one cut when replaying). `rank` orders cases simplest-first.
fn eval_stream(kind: &Kind, mode: Mode, syms: &[usize], rank: u64, only_cut: Option<usize>, acc: &mut Acc) {
    let n = syms.len();
    let (acts, readable) = materialise(kind, syms, false);
    let case = |cut: usize| json!({"kind": kind.name, "mode": mode.name(), "symbols": syms, "cut": cut, "program": kind.src, "stream": readable});
    let size = |cut: usize| ((rank as usize) << 8) | cut;
    let res = mc::catch(|| -> Result<(), (usize, String, String)> {
        let reference = run_reference(kind, &acts).map_err(|e| (0, "load_error".to_string(), e))?;
        let (instr, cps) = run_instrumented(kind, &acts).map_err(|e| (0, "load_error".to_string(), e))?;
        acc.outcome(&(kind.name, &reference));
        if instr != reference {
            let first = (0..=n).find(|i| instr[*i] != reference[*i]).unwrap_or(0);
            acc.viol.add(
                signature(kind, false, Some("create_checkpoint_changes_outputs")),
                format!("{}: taking checkpoints during the run changed its outputs from step {first}: without {} / with {}", kind.name, show_steps(&reference), show_steps(&instr)),
                case(first),
                size(first),
            );
        }
        for cut in 0..=n {
            if only_cut.is_some_and(|c| c != cut) {
                continue;
            }
            acc.evaluations += 1;
            acc.count(&format!("cuts|{}|{}", kind.name, mode.name()), 1);
            let expect = &reference[cut..];
            let nontrivial = cut >= 1 && expect[..expect.len() - 1].iter().any(|o| !o.is_empty());
            if nontrivial {
                acc.nontrivial += 1;
                acc.count(&format!("nontrivial|{}|{}", kind.name, mode.name()), 1);
            }
            let sub_before = mode == Mode::SubMs && syms[..cut].iter().any(|s| kind.split(*s).2 != 0);
            let got = match &cps[cut] {
                Ok(bytes) => run_restored(kind, bytes, &acts[cut..]),
                Err(e) => Err(format!("codec::serialize: {e}")),
            };
            let fail = match &got {
                Ok(g) if g.as_slice() == expect => None,
                Ok(g) => Some((None, format!("uninterrupted run emits {} for the events after the cut, the restored engine emits {}", show_steps(expect), show_steps(g)))),
                Err(e) => Some((Some("restore_error"), e.clone())),
            };
            if let Some((shape, what)) = fail {
                acc.count(&format!("failing|{}|{}", kind.name, mode.name()), 1);
                if sub_before {
                    // information for triage only (never part of the signature): does the same
                    // stream with all sub-ms offsets removed fail at this cut too?
                    let (acts0, _) = materialise(kind, syms, true);
                    let twin_fails = match (run_reference(kind, &acts0), run_instrumented(kind, &acts0)) {
                        (Ok(r0), Ok((_, c0))) => match &c0[cut] {
                            Ok(b) => run_restored(kind, b, &acts0[cut..]).map(|g| g.as_slice() != &r0[cut..]).unwrap_or(true),
                            Err(_) => true,
                        },
                        _ => true,
                    };
                    acc.count(&format!("{}|{}", if twin_fails { "sub_ms_failing_and_ms_twin_failing" } else { "sub_ms_failing_but_ms_twin_passing" }, kind.name), 1);
                }
                acc.viol.add(
                    signature(kind, sub_before, shape),
                    format!("{} [{}], stream {} cut after {cut} of {n}: {what}", kind.name, kind.src.trim().replace('\n', " ").split_whitespace().collect::<Vec<_>>().join(" "), readable.iter().map(|r| r.as_str().unwrap_or("")).collect::<Vec<_>>().join("; ")),
                    case(cut),
                    size(cut),
                );
            }
        }
        Ok(())
    });
    match res {
        Ok(Ok(())) => {}
        Ok(Err((cut, shape, e))) => acc.viol.add(signature(kind, false, Some(&shape)), format!("{}: {e}", kind.name), case(cut), size(cut)),
        Err(p) => acc.viol.add(signature(kind, false, Some("panic")), format!("{}: panic {p} at {}", kind.name, mc::last_panic_location()), case(0), size(0)),
    }
}

/// largest n ≤ cap with Σ_{l=1..n} S^l·(l+1) ≤ budget (never below `floor`)
fn pick_len(symbols: usize, budget: u64, floor: usize, cap: usize) -> usize {
    let mut n = 0;
    let mut total: u64 = 0;
    for l in 1..=cap {
        let add = (symbols as u64).saturating_pow(l as u32).saturating_mul(l as u64 + 1);
        if l > floor && total.saturating_add(add) > budget {
            break;
        }
        total = total.saturating_add(add);
        n = l;
    }
    n
}

fn self_test(kinds: &[Kind]) {
    assert_eq!(pick_len(2, 100, 1, 8), 3); // 2·2 + 4·3 + 8·4 = 48, + 16·5 = 128 > 100
    assert_eq!(pick_len(12, 10, 3, 8), 3); // floor wins over the budget
    let k = &kinds[0];
    assert_eq!(k.split(0), (0, 0, 0));
    assert_eq!(k.n_symbols(Mode::SubMs), k.n_symbols(Mode::Ms) * 3);
    // the same stream run twice must give the same observation (the harness owns all nondeterminism)
    for kind in kinds {
        for mode in [Mode::Ms, Mode::SubMs] {
            let s = kind.n_symbols(mode);
            for syms in [vec![0usize; 4], (0..5).map(|i| (s - 1).saturating_sub(i % 2)).collect::<Vec<_>>()] {
                let (acts, _) = materialise(kind, &syms, false);
                let a = run_reference(kind, &acts);
                let b = run_reference(kind, &acts);
                match (a, b) {
                    (Ok(a), Ok(b)) if a == b => {}
                    (Ok(a), Ok(b)) => mc::machinery_error(&format!("kind {} is not deterministic: {} vs {}", kind.name, show_steps(&a), show_steps(&b))),
                    (Err(e), _) | (_, Err(e)) => mc::machinery_error(&format!("kind {} does not load: {e}", kind.name)),
                }
            }
        }
    }
}

pub fn run(args: &Args) -> ! {
    let mut rep = Report::new(args, "exploration");
    let kinds = catalogue();
    self_test(&kinds);

    if let Some(path) = &args.replay {
        let case = mc::load_replay(path);
        let name = case["kind"].as_str().unwrap_or("");
        let Some(kind) = kinds.iter().find(|k| k.name == name) else { mc::machinery_error(&format!("replay: unknown program kind {name:?}")) };
        let mode = if case["mode"].as_str() == Some("sub_ms") { Mode::SubMs } else { Mode::Ms };
        let syms: Vec<usize> = case["symbols"].as_array().map(|a| a.iter().filter_map(|v| v.as_u64()).map(|v| v as usize).collect()).unwrap_or_default();
        if syms.iter().any(|s| *s >= kind.n_symbols(mode)) {
            mc::machinery_error("replay: symbol outside the alphabet of this kind");
        }
        let cut = case["cut"].as_u64().map(|c| c as usize);
        let (acts, readable) = materialise(kind, &syms, false);
        println!("REPLAY kind={} mode={} cut={cut:?}\n  program: {}\n  stream: {}", kind.name, mode.name(), kind.src.replace('\n', "\n           "), readable.iter().map(|r| r.as_str().unwrap_or("")).collect::<Vec<_>>().join("; "));
        match run_reference(kind, &acts) {
            Ok(r) => println!("  uninterrupted outputs per event (last = engine variables): {}", show_steps(&r)),
            Err(e) => println!("  uninterrupted run failed: {e}"),
        }
        let mut acc = Acc::default();
        eval_stream(kind, mode, &syms, 0, cut, &mut acc);
        rep.absorb(acc);
        rep.evaluations = rep.evaluations.max(1);
        rep.finish();
    }

    let deadline = Deadline::after(Duration::from_secs(args.tier.pick(36, 1100)));
    // (continuations per kind and timestamp mode, hard length cap)
    let (budget_ms, budget_sub, cap_ms, cap_sub) = args.tier.pick((150_000u64, 250_000u64, 8usize, 6usize), (3_000_000, 3_000_000, 10, 7));
    let mut kinds_json = serde_json::Map::new();
    let mut total_cuts = 0u64;
    let mut total_streams = 0u64;
    for kind in &kinds {
        let mut merged = Acc::default();
        let mut kj = serde_json::Map::new();
        for mode in [Mode::Ms, Mode::SubMs] {
            let s = kind.n_symbols(mode);
            let max_len = match mode {
                Mode::Ms => pick_len(s, budget_ms, 4, cap_ms),
                Mode::SubMs => pick_len(s, budget_sub, 3, cap_sub),
            };
            let space = SeqSpace::new(s, 1, max_len);
            let total = space.total();
            let (mut acc, done) = mc::par_indices(total, args.threads, 16, |i, acc| {
                if deadline.expired() {
                    return false;
                }
                let mut syms = Vec::new();
                space.decode(i, &mut syms);
                // sub-ms mode: streams whose offsets are all zero are exactly the ms-grid streams
                if mode == Mode::SubMs && syms.iter().all(|x| kind.split(*x).2 == 0) {
                    return true;
                }
                acc.count(&format!("streams|{}|{}", kind.name, mode.name()), 1);
                eval_stream(kind, mode, &syms, i, None, acc);
                if i + 1 == total {
                    let (_, readable) = materialise(kind, &syms, false);
                    acc.samples.push(json!({"kind": kind.name, "mode": mode.name(), "program": kind.src, "stream": readable, "cuts": format!("0..={}", syms.len())}));
                }
                true
            });
            if !done {
                rep.cap_hit(&format!("wall cap during kind {} mode {}", kind.name, mode.name()));
            }
            let get = |acc: &Acc, key: &str| acc.counts.get(&format!("{key}|{}|{}", kind.name, mode.name())).copied().unwrap_or(0);
            let mut mj = json!({
                "alphabet": s, "max_len": max_len,
                "streams": get(&acc, "streams"), "cut_points": get(&acc, "cuts"), "nontrivial": get(&acc, "nontrivial"), "failing": get(&acc, "failing"),
            });
            if mode == Mode::SubMs {
                mj["failing_with_ms_twin_passing"] = json!(acc.counts.get(&format!("sub_ms_failing_but_ms_twin_passing|{}", kind.name)).copied().unwrap_or(0));
                mj["failing_with_ms_twin_failing"] = json!(acc.counts.get(&format!("sub_ms_failing_and_ms_twin_failing|{}", kind.name)).copied().unwrap_or(0));
            }
            total_cuts += get(&acc, "cuts");
            total_streams += get(&acc, "streams");
            kj.insert(mode.name().into(), mj);
            acc.counts.clear();
            merged.merge(acc);
        }
        kinds_json.insert(kind.name.into(), J::Object(kj));
        if merged.nontrivial == 0 && !deadline.was_hit() {
            mc::machinery_error(&format!("program kind {} never emits after a cut: the kind is vacuous, fix the catalogue", kind.name));
        }
        rep.absorb(merged);
    }
    rep.set("cut_points", json!(total_cuts));
    rep.set("streams", json!(total_streams));
    rep.set("program_kinds", json!(kinds.len()));
    rep.set("kinds", J::Object(kinds_json));
    rep.rule = "Exhaustive per program kind (VPL source parsed by the real parser, listed under `kinds`): every stream of length 1..=max_len over the kind's alphabet (payloads × time moves [× sub-ms offset {0,250,750 µs} in mode sub_ms]) × every cut 0..=n. One evaluation = one (stream, cut): checkpoint at the cut → codec::serialize(Json) → codec::deserialize → fresh Engine::load → restore_checkpoint → remaining events, compared per input event (multisets) with the uninterrupted run, plus the engine variables at the end. Non-trivial = cut ≥ 1 and the uninterrupted run emits at least one output after the cut.".into();
    rep.assume("outputs are compared as (event_type, data) with `match_duration_ms` projected away; outputs of one process() call are compared as a multiset, the sequence of calls in order");
    rep.assume("the uninterrupted reference run makes no checkpoint call; a second run that checkpoints before every event must equal it (shape create_checkpoint_changes_outputs) and supplies the checkpoints of all cuts");
    rep.assume("engine variables are not readable from stream expressions in this tree, so kind `variables` observes them through Engine::variables() at the end of the run and drives them with Engine::set_variable");
    rep.assume("`.within()` is excluded from all kinds: the engine compiles sequence patterns in processing-time mode (Instant::now), which a harness cannot own");
    rep.assume("a named pattern with NOT inside SEQ(...) never matches at all in this tree (neither A,B nor A,N,B), so that form is not a kind (a kind that never emits after a cut is rejected as vacuous at run time); negation is covered by the `.not(N)` form");
    rep.assume("kind pattern=trend_aggregate is inside the statement (`any program`) but outside the kinds the statement names; it has its own signature so that it can be scoped separately");
    rep.assume("a failing case whose events before the cut carry a sub-millisecond offset gets the signature C19:timestamp=sub_ms:<kind>, every other failing case C19:<kind>; the ms-grid streams are a subset of every kind's space, so a defect that does not depend on timestamp precision always shows under C19:<kind>");
    rep.finish();
}
