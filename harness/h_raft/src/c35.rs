//! C35 — replicated coordinator state is deterministic and snapshot-equivalent; the stores meet the
//! storage contract of the consensus library (DESIGN.md §3).
//!
//! Part A (histories): every command log up to a length over an alphabet of 22 `ClusterCommand`s on
//! colliding keys is driven through the real `RaftStorage` methods of `MemStore` and `RocksStore`:
//! every batching of the log and every snapshot index (build on one store, install on another,
//! apply the rest). Oracle (differential, no hand-written expected value): the published replicated
//! state, as sorted JSON, equals the state after applying the log entry by entry on a fresh store.
//!
//! Part B (conformance): the 35 public case functions of `openraft::testing::Suite` are called one
//! by one on a fresh store each; a failing case is its own signature.

use crate::util::{self, ent, err_str, Ent, Kind, Meta, Store};
use mc::{Acc, Args, Report};
use openraft::storage::Adaptor;
use openraft::testing::Suite;
use openraft::RaftStorage;
use serde_json::{json, Value};
use std::cell::RefCell;
use std::future::Future;
use std::pin::Pin;
use varpulis_cluster::connector_config::ClusterConnector;
use varpulis_cluster::model_registry::ModelRegistryEntry;
use varpulis_cluster::raft::persistent_store::RocksStore;
use varpulis_cluster::raft::store::MemStore;
use varpulis_cluster::raft::{ClusterCommand, TypeConfig};
use varpulis_cluster::worker::WorkerCapacity;

// ---------------------------------------------------------------------------------------------
// command alphabet: 1–2 instances of each of the 16 command kinds, on colliding keys

pub fn alphabet() -> Vec<ClusterCommand> {
    use ClusterCommand::*;
    let conn = |ty: &str, host: &str| ClusterConnector {
        name: "c1".into(),
        connector_type: ty.into(),
        params: [("host".to_string(), host.to_string()), ("port".to_string(), "1883".to_string())].into_iter().collect(),
        description: None,
    };
    let model = |fmt: &str, size: u64| ModelRegistryEntry {
        name: "mod1".into(),
        s3_key: format!("models/mod1.{fmt}"),
        format: fmt.into(),
        inputs: vec!["x".into()],
        outputs: vec!["y".into()],
        size_bytes: size,
        uploaded_at: "2026-01-01T00:00:00Z".into(),
        description: String::new(),
    };
    vec![
        RegisterWorker { id: "w1".into(), address: "http://a:9000".into(), api_key: "k1".into(), capacity: WorkerCapacity { cpu_cores: 4, pipelines_running: 0, max_pipelines: 8 } },
        RegisterWorker { id: "w1".into(), address: "http://b:9000".into(), api_key: "k2".into(), capacity: WorkerCapacity { cpu_cores: 2, pipelines_running: 1, max_pipelines: 4 } },
        RegisterWorker { id: "w2".into(), address: "http://c:9000".into(), api_key: "k3".into(), capacity: WorkerCapacity { cpu_cores: 8, pipelines_running: 0, max_pipelines: 16 } },
        DeregisterWorker { id: "w1".into() },
        WorkerStatusChanged { id: "w1".into(), status: "unhealthy".into() },
        WorkerStatusChanged { id: "w2".into(), status: "draining".into() },
        WorkerPipelinesUpdated { id: "w1".into(), assigned_pipelines: vec!["p1".into(), "p2".into()] },
        GroupDeployed { name: "g1".into(), group: json!({"name": "g1", "v": 1}) },
        GroupUpdated { name: "g1".into(), group: json!({"name": "g1", "v": 2, "status": "running"}) },
        GroupRemoved { name: "g1".into() },
        MigrationStarted { task: json!({"id": "m1", "status": "started", "pipeline": "p1"}) },
        MigrationStarted { task: json!({"status": "started", "pipeline": "no-id"}) },
        MigrationUpdated { id: "m1".into(), status: "completed".into() },
        MigrationRemoved { id: "m1".into() },
        ConnectorCreated { name: "c1".into(), connector: conn("mqtt", "broker-a") },
        ConnectorUpdated { name: "c1".into(), connector: conn("kafka", "broker-b") },
        ConnectorRemoved { name: "c1".into() },
        ScalingPolicySet { policy: Some(json!({"min_workers": 1, "max_workers": 3})) },
        ScalingPolicySet { policy: None },
        ModelRegistered { name: "mod1".into(), entry: model("onnx", 10) },
        ModelRegistered { name: "mod1".into(), entry: model("onnx2", 20) },
        ModelRemoved { name: "mod1".into() },
    ]
}

/// A log entry of the explored alphabet: a replicated command, or one of the two other payload kinds
/// the state machine sees (blank entries of a new leader, membership changes). The latter were added
/// after seeded change C35 (membership stamped with the end of its apply batch) slipped through a
/// command-only alphabet.
#[derive(Clone, Debug)]
pub enum Sym {
    Cmd(ClusterCommand),
    Blank,
    Member(Vec<u64>),
}

pub fn symbols() -> Vec<Sym> {
    let mut v: Vec<Sym> = alphabet().into_iter().map(Sym::Cmd).collect();
    v.push(Sym::Blank);
    v.push(Sym::Member(vec![1, 2, 3]));
    v.push(Sym::Member(vec![1, 2]));
    v
}

fn kind_name(c: &Sym) -> String {
    match c {
        Sym::Cmd(c) => {
            let v = serde_json::to_value(c).unwrap_or(Value::Null);
            v.as_object().and_then(|o| o.keys().next().cloned()).unwrap_or_else(|| "?".into())
        }
        Sym::Blank => "BlankEntry".into(),
        Sym::Member(_) => "MembershipEntry".into(),
    }
}

fn entries_of(alpha: &[Sym], log: &[usize]) -> Vec<Ent> {
    log.iter()
        .enumerate()
        .map(|(i, c)| match &alpha[*c] {
            Sym::Cmd(cmd) => ent(1, i as u64 + 1, cmd.clone()),
            Sym::Blank => util::blank_ent(1, i as u64 + 1),
            Sym::Member(nodes) => util::membership_ent(1, i as u64 + 1, nodes),
        })
        .collect()
}

/// What is compared: the replicated state the coordinator reads plus the store's own
/// `last_applied_state()` (applied log id, stored membership and the log id it is stamped with).
fn observe(store: &mut Store) -> Result<String, String> {
    let applied = err_str(store.applied_state_json(), "last_applied_state")?;
    Ok(format!("{} | {applied}", store.shared_state_json()))
}

/// Batches of a log of length n for a cut mask: bit j set ⇔ a batch ends after entry j (0-based,
/// j < n-1); the last batch always ends at n.
fn batches(n: usize, mask: u32) -> Vec<(usize, usize)> {
    let mut out = Vec::new();
    let mut start = 0;
    for j in 0..n {
        if j + 1 == n || mask >> j & 1 == 1 {
            out.push((start, j + 1));
            start = j + 1;
        }
    }
    out
}

// ---------------------------------------------------------------------------------------------
// executions on the real stores

struct Blank {
    meta: Meta,
    data: Vec<u8>,
}

/// The snapshot a store that never applied anything builds (real `build_snapshot`); installing it
/// returns a long-lived store to the empty replicated state.
fn blank_snapshot() -> Blank {
    let mut s = Store::fresh(Kind::Mem);
    let (meta, data) = s.build_snapshot().unwrap_or_else(|e| mc::machinery_error(&format!("blank snapshot: {e}")));
    Blank { meta, data }
}

fn run_batching(store: &mut Store, entries: &[Ent], mask: u32) -> Result<String, String> {
    for (a, b) in batches(entries.len(), mask) {
        err_str(store.append(entries[a..b].to_vec()), "append_to_log")?;
        err_str(store.apply(&entries[a..b]), "apply_to_state_machine")?;
    }
    observe(store)
}

fn run_snapshot(src: &mut Store, dst: &mut Store, entries: &[Ent], at: usize) -> Result<String, String> {
    if at > 0 {
        err_str(src.append(entries[..at].to_vec()), "append_to_log (source)")?;
        err_str(src.apply(&entries[..at]), "apply_to_state_machine (source)")?;
    }
    let (meta, data) = err_str(src.build_snapshot(), "build_snapshot")?;
    err_str(dst.install(&meta, &data), "install_snapshot")?;
    if at < entries.len() {
        err_str(dst.append(entries[at..].to_vec()), "append_to_log (target)")?;
        err_str(dst.apply(&entries[at..]), "apply_to_state_machine (target)")?;
    }
    observe(dst)
}

thread_local! {
    /// long-lived RocksStores of this worker (source, target); a DB open costs 20–300 ms here
    static ROCKS: RefCell<Option<(Store, Store)>> = const { RefCell::new(None) };
}

fn with_rocks<T>(f: impl FnOnce(&mut Store, &mut Store) -> T) -> T {
    ROCKS.with(|c| {
        let mut c = c.borrow_mut();
        if c.is_none() {
            *c = Some((Store::fresh(Kind::Rocks), Store::fresh(Kind::Rocks)));
        }
        let (a, b) = c.as_mut().unwrap();
        f(a, b)
    })
}

fn drop_rocks() {
    ROCKS.with(|c| {
        if let Some((a, b)) = c.borrow_mut().take() {
            a.destroy();
            b.destroy();
        }
    });
}

fn reset(store: &mut Store, blank: &Blank) -> Result<(), String> {
    err_str(store.install(&blank.meta, &blank.data), "install_snapshot (empty snapshot, reset)")
}

struct Ctx {
    alpha: Vec<Sym>,
    blank: Blank,
}

fn log_readable(ctx: &Ctx, log: &[usize]) -> Vec<String> {
    log.iter().map(|c| match &ctx.alpha[*c] { Sym::Cmd(cmd) => serde_json::to_string(cmd).unwrap_or_default(), other => format!("{other:?}") }).collect()
}

/// One batching execution; `fresh` = on a new store, otherwise on this worker's long-lived
/// RocksStore returned to the empty state by installing the empty snapshot.
fn exec_batching(ctx: &Ctx, kind: Kind, fresh: bool, entries: &[Ent], mask: u32) -> Result<String, String> {
    if fresh || kind == Kind::Mem {
        let mut s = Store::fresh(kind);
        let r = run_batching(&mut s, entries, mask);
        s.destroy();
        r
    } else {
        with_rocks(|a, _| {
            reset(a, &ctx.blank)?;
            run_batching(a, entries, mask)
        })
    }
}

fn exec_snapshot(ctx: &Ctx, src: Kind, dst: Kind, fresh: bool, entries: &[Ent], at: usize) -> Result<String, String> {
    if fresh {
        let (mut a, mut b) = (Store::fresh(src), Store::fresh(dst));
        let r = run_snapshot(&mut a, &mut b, entries, at);
        a.destroy();
        b.destroy();
        return r;
    }
    match (src, dst) {
        (Kind::Mem, Kind::Mem) => run_snapshot(&mut Store::fresh(Kind::Mem), &mut Store::fresh(Kind::Mem), entries, at),
        (Kind::Mem, Kind::Rocks) => with_rocks(|_, b| {
            reset(b, &ctx.blank)?;
            run_snapshot(&mut Store::fresh(Kind::Mem), b, entries, at)
        }),
        (Kind::Rocks, Kind::Mem) => with_rocks(|a, _| {
            reset(a, &ctx.blank)?;
            run_snapshot(a, &mut Store::fresh(Kind::Mem), entries, at)
        }),
        (Kind::Rocks, Kind::Rocks) => with_rocks(|a, b| {
            reset(a, &ctx.blank)?;
            reset(b, &ctx.blank)?;
            run_snapshot(a, b, entries, at)
        }),
    }
}

const KINDS: [Kind; 2] = [Kind::Mem, Kind::Rocks];

/// Everything for one log. `fresh_rocks`: RocksStore executions on fresh directories (else on the
/// long-lived stores; a failure there is re-run on fresh directories before it is reported).
fn check_log(ctx: &Ctx, log: &[usize], fresh_rocks: bool, acc: &mut Acc) {
    let entries = entries_of(&ctx.alpha, log);
    let n = entries.len();
    let all_cuts: u32 = if n == 0 { 0 } else { (1u32 << (n - 1)) - 1 };
    // reference: entry by entry on a fresh in-memory store
    acc.evaluations += 1;
    let reference = match exec_batching(ctx, Kind::Mem, true, &entries, all_cuts) {
        Ok(s) => s,
        Err(e) => {
            util::add_viol(acc, "C35:error:mem:one_by_one", format!("log {:?}: {e}", log_readable(ctx, log)), json!({"kind":"batching","store":"mem","log":log,"mask":all_cuts}), n);
            return;
        }
    };
    acc.outcome(&reference);
    let last_kind = log.last().map(|c| kind_name(&ctx.alpha[*c])).unwrap_or_else(|| "empty".into());
    for kind in KINDS {
        for mask in 0..=all_cuts {
            acc.evaluations += 1;
            if batches(n, mask).iter().any(|(a, b)| b - a >= 2) {
                acc.nontrivial += 1;
            }
            let fresh = kind == Kind::Mem || fresh_rocks;
            let mut got = exec_batching(ctx, kind, fresh, &entries, mask);
            let mut reused_only = false;
            if !fresh && got.as_deref() != Ok(reference.as_str()) {
                let again = exec_batching(ctx, kind, true, &entries, mask);
                acc.evaluations += 1;
                if again.as_deref() == Ok(reference.as_str()) {
                    reused_only = true;
                } else {
                    got = again;
                }
            }
            if got.as_deref() != Ok(reference.as_str()) {
                let case = json!({"kind":"batching","store":kind.name(),"log":log,"mask":mask,"reused":reused_only,"readable":log_readable(ctx, log)});
                let bs = batches(n, mask);
                match got {
                    Ok(st) => {
                        let sig = if mask == all_cuts { format!("C35:determinism:{}", kind.name()) } else if reused_only { format!("C35:batching:{}:only_after_reset_by_empty_snapshot", kind.name()) } else { format!("C35:batching:{}", kind.name()) };
                        util::add_viol(acc, sig, format!("{} store, log {:?} applied in batches {:?}: state {} but entry-by-entry gives {}", kind.name(), log_readable(ctx, log), bs, st, reference), case, n);
                    }
                    Err(e) => util::add_viol(acc, format!("C35:error:{}:batching", kind.name()), format!("{} store, log {:?} batches {:?}: {e}", kind.name(), log_readable(ctx, log), bs), case, n),
                }
            }
        }
    }
    for src in KINDS {
        for dst in KINDS {
            for at in 0..=n {
                acc.evaluations += 1;
                if at > 0 && at < n {
                    acc.nontrivial += 1;
                }
                let fresh = (src == Kind::Mem && dst == Kind::Mem) || fresh_rocks;
                let mut got = exec_snapshot(ctx, src, dst, fresh, &entries, at);
                let mut reused_only = false;
                if !fresh && got.as_deref() != Ok(reference.as_str()) {
                    let again = exec_snapshot(ctx, src, dst, true, &entries, at);
                    acc.evaluations += 1;
                    if again.as_deref() == Ok(reference.as_str()) {
                        reused_only = true;
                    } else {
                        got = again;
                    }
                }
                if got.as_deref() != Ok(reference.as_str()) {
                    let case = json!({"kind":"snapshot","src":src.name(),"dst":dst.name(),"log":log,"at":at,"reused":reused_only,"readable":log_readable(ctx, log)});
                    let pos = if at == 0 { "at_start" } else if at == n { "at_end" } else { "inside" };
                    match got {
                        Ok(st) => {
                            let sig = if reused_only { format!("C35:snapshot:{}_to_{}:only_after_reset_by_empty_snapshot", src.name(), dst.name()) } else { format!("C35:snapshot:{}_to_{}:{pos}", src.name(), dst.name()) };
                            util::add_viol(acc, sig, format!("snapshot built on a {} store after {at} of {n} entries, installed on a {} store, rest applied (log {:?}, last command {last_kind}): state {} but replaying the whole log gives {}", src.name(), dst.name(), log_readable(ctx, log), st, reference), case, n);
                        }
                        Err(e) => util::add_viol(acc, format!("C35:error:{}_to_{}:snapshot", src.name(), dst.name()), format!("snapshot at {at} of log {:?}: {e}", log_readable(ctx, log)), case, n),
                    }
                }
            }
        }
    }
}

// ---------------------------------------------------------------------------------------------
// Part B: conformance suite, case by case

type Fut = Pin<Box<dyn Future<Output = Result<(), util::SErr>>>>;
type Ad<S> = Adaptor<TypeConfig, S>;
type Builder<S> = fn() -> std::future::Ready<S>;
type Su<S> = Suite<TypeConfig, Ad<S>, Ad<S>, Builder<S>, ()>;

macro_rules! suite_cases {
    ($($name:ident),* $(,)?) => {
        const CASE_NAMES: &[&str] = &[$(stringify!($name)),*, "transfer_snapshot"];
        fn case_fut<S: RaftStorage<TypeConfig>>(name: &str, build: Builder<S>) -> Option<Fut> {
            $(
                if name == stringify!($name) {
                    return Some(Box::pin(async move {
                        let (ls, sm) = Adaptor::new(build().await);
                        Su::<S>::$name(ls, sm).await
                    }));
                }
            )*
            if name == "transfer_snapshot" {
                return Some(Box::pin(async move { Su::<S>::transfer_snapshot(&build).await }));
            }
            None
        }
    };
}

suite_cases!(
    last_membership_in_log_initial,
    last_membership_in_log,
    last_membership_in_log_multi_step,
    get_membership_initial,
    get_membership_from_log_and_empty_sm,
    get_membership_from_empty_log_and_sm,
    get_membership_from_log_le_sm_last_applied,
    get_membership_from_log_gt_sm_last_applied_1,
    get_membership_from_log_gt_sm_last_applied_2,
    get_initial_state_without_init,
    get_initial_state_membership_from_log_and_sm,
    get_initial_state_with_state,
    get_initial_state_last_log_gt_sm,
    get_initial_state_last_log_lt_sm,
    get_initial_state_log_ids,
    get_initial_state_re_apply_committed,
    save_vote,
    get_log_entries,
    limited_get_log_entries,
    try_get_log_entry,
    initial_logs,
    get_log_state,
    get_log_id,
    last_id_in_log,
    last_applied_state,
    purge_logs_upto_0,
    purge_logs_upto_5,
    purge_logs_upto_20,
    delete_logs_since_11,
    delete_logs_since_0,
    append_to_log,
    snapshot_meta,
    apply_single,
    apply_multiple,
);

fn build_mem() -> std::future::Ready<MemStore> {
    std::future::ready(MemStore::new())
}
fn build_rocks() -> std::future::Ready<RocksStore> {
    let dir = util::fresh_dir();
    match RocksStore::open_with_shared_state(dir.to_str().expect("utf-8 path")) {
        Ok((s, _shared)) => std::future::ready(s),
        Err(e) => mc::machinery_error(&format!("cannot open RocksStore at {dir:?}: {e}")),
    }
}

/// Run one suite case on a fresh store; Err(text) = the case failed (assertion or storage error).
fn run_suite_case(kind: Kind, name: &str) -> Result<(), String> {
    let fut = match kind {
        Kind::Mem => case_fut::<MemStore>(name, build_mem),
        Kind::Rocks => case_fut::<RocksStore>(name, build_rocks),
    }
    .unwrap_or_else(|| mc::machinery_error(&format!("unknown suite case {name}")));
    let r = mc::catch(move || {
        let rt = tokio::runtime::Builder::new_current_thread().enable_all().build().expect("tokio runtime");
        rt.block_on(fut)
    });
    util::cleanup_created();
    match r {
        Ok(Ok(())) => Ok(()),
        Ok(Err(e)) => Err(format!("storage error: {e}")),
        Err(p) => {
            let loc = mc::last_panic_location();
            let loc = loc.rsplit_once("/openraft-").map(|(_, r)| format!("openraft-{r}")).unwrap_or(loc);
            let msg: String = p.lines().take(4).collect::<Vec<_>>().join(" | ").chars().take(360).collect();
            Err(format!("assertion failed at {loc}: {msg}"))
        }
    }
}

fn suite_case(kind: Kind, name: &str, acc: &mut Acc) {
    acc.evaluations += 1;
    acc.nontrivial += 1;
    acc.count("suite_cases_run", 1);
    let r = run_suite_case(kind, name);
    if let Err(e) = r {
        acc.count("suite_cases_failed", 1);
        util::add_viol(acc, 
            format!("C35:suite:{}:{name}", kind.name()),
            format!("openraft::testing::Suite::{name} on a fresh {} store: {e}", kind.name()),
            json!({"kind":"suite","store":kind.name(),"case":name}),
            0,
        );
    }
}

// ---------------------------------------------------------------------------------------------

fn self_test() {
    assert_eq!(batches(0, 0), vec![]);
    assert_eq!(batches(1, 0), vec![(0, 1)]);
    assert_eq!(batches(3, 0b00), vec![(0, 3)]);
    assert_eq!(batches(3, 0b01), vec![(0, 1), (1, 3)]);
    assert_eq!(batches(3, 0b10), vec![(0, 2), (2, 3)]);
    assert_eq!(batches(3, 0b11), vec![(0, 1), (1, 2), (2, 3)]);
    let a = alphabet();
    assert_eq!(a.len(), 22);
    let kinds: std::collections::BTreeSet<String> = a.iter().cloned().map(Sym::Cmd).map(|s| kind_name(&s)).collect();
    assert_eq!(kinds.len(), 16, "every ClusterCommand kind is in the alphabet");
    assert_eq!(CASE_NAMES.len(), 35);
}

fn replay(ctx: &Ctx, case: &Value, acc: &mut Acc) {
    let log: Vec<usize> = case["log"].as_array().map(|a| a.iter().map(|v| v.as_u64().unwrap_or(0) as usize).collect()).unwrap_or_default();
    match case["kind"].as_str().unwrap_or("") {
        "suite" => suite_case(Kind::parse(case["store"].as_str().unwrap_or("")), case["case"].as_str().unwrap_or(""), acc),
        "batching" | "snapshot" => {
            // the whole matrix of that log, on fresh stores, then (if the recorded failure was only
            // seen on a long-lived store) on the long-lived stores after a first pass dirtied them
            check_log(ctx, &log, true, acc);
            if case["reused"].as_bool().unwrap_or(false) {
                check_log(ctx, &log, false, acc);
                check_log(ctx, &log, false, acc);
            }
        }
        other => mc::machinery_error(&format!("C35: unknown replay case kind {other:?}")),
    }
}

pub fn run(args: &Args) -> ! {
    let mut rep = Report::new(args, "model_checking");
    mc::quiet_panics();
    self_test();
    util::init_scratch("C35");
    let ctx = Ctx { alpha: symbols(), blank: blank_snapshot() };

    if let Some(path) = &args.replay {
        let case = mc::load_replay(path);
        let mut acc = Acc::default();
        replay(&ctx, &case, &mut acc);
        drop_rocks();
        util::remove_scratch();
        rep.absorb(acc);
        rep.evaluations = rep.evaluations.max(1);
        rep.finish();
    }

    let cap_secs = args.tier.pick(30u64, 1080u64);
    let max_len = args.tier.pick(3usize, 4usize);
    let fresh_len = args.tier.pick(1usize, 2usize);
    let space = mc::SeqSpace::new(ctx.alpha.len(), 0, max_len);
    let fresh_space = mc::SeqSpace::new(ctx.alpha.len(), 0, fresh_len);
    let total = space.total();

    if let Some(spec) = util::child_spec(args) {
        spec.serve(|item, acc| {
            match item["t"].as_str().unwrap_or("") {
                "suite" => suite_case(Kind::parse(item["store"].as_str().unwrap_or("")), item["case"].as_str().unwrap_or(""), acc),
                t @ ("fresh" | "logs") => {
                    let sp = if t == "fresh" { &fresh_space } else { &space };
                    let mut log = Vec::new();
                    for i in item["lo"].as_u64().unwrap_or(0)..item["hi"].as_u64().unwrap_or(0) {
                        sp.decode(i, &mut log);
                        check_log(&ctx, &log, t == "fresh", acc);
                        if t == "logs" && (i == total - 1 || i == total / 2) {
                            acc.samples.push(json!({"log": log_readable(&ctx, &log), "batchings": 1u32 << log.len().saturating_sub(1), "snapshot_indices": log.len() + 1}));
                        }
                    }
                }
                other => mc::machinery_error(&format!("C35 child: unknown item {other:?}")),
            }
            Value::Null
        });
    }

    // determinism of the harness itself: first and last log twice, identical observations
    for i in [0, total - 1] {
        let mut log = Vec::new();
        space.decode(i, &mut log);
        let obs = |fresh: bool| {
            let mut acc = Acc::default();
            check_log(&ctx, &log, fresh, &mut acc);
            let entries = entries_of(&ctx.alpha, &log);
            let st = exec_batching(&ctx, Kind::Rocks, fresh, &entries, 0);
            (st, acc.viol.len(), acc.evaluations)
        };
        if obs(false) != obs(false) || (log.is_empty() && obs(true) != obs(false)) {
            mc::machinery_error(&format!("C35: log {log:?} replayed twice gives different observations"));
        }
    }
    drop_rocks();

    // work items: the conformance cases, the short logs on fresh directories, then every log in
    // ranges; all of it is spread over single-threaded child processes
    let mut items: Vec<Value> = Vec::new();
    for k in KINDS {
        for c in CASE_NAMES {
            items.push(json!({"t": "suite", "store": k.name(), "case": c}));
        }
    }
    let n_suite = items.len();
    let mut lo = 0;
    while lo < fresh_space.total() {
        let hi = (lo + 4).min(fresh_space.total());
        items.push(json!({"t": "fresh", "lo": lo, "hi": hi}));
        lo = hi;
    }
    let mut lo = 0;
    while lo < total {
        let hi = (lo + 128).min(total);
        items.push(json!({"t": "logs", "lo": lo, "hi": hi}));
        lo = hi;
    }
    let merged = util::run_children(args, &items, args.threads, cap_secs.saturating_sub(rep.elapsed().as_secs()).max(1));
    if !merged.complete {
        let done = merged.results.iter().filter(|r| r.is_some()).count();
        rep.cap_hit(&format!("wall cap: {done} of {} work items done (items: {n_suite} suite cases, logs of length ≤ {fresh_len} on fresh directories in ranges of 4, all logs of length ≤ {max_len} in ranges of 128)", items.len()));
    }
    let acc = merged.acc;
    rep.set("suite_cases_per_store", json!(CASE_NAMES.len()));
    rep.set("logs_on_fresh_rocksdb_directories", json!(fresh_space.total()));
    rep.set("logs", json!(total));
    rep.set("command_alphabet", json!(ctx.alpha.len()));
    rep.set("max_log_length", json!(max_len));
    rep.states = acc.outcomes.len() as u64;
    rep.transitions = acc.evaluations;
    rep.traces = acc.evaluations;
    rep.absorb(acc);
    util::remove_scratch();

    rep.rule = format!(
        "Exhaustive: every log of length ≤ {max_len} over 25 entry symbols (22 commands covering all 16 ClusterCommand kinds on colliding keys w1/g1/m1/c1/mod1, a blank entry, two membership entries) × stores {{MemStore, RocksStore}} × every batching (2^(n-1) cut masks; append_to_log + apply_to_state_machine per batch) and × every snapshot index 0..=n × (source store, target store) ∈ {{mem, rocks}}² (apply prefix, build_snapshot, install_snapshot on the other store, apply the rest); the published replicated state (sorted JSON) together with last_applied_state() (applied log id, stored membership and its log id) must equal the entry-by-entry run on a fresh MemStore. Plus the 35 case functions of openraft::testing::Suite (34 store cases + transfer_snapshot) on a fresh MemStore and a fresh RocksStore each. states = distinct final replicated states; transitions = executions. Non-trivial = a batching with a batch of ≥ 2 entries, a snapshot strictly inside the log, or a suite case."
    );
    rep.assume(&format!("RocksStore executions for logs of length ≤ {fresh_len} use a fresh RocksDB directory each; for longer logs each worker keeps two long-lived RocksStores (a DB open costs 20–300 ms on this machine) that are returned to the empty replicated state between executions by installing, through the real install_snapshot, the snapshot an empty store builds; a discrepancy seen on a long-lived store is re-run on fresh directories and reported under its ordinary signature only if it reproduces there"));
    rep.assume("only the replicated CoordinatorState is compared (the property speaks of the replicated state); apply responses, last_applied and membership are covered by the conformance suite part");
    rep.assume("the conformance suite is the fixed suite shipped with openraft 0.9.21, run as is; a case fails if it panics (assertion) or returns a storage error");
    rep.finish();
}
