//! Shared helpers of the Raft harness: a uniform wrapper over the two real stores (`MemStore`,
//! `RocksStore`) that only calls the real `RaftStorage` methods, entry builders, scratch directories
//! and the sorted-JSON projection of the replicated state.

use openraft::storage::LogState;
use openraft::{Entry, EntryPayload, LogId, RaftLogReader, RaftSnapshotBuilder, RaftStorage, SnapshotMeta, StorageError, Vote};
use std::io::Cursor;
use std::path::{Path, PathBuf};
use std::sync::atomic::{AtomicU64, Ordering};
use std::sync::OnceLock;
use varpulis_cluster::raft::persistent_store::RocksStore;
use varpulis_cluster::raft::state_machine::CoordinatorState;
use varpulis_cluster::raft::store::{MemStore, SharedCoordinatorState};
use varpulis_cluster::raft::{ClusterCommand, ClusterResponse, NodeId, RaftNode, TypeConfig};

pub type Ent = Entry<TypeConfig>;
pub type Lid = LogId<NodeId>;
pub type Meta = SnapshotMeta<NodeId, RaftNode>;
pub type SErr = StorageError<NodeId>;

pub fn block_on<F: std::future::Future>(f: F) -> F::Output {
    futures::executor::block_on(f)
}

pub fn lid(term: u64, index: u64) -> Lid {
    openraft::testing::log_id(term, 1, index)
}

pub fn ent(term: u64, index: u64, cmd: ClusterCommand) -> Ent {
    Entry { log_id: lid(term, index), payload: EntryPayload::Normal(cmd) }
}

pub fn blank_ent(term: u64, index: u64) -> Ent {
    Entry { log_id: lid(term, index), payload: EntryPayload::Blank }
}

pub fn membership_ent(term: u64, index: u64, nodes: &[NodeId]) -> Ent {
    let set: std::collections::BTreeSet<NodeId> = nodes.iter().copied().collect();
    let map: std::collections::BTreeMap<NodeId, RaftNode> = nodes.iter().map(|n| (*n, RaftNode { addr: format!("n{n}") })).collect();
    Entry { log_id: lid(term, index), payload: EntryPayload::Membership(openraft::Membership::new(vec![set], map)) }
}

// ---------------------------------------------------------------------------------------------
// scratch directories (RocksDB), one per execution, always below mc::scratch_dir(prop)

static BASE: OnceLock<PathBuf> = OnceLock::new();
static NEXT_DIR: AtomicU64 = AtomicU64::new(0);

pub fn init_scratch(prop: &str) -> PathBuf {
    BASE.get_or_init(|| mc::scratch_dir(prop)).clone()
}

thread_local! {
    static CREATED: std::cell::RefCell<Vec<PathBuf>> = const { std::cell::RefCell::new(Vec::new()) };
}

pub fn fresh_dir() -> PathBuf {
    let base = BASE.get().unwrap_or_else(|| mc::machinery_error("scratch base not initialised"));
    let p = base.join(format!("db{}", NEXT_DIR.fetch_add(1, Ordering::Relaxed)));
    CREATED.with(|c| c.borrow_mut().push(p.clone()));
    p
}

/// Remove every directory handed out by `fresh_dir` on this thread since the last call.
pub fn cleanup_created() {
    for p in CREATED.with(|c| std::mem::take(&mut *c.borrow_mut())) {
        remove_dir(&p);
    }
}

pub fn remove_dir(p: &Path) {
    let _ = std::fs::remove_dir_all(p);
}

pub fn remove_scratch() {
    if let Some(b) = BASE.get() {
        let _ = std::fs::remove_dir_all(b);
    }
}

// ---------------------------------------------------------------------------------------------
// the two real stores behind one face

#[derive(Clone, Copy, Debug, PartialEq, Eq, Hash, PartialOrd, Ord)]
pub enum Kind {
    Mem,
    Rocks,
}

impl Kind {
    pub fn name(self) -> &'static str {
        match self {
            Kind::Mem => "mem",
            Kind::Rocks => "rocks",
        }
    }
    pub fn parse(s: &str) -> Kind {
        match s {
            "mem" => Kind::Mem,
            "rocks" => Kind::Rocks,
            o => mc::machinery_error(&format!("unknown store kind {o}")),
        }
    }
}

enum Inner {
    Mem(MemStore),
    Rocks(RocksStore),
}

pub struct Store {
    inner: Inner,
    pub shared: SharedCoordinatorState,
    /// directory of a RocksStore (removed by `destroy`)
    pub dir: Option<PathBuf>,
}

macro_rules! on {
    ($s:expr, $st:ident => $e:expr) => {
        match &mut $s.inner {
            Inner::Mem($st) => $e,
            Inner::Rocks($st) => $e,
        }
    };
}

impl Store {
    /// A fresh, empty store (RocksStore: in a fresh scratch directory).
    pub fn fresh(kind: Kind) -> Store {
        match kind {
            Kind::Mem => {
                let (s, shared) = MemStore::with_shared_state();
                Store { inner: Inner::Mem(s), shared, dir: None }
            }
            Kind::Rocks => Store::open_rocks(&fresh_dir()),
        }
    }

    /// `RocksStore::open_with_shared_state` on a directory (fresh or left behind by a crash).
    pub fn open_rocks(dir: &Path) -> Store {
        match Store::try_open_rocks(dir) {
            Ok(s) => s,
            Err(e) => mc::machinery_error(&format!("cannot open RocksStore at {dir:?}: {e}")),
        }
    }

    pub fn try_open_rocks(dir: &Path) -> Result<Store, String> {
        let (s, shared) = RocksStore::open_with_shared_state(dir.to_str().expect("utf-8 scratch path"))?;
        Ok(Store { inner: Inner::Rocks(s), shared, dir: Some(dir.to_path_buf()) })
    }

    /// Drop the store (closes the database) and remove its directory.
    pub fn destroy(self) {
        let dir = self.dir.clone();
        drop(self);
        if let Some(d) = dir {
            remove_dir(&d);
        }
    }

    pub fn append(&mut self, entries: Vec<Ent>) -> Result<(), SErr> {
        on!(self, s => block_on(s.append_to_log(entries)))
    }
    pub fn apply(&mut self, entries: &[Ent]) -> Result<Vec<ClusterResponse>, SErr> {
        on!(self, s => block_on(s.apply_to_state_machine(entries)))
    }
    pub fn build_snapshot(&mut self) -> Result<(Meta, Vec<u8>), SErr> {
        on!(self, s => block_on(async {
            let mut b = s.get_snapshot_builder().await;
            let snap = b.build_snapshot().await?;
            Ok((snap.meta, snap.snapshot.into_inner()))
        }))
    }
    pub fn install(&mut self, meta: &Meta, data: &[u8]) -> Result<(), SErr> {
        on!(self, s => block_on(async {
            let mut boxed = s.begin_receiving_snapshot().await?;
            *boxed = Cursor::new(data.to_vec());
            s.install_snapshot(meta, boxed).await
        }))
    }
    pub fn purge(&mut self, upto: Lid) -> Result<(), SErr> {
        on!(self, s => block_on(s.purge_logs_upto(upto)))
    }
    pub fn delete_since(&mut self, since: Lid) -> Result<(), SErr> {
        on!(self, s => block_on(s.delete_conflict_logs_since(since)))
    }
    pub fn save_vote(&mut self, v: &Vote<NodeId>) -> Result<(), SErr> {
        on!(self, s => block_on(s.save_vote(v)))
    }
    pub fn read_vote(&mut self) -> Result<Option<Vote<NodeId>>, SErr> {
        on!(self, s => block_on(s.read_vote()))
    }
    pub fn log_state(&mut self) -> Result<LogState<TypeConfig>, SErr> {
        on!(self, s => block_on(s.get_log_state()))
    }
    pub fn entries(&mut self) -> Result<Vec<Ent>, SErr> {
        on!(self, s => block_on(s.try_get_log_entries(..)))
    }
    pub fn last_applied(&mut self) -> Result<Option<Lid>, SErr> {
        on!(self, s => block_on(s.last_applied_state())).map(|(l, _)| l)
    }
    /// `last_applied_state()` of the store: applied log id and stored membership (with its log id).
    pub fn applied_state_json(&mut self) -> Result<String, SErr> {
        on!(self, s => block_on(s.last_applied_state())).map(|(l, m)| format!("applied={l:?} membership={m:?}"))
    }
    /// The replicated state as the coordinator reads it (the shared copy published by the store).
    pub fn shared_state_json(&self) -> String {
        state_json(&self.shared.read().unwrap_or_else(|e| e.into_inner()))
    }
}

/// Canonical text of a replicated state: JSON with every map sorted by key.
pub fn state_json(st: &CoordinatorState) -> String {
    let v = serde_json::to_value(st).unwrap_or_else(|e| mc::machinery_error(&format!("state not serialisable: {e}")));
    mc::sorted_json(&v).to_string()
}

/// `state` member of a snapshot's bytes, canonical text.
pub fn snapshot_state_json(data: &[u8]) -> Result<String, String> {
    let v: serde_json::Value = serde_json::from_slice(data).map_err(|e| format!("snapshot bytes are not JSON: {e}"))?;
    let st = v.get("state").ok_or("snapshot has no `state` member")?;
    Ok(mc::sorted_json(st).to_string())
}

pub fn err_str<T>(r: Result<T, SErr>, what: &str) -> Result<T, String> {
    r.map_err(|e| format!("{what}: storage error {e}"))
}

// ---------------------------------------------------------------------------------------------
// Child-process fan-out. Opening a RocksDB spawns ~30 threads and does not scale across the
// threads of one process (measured: 4 threads are no faster than 1, 4 processes are 4× faster), so
// the open-heavy enumerations run in single-threaded child processes of the same binary:
//   <bin> Cnn --tier T child <workfile> <k> <n> <seconds> <outfile>
// child k handles the work items i with i % n == k and writes one JSON result file.

use mc::{Acc, Args};
use serde_json::{json, Value};
use std::collections::BTreeMap;

#[derive(Clone, Debug)]
pub struct VRec {
    pub sig: String,
    pub desc: String,
    pub case: Value,
    pub size: usize,
    pub n: u64,
}

thread_local! {
    static RECORDER: std::cell::RefCell<Option<BTreeMap<String, VRec>>> = const { std::cell::RefCell::new(None) };
}

/// Report a violation: into the accumulator and, in a child process, into the recorder that is
/// shipped to the parent.
pub fn add_viol(acc: &mut Acc, sig: impl Into<String>, desc: impl Into<String>, case: Value, size: usize) {
    let (sig, desc) = (sig.into(), desc.into());
    RECORDER.with(|r| {
        if let Some(map) = r.borrow_mut().as_mut() {
            match map.get_mut(&sig) {
                Some(v) => {
                    v.n += 1;
                    if size < v.size {
                        v.desc = desc.clone();
                        v.case = case.clone();
                        v.size = size;
                    }
                }
                None => {
                    map.insert(sig.clone(), VRec { sig: sig.clone(), desc: desc.clone(), case: case.clone(), size, n: 1 });
                }
            }
        }
    });
    acc.viol.add(sig, desc, case, size);
}

pub struct ChildSpec {
    pub items: Vec<Value>,
    pub k: usize,
    pub n: usize,
    pub deadline: mc::Deadline,
    out: PathBuf,
}

/// `Some` when this process was started as a child (see above).
pub fn child_spec(args: &Args) -> Option<ChildSpec> {
    if args.extra.first().map(|s| s.as_str()) != Some("child") {
        return None;
    }
    let e = &args.extra;
    if e.len() != 6 {
        mc::machinery_error("child protocol: child <workfile> <k> <n> <seconds> <outfile>");
    }
    let text = std::fs::read_to_string(&e[1]).unwrap_or_else(|x| mc::machinery_error(&format!("child: work file {}: {x}", e[1])));
    let items: Vec<Value> = serde_json::from_str(&text).unwrap_or_else(|x| mc::machinery_error(&format!("child: work file: {x}")));
    let num = |s: &String| s.parse::<u64>().unwrap_or_else(|_| mc::machinery_error("child protocol: bad number"));
    RECORDER.with(|r| *r.borrow_mut() = Some(BTreeMap::new()));
    Some(ChildSpec { items, k: num(&e[2]) as usize, n: num(&e[3]) as usize, deadline: mc::Deadline::after(std::time::Duration::from_secs(num(&e[4]))), out: PathBuf::from(&e[5]) })
}

impl ChildSpec {
    /// Run `f` on this child's share of the items, write the result file, exit.
    pub fn serve(self, mut f: impl FnMut(&Value, &mut Acc) -> Value) -> ! {
        let mut acc = Acc::default();
        let mut results = Vec::new();
        let mut complete = true;
        for (i, item) in self.items.iter().enumerate() {
            if i % self.n != self.k {
                continue;
            }
            if self.deadline.expired() {
                complete = false;
                break;
            }
            let r = f(item, &mut acc);
            results.push(json!([i, r]));
        }
        let viols: Vec<Value> = RECORDER.with(|r| r.borrow_mut().take()).unwrap_or_default().into_values().map(|v| json!({"sig": v.sig, "desc": v.desc, "case": v.case, "size": v.size, "n": v.n})).collect();
        let out = json!({
            "evaluations": acc.evaluations, "nontrivial": acc.nontrivial, "counts": acc.counts, "samples": acc.samples,
            "outcomes": acc.outcomes.iter().collect::<Vec<_>>(), "viols": viols, "results": results, "complete": complete,
        });
        remove_scratch();
        if let Err(e) = std::fs::write(&self.out, out.to_string()) {
            mc::machinery_error(&format!("child: cannot write {:?}: {e}", self.out));
        }
        std::process::exit(0)
    }
}

pub struct Merged {
    pub acc: Acc,
    /// per work item: the value returned by the child (None = not reached before the deadline)
    pub results: Vec<Option<Value>>,
    pub complete: bool,
}

/// Fan `items` out over `procs` child processes of this binary and merge what they report.
pub fn run_children(args: &Args, items: &[Value], procs: usize, seconds: u64) -> Merged {
    let base = BASE.get().unwrap_or_else(|| mc::machinery_error("scratch base not initialised")).clone();
    static ROUND: AtomicU64 = AtomicU64::new(0);
    let round = ROUND.fetch_add(1, Ordering::Relaxed);
    let work = base.join(format!("work{round}.json"));
    std::fs::write(&work, serde_json::to_string(items).expect("items")).unwrap_or_else(|e| mc::machinery_error(&format!("work file: {e}")));
    let exe = std::env::current_exe().unwrap_or_else(|e| mc::machinery_error(&format!("current_exe: {e}")));
    let procs = procs.clamp(1, items.len().max(1));
    let mut kids = Vec::new();
    for k in 0..procs {
        let out = base.join(format!("out{round}-{k}.json"));
        let child = std::process::Command::new(&exe)
            .arg(&args.prop)
            .args(["--tier", args.tier.name(), "child"])
            .arg(&work)
            .args([k.to_string(), procs.to_string(), seconds.to_string()])
            .arg(&out)
            .env("VERIF_THREADS", "1")
            .stdout(std::process::Stdio::null())
            .spawn()
            .unwrap_or_else(|e| mc::machinery_error(&format!("cannot spawn child: {e}")));
        kids.push((child, out));
    }
    let mut m = Merged { acc: Acc::default(), results: vec![None; items.len()], complete: true };
    for (mut child, out) in kids {
        let status = child.wait().unwrap_or_else(|e| mc::machinery_error(&format!("child wait: {e}")));
        if !status.success() {
            mc::machinery_error(&format!("child process failed with {status}"));
        }
        let text = std::fs::read_to_string(&out).unwrap_or_else(|e| mc::machinery_error(&format!("child result {out:?}: {e}")));
        let v: Value = serde_json::from_str(&text).unwrap_or_else(|e| mc::machinery_error(&format!("child result: {e}")));
        m.acc.evaluations += v["evaluations"].as_u64().unwrap_or(0);
        m.acc.nontrivial += v["nontrivial"].as_u64().unwrap_or(0);
        for (k, n) in v["counts"].as_object().into_iter().flatten() {
            m.acc.count(k, n.as_u64().unwrap_or(0));
        }
        for s in v["samples"].as_array().into_iter().flatten() {
            if m.acc.samples.len() < 6 {
                m.acc.samples.push(s.clone());
            }
        }
        for h in v["outcomes"].as_array().into_iter().flatten() {
            m.acc.outcomes.insert(h.as_u64().unwrap_or(0));
        }
        for x in v["viols"].as_array().into_iter().flatten() {
            for _ in 0..x["n"].as_u64().unwrap_or(1) {
                m.acc.viol.add(x["sig"].as_str().unwrap_or("?"), x["desc"].as_str().unwrap_or(""), x["case"].clone(), x["size"].as_u64().unwrap_or(0) as usize);
            }
        }
        for r in v["results"].as_array().into_iter().flatten() {
            if let Some(i) = r[0].as_u64() {
                m.results[i as usize] = Some(r[1].clone());
            }
        }
        if !v["complete"].as_bool().unwrap_or(false) {
            m.complete = false;
        }
        let _ = std::fs::remove_file(&out);
    }
    let _ = std::fs::remove_file(&work);
    m
}
