//! Raft harness: C35 (replicated state deterministic / snapshot-equivalent / storage contract),
//! C36 (restart recovery of the persistent store), C29 (role enforcement on every HTTP endpoint).
//! One module per property; further modules (c37, c38) plug into the dispatch below.

mod c29;
mod c35;
mod c36;
mod util;

fn main() {
    let args = mc::parse_args();
    match args.prop.as_str() {
        "C29" => c29::run(&args),
        "C35" => c35::run(&args),
        "C36" => c36::run(&args),
        other => mc::machinery_error(&format!("h_raft does not serve {other}")),
    }
}
