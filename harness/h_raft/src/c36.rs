//! C36 — a restarted coordinator recovers exactly its applied Raft state (DESIGN.md §3).
//!
//! Real code: `RocksStore` through its `RaftStorage` methods, then a simulated crash (the
//! `verif_fault` hook unwinds *before* the chosen RocksDB write; the store is dropped) and
//! `RocksStore::open_with_shared_state` on the same directory.
//!
//! Space (E2 + faults): explicit-state search over operation histories. A state is the reference
//! model below; equal models are merged (the model holds everything the store's methods read) and
//! each state is reached on the real store by replaying its first shortest history on a fresh
//! directory. For every transition (state, enabled op) the op is executed once per crash point —
//! crash before its 1st, 2nd, … RocksDB write — and once to completion; after each the directory is
//! reopened and observed.
//!
//! Oracle = reference model of durable writes, independent of how the store lays its data out:
//! a completed operation is durable, the operation in flight may have taken effect or not. So
//! after a restart vote / log / purge position / applied position must each be the value before or
//! after the in-flight operation (exactly the value after, when nothing was in flight), and the
//! replicated state must be the fold of the committed commands up to the applied position *the
//! restarted store itself reports*.

use crate::util::{self, ent, err_str, lid, Ent, Store};
use mc::{Acc, Args, Report};
use openraft::Vote;
use serde_json::{json, Value};
use std::collections::{BTreeMap, HashMap};
use varpulis_cluster::raft::state_machine::CoordinatorState;
use varpulis_cluster::raft::verif_fault;
use varpulis_cluster::raft::ClusterCommand;

// ---------------------------------------------------------------------------------------------
// operations

#[derive(Clone, Copy, Debug, PartialEq, Eq, Hash)]
enum Op {
    Append(u64),
    Apply,
    SaveVote,
    BuildSnapshot,
    /// purge up to (index of the newest snapshot) − k
    Purge(u64),
    /// delete the conflicting suffix starting at (last log index) − k
    DeleteConflict(u64),
    /// install a leader snapshot covering two entries beyond the applied position
    Install,
}

/// simplest first (a breadth-first search keeps the first history that reaches a state)
const OPS: [Op; 10] = [Op::Append(1), Op::Apply, Op::SaveVote, Op::Append(2), Op::BuildSnapshot, Op::Purge(0), Op::DeleteConflict(0), Op::Install, Op::Purge(1), Op::DeleteConflict(1)];

impl Op {
    fn name(self) -> &'static str {
        match self {
            Op::Append(_) => "append",
            Op::Apply => "apply",
            Op::SaveVote => "save_vote",
            Op::BuildSnapshot => "build_snapshot",
            Op::Purge(_) => "purge",
            Op::DeleteConflict(_) => "delete_conflict",
            Op::Install => "install_snapshot",
        }
    }
}
fn op_index(op: Op) -> usize {
    OPS.iter().position(|o| *o == op).expect("op in alphabet")
}
fn readable(history: &[Op]) -> Vec<String> {
    history.iter().map(|o| format!("{o:?}")).collect()
}

/// generation of the entries a leader's snapshot covers beyond what this node applied itself
const LEADER_GEN: u32 = 100;

/// The command of the entry at `index` written in generation `gen` (the generation grows with
/// every conflicting-suffix deletion, so a re-appended entry differs from the deleted one). Every
/// entry deploys its own group: every applied entry leaves a distinguishable mark in the state.
fn cmd(index: u64, gen: u32) -> ClusterCommand {
    ClusterCommand::GroupDeployed { name: format!("g{index}"), group: json!({"i": index, "gen": gen}) }
}
fn entry(index: u64, gen: u32) -> Ent {
    ent(1, index, cmd(index, gen))
}

// ---------------------------------------------------------------------------------------------
// reference model (< 100 lines): what a store that completed every operation holds

#[derive(Clone, Debug, PartialEq, Eq, Hash, Default)]
struct Model {
    /// index → generation of the entry
    log: BTreeMap<u64, u32>,
    /// number of votes saved; the k-th saved vote is Vote::new(k, 1)
    vote: u64,
    purged: Option<u64>,
    applied: Option<u64>,
    /// generation of the command the cluster committed at each index this node applied itself or
    /// received inside a snapshot
    committed: BTreeMap<u64, u32>,
    /// index of the newest snapshot built or installed (logs may be purged up to it)
    snapshot_idx: Option<u64>,
    gen: u32,
}

impl Model {
    fn next_index(&self) -> u64 {
        self.log.keys().next_back().copied().max(self.purged).max(self.applied).unwrap_or(0) + 1
    }
    fn purge_target(&self, k: u64) -> Option<u64> {
        let u = self.snapshot_idx?.checked_sub(k)?;
        (u >= 1 && Some(u) > self.purged).then_some(u)
    }
    fn conflict_start(&self, k: u64) -> Option<u64> {
        let s = self.log.keys().next_back()?.checked_sub(k)?;
        (self.log.contains_key(&s) && Some(s) > self.applied && Some(s) > self.purged).then_some(s)
    }
    fn enabled(&self, op: Op) -> bool {
        match op {
            Op::Append(_) | Op::SaveVote | Op::Install => true,
            Op::Apply => self.log.contains_key(&(self.applied.unwrap_or(0) + 1)),
            Op::BuildSnapshot => self.applied.is_some() && self.snapshot_idx != self.applied,
            Op::Purge(k) => self.purge_target(k).is_some(),
            Op::DeleteConflict(k) => self.conflict_start(k).is_some(),
        }
    }
    /// The model after `op` completed.
    fn step(&self, op: Op) -> Model {
        let mut m = self.clone();
        match op {
            Op::Append(k) => {
                for i in self.next_index()..self.next_index() + k {
                    m.log.insert(i, self.gen);
                }
            }
            Op::Apply => {
                let i = self.applied.unwrap_or(0) + 1;
                m.committed.insert(i, self.log[&i]);
                m.applied = Some(i);
            }
            Op::SaveVote => m.vote += 1,
            Op::BuildSnapshot => m.snapshot_idx = self.applied,
            Op::Purge(k) => {
                let u = self.purge_target(k).expect("enabled");
                m.log.retain(|i, _| *i > u);
                m.purged = Some(u);
            }
            Op::DeleteConflict(k) => {
                let s = self.conflict_start(k).expect("enabled");
                m.log.retain(|i, _| *i < s);
                m.gen += 1;
            }
            Op::Install => {
                let from = self.applied.unwrap_or(0);
                for i in from + 1..=from + 2 {
                    m.committed.insert(i, LEADER_GEN);
                }
                m.applied = Some(from + 2);
                m.snapshot_idx = Some(from + 2);
            }
        }
        m
    }
    /// The replicated state of the committed commands up to `upto` (each deploys group g<i>).
    fn state_upto(&self, upto: Option<u64>) -> String {
        let mut groups = serde_json::Map::new();
        if let Some(l) = upto {
            for (i, g) in self.committed.range(..=l) {
                groups.insert(format!("g{i}"), json!({"i": i, "gen": g}));
            }
        }
        let mut v = serde_json::to_value(CoordinatorState::default()).expect("default state");
        v["pipeline_groups"] = Value::Object(groups);
        mc::sorted_json(&v).to_string()
    }
    /// Can the log this model holds alone reproduce the state up to `upto`? If not, why not — an
    /// attribute of the case, used in the signature.
    fn shape(&self, upto: Option<u64>) -> &'static str {
        let Some(l) = upto else { return "nothing_applied" };
        let missing: Vec<u32> = self.committed.range(..=l).filter(|(i, g)| self.log.get(*i) != Some(*g)).map(|(_, g)| *g).collect();
        if missing.is_empty() {
            "log_complete"
        } else if missing.contains(&LEADER_GEN) {
            "applied_entries_only_in_installed_snapshot"
        } else {
            "applied_entries_purged_after_local_snapshot"
        }
    }
    fn log_json(&self) -> Vec<String> {
        self.log.iter().map(|(i, g)| serde_json::to_string(&entry(*i, *g)).unwrap_or_default()).collect()
    }
    fn vote_json(&self) -> Option<String> {
        (self.vote > 0).then(|| serde_json::to_string(&Vote::<u64>::new(self.vote, 1)).unwrap_or_default())
    }
}

// ---------------------------------------------------------------------------------------------
// running histories on the real store

/// Perform `op` on the real store in model state `pre` (may unwind with the crash payload).
fn perform(store: &mut Store, pre: &Model, op: Op) -> Result<(), String> {
    match op {
        Op::Append(k) => {
            let n = pre.next_index();
            err_str(store.append((n..n + k).map(|i| entry(i, pre.gen)).collect()), "append_to_log")
        }
        Op::Apply => {
            let i = pre.applied.unwrap_or(0) + 1;
            err_str(store.apply(&[entry(i, pre.log[&i])]), "apply_to_state_machine").map(|_| ())
        }
        Op::SaveVote => err_str(store.save_vote(&Vote::new(pre.vote + 1, 1)), "save_vote"),
        Op::BuildSnapshot => err_str(store.build_snapshot(), "build_snapshot").map(|_| ()),
        Op::Purge(k) => err_str(store.purge(lid(1, pre.purge_target(k).ok_or("purge not enabled")?)), "purge_logs_upto"),
        Op::DeleteConflict(k) => err_str(store.delete_since(lid(1, pre.conflict_start(k).ok_or("delete_conflict not enabled")?)), "delete_conflict_logs_since"),
        Op::Install => {
            // the leader's state machine at the snapshot index, produced by the real in-memory store
            let post = pre.step(Op::Install);
            let upto = post.applied.unwrap_or(0);
            let mut leader = Store::fresh(util::Kind::Mem);
            let entries: Vec<Ent> = (1..=upto).map(|i| entry(i, post.committed[&i])).collect();
            err_str(leader.apply(&entries), "leader apply")?;
            let (meta, data) = err_str(leader.build_snapshot(), "leader build_snapshot")?;
            err_str(store.install(&meta, &data), "install_snapshot")
        }
    }
}

/// What a restarted store shows.
#[derive(Debug, Clone, PartialEq, Eq, Hash)]
struct Observed {
    vote: Option<String>,
    entries: Vec<String>,
    purged: Option<u64>,
    applied: Option<u64>,
    applied_text: Option<String>,
    shared_state: String,
    internal_state: String,
}

fn observe(store: &mut Store) -> Result<Observed, String> {
    // the published state first: build_snapshot below is itself a writing operation
    let shared_state = store.shared_state_json();
    let vote = err_str(store.read_vote(), "read_vote")?;
    let entries = err_str(store.entries(), "try_get_log_entries")?;
    let ls = err_str(store.log_state(), "get_log_state")?;
    let applied = err_str(store.last_applied(), "last_applied_state")?;
    let (_, data) = err_str(store.build_snapshot(), "build_snapshot (observation)")?;
    Ok(Observed {
        vote: vote.map(|v| serde_json::to_string(&v).unwrap_or_default()),
        entries: entries.iter().map(|e| serde_json::to_string(e).unwrap_or_default()).collect(),
        purged: ls.last_purged_log_id.map(|l| l.index),
        applied: applied.map(|l| l.index),
        applied_text: applied.map(|l| l.to_string()),
        shared_state,
        internal_state: util::snapshot_state_json(&data)?,
    })
}

#[derive(Debug, PartialEq)]
struct Outcome {
    /// labels of the writes the last op reached (the one crashed before comes last)
    labels: Vec<String>,
    crashed: bool,
    pre: Model,
    post: Model,
    observed: Observed,
}

/// One execution: fresh directory, `history` to completion, then `op` with a crash before its
/// `crash_at`-th write (None = no crash), store dropped, directory reopened and observed.
fn execute(history: &[Op], op: Option<Op>, crash_at: Option<usize>) -> Result<Outcome, String> {
    let dir = util::fresh_dir();
    let r = execute_in(&dir, history, op, crash_at);
    util::cleanup_created();
    r
}

fn execute_in(dir: &std::path::Path, history: &[Op], op: Option<Op>, crash_at: Option<usize>) -> Result<Outcome, String> {
    let mut store = Store::open_rocks(dir);
    let mut model = Model::default();
    for h in history {
        if !model.enabled(*h) {
            return Err(format!("history op {h:?} not enabled in the model"));
        }
        perform(&mut store, &model, *h)?;
        model = model.step(*h);
    }
    let pre = model.clone();
    let mut post = model;
    let mut labels = Vec::new();
    let mut crashed = false;
    if let Some(op) = op {
        if !pre.enabled(op) {
            return Err(format!("op {op:?} not enabled in the model"));
        }
        verif_fault::arm(crash_at);
        let r = std::panic::catch_unwind(std::panic::AssertUnwindSafe(|| perform(&mut store, &pre, op)));
        labels = verif_fault::disarm();
        match r {
            Ok(r) => r?,
            Err(p) => {
                if p.downcast_ref::<&str>() == Some(&verif_fault::CRASH_PAYLOAD) {
                    crashed = true;
                } else {
                    return Err(format!("{} panicked at {}", op.name(), mc::last_panic_location()));
                }
            }
        }
        post = pre.step(op);
    }
    drop(store); // the process is gone; only the directory survives
    let mut reopened = Store::try_open_rocks(dir).map_err(|e| format!("reopen failed: {e}"))?;
    let observed = observe(&mut reopened)?;
    drop(reopened);
    Ok(Outcome { labels, crashed, pre, post, observed })
}

/// Compare an outcome with the oracle; report each failing clause.
fn judge(history: &[Op], op: Option<Op>, crash_at: Option<usize>, out: &Outcome, acc: &mut Acc) {
    let o = &out.observed;
    // nothing in flight: exactly `post`; crash: each item is the one before or after the operation
    let olds = if out.crashed { Some(&out.pre) } else { None };
    let ok = |f: &dyn Fn(&Model) -> bool| f(&out.post) || olds.is_some_and(f);
    let hist_idx: Vec<usize> = history.iter().map(|h| op_index(*h)).collect();
    let crash_label = if out.crashed { out.labels.last().cloned() } else { None };
    let case = json!({"kind":"execution","history":hist_idx,"op":op.map(op_index),"crash_at":crash_at,"readable":{"history":readable(history),"op":op.map(|o| format!("{o:?}")),"crash_before_write":crash_label}});
    let size = history.len() * 8 + crash_at.map(|c| c + 1).unwrap_or(0);
    let point = match (op, out.crashed) {
        (Some(op), true) => format!("crash_in_{}", op.name()),
        (Some(op), false) => format!("after_{}", op.name()),
        (None, _) => "empty_store".to_string(),
    };
    let wher = match (op, out.crashed) {
        (Some(op), true) => format!("history {:?}, then {op:?} crashing before its write {:?}", readable(history), crash_label),
        (Some(op), false) => format!("history {:?}, then {op:?} completed, restart", readable(history)),
        (None, _) => "fresh store, restart".to_string(),
    };
    let expect = |f: &dyn Fn(&Model) -> String| if out.crashed { format!("{} (or, had the operation taken effect, {})", f(&out.pre), f(&out.post)) } else { f(&out.post) };

    if !ok(&|m| m.applied == o.applied) {
        util::add_viol(acc, format!("C36:applied_position:{point}"), format!("{wher}: the applied position must be {}; the restarted store reports {:?}", expect(&|m| format!("{:?}", m.applied)), o.applied_text), case.clone(), size);
    }
    // state: the commands up to the position the restarted store itself reports (committed
    // commands of the in-flight operation included)
    let want_state = out.post.state_upto(o.applied);
    if o.shared_state != want_state || o.internal_state != want_state {
        // which model does the reported position belong to?
        let base = if out.crashed && out.pre.applied == o.applied { &out.pre } else { &out.post };
        let shape = base.shape(o.applied);
        let in_flight = if out.crashed { format!(":{point}") } else { String::new() };
        let sig = if shape == "log_complete" || shape == "nothing_applied" { format!("C36:state:{shape}:{point}") } else { format!("C36:state:{shape}{in_flight}") };
        util::add_viol(acc, sig, format!("{wher}: the restarted store reports applied position {:?}, so its replicated state must be {want_state}; it publishes {} (internal state {})", o.applied_text, o.shared_state, o.internal_state), case.clone(), size);
    }
    if !ok(&|m| m.vote_json() == o.vote) {
        util::add_viol(acc, format!("C36:vote:{point}"), format!("{wher}: the vote must be {}; the restarted store reports {:?}", expect(&|m| format!("{:?}", m.vote_json())), o.vote), case.clone(), size);
    }
    if !ok(&|m| m.log_json() == o.entries) {
        util::add_viol(acc, format!("C36:log:{point}"), format!("{wher}: the log (index → generation) must be {}; the restarted store holds {:?}", expect(&|m| format!("{:?}", m.log)), o.entries), case.clone(), size);
    }
    if !ok(&|m| m.purged == o.purged) {
        util::add_viol(acc, format!("C36:purge_position:{point}"), format!("{wher}: the purge position must be {}; the restarted store reports {:?}", expect(&|m| format!("{:?}", m.purged)), o.purged), case, size);
    }
}

/// All executions of one transition: crash before write 0, 1, … until the op completes.
fn explore_transition(history: &[Op], op: Op, acc: &mut Acc) {
    let mut crash_at = 0usize;
    loop {
        acc.evaluations += 1;
        match execute(history, Some(op), Some(crash_at)) {
            Ok(out) => {
                acc.outcome(&(out.post.clone(), out.crashed, out.labels.len(), out.observed.clone()));
                if out.observed.applied.is_some() {
                    acc.nontrivial += 1;
                }
                judge(history, Some(op), if out.crashed { Some(crash_at) } else { None }, &out, acc);
                if !out.crashed {
                    acc.count("restarts_after_completed_operation", 1);
                    acc.count(&format!("writes_of_{}", op.name()), out.labels.len() as u64);
                    return;
                }
                acc.count("restarts_after_crash", 1);
                acc.count(&format!("crash_before_{}", out.labels.last().cloned().unwrap_or_default()), 1);
                crash_at += 1;
            }
            Err(e) => {
                let hist_idx: Vec<usize> = history.iter().map(|h| op_index(*h)).collect();
                util::add_viol(acc, format!("C36:error:{}", op.name()), format!("history {:?} then {op:?} (crash before write {crash_at}): {e}", readable(history)), json!({"kind":"execution","history":hist_idx,"op":op_index(op),"crash_at":crash_at}), history.len() * 8);
                return;
            }
        }
        if crash_at > 16 {
            mc::machinery_error("C36: an operation issued more than 16 writes");
        }
    }
}

fn self_test() {
    let m0 = Model::default();
    assert!(m0.enabled(Op::Append(1)) && !m0.enabled(Op::Apply) && !m0.enabled(Op::Purge(0)) && !m0.enabled(Op::DeleteConflict(0)) && !m0.enabled(Op::BuildSnapshot));
    let m = m0.step(Op::Append(2));
    assert_eq!(m.log.keys().copied().collect::<Vec<_>>(), vec![1, 2]);
    assert!(m.enabled(Op::Apply) && m.enabled(Op::DeleteConflict(1)));
    let m = m.step(Op::Apply);
    assert_eq!(m.applied, Some(1));
    assert!(m.state_upto(None).contains("\"pipeline_groups\":{}"));
    assert!(m.state_upto(Some(1)).contains("\"g1\":{\"gen\":0,\"i\":1}"));
    assert_eq!(m.shape(Some(1)), "log_complete");
    assert!(!m.enabled(Op::DeleteConflict(1)), "applied entries are never conflict-deleted");
    let d = m.step(Op::DeleteConflict(0)).step(Op::Append(1));
    assert_eq!(d.log, [(1, 0), (2, 1)].into_iter().collect(), "a re-appended entry carries the next generation");
    let m = m.step(Op::BuildSnapshot);
    assert_eq!((m.purge_target(0), m.purge_target(1)), (Some(1), None));
    let m = m.step(Op::Purge(0));
    assert_eq!(m.log.keys().copied().collect::<Vec<_>>(), vec![2]);
    assert_eq!(m.purged, Some(1));
    assert_eq!(m.shape(Some(1)), "applied_entries_purged_after_local_snapshot");
    assert_eq!(m.next_index(), 3);
    let m = m.step(Op::Install);
    assert_eq!(m.applied, Some(3));
    assert_eq!(m.shape(Some(3)), "applied_entries_only_in_installed_snapshot");
    assert!(m.state_upto(Some(3)).contains("\"g3\":{\"gen\":100,\"i\":3}") && m.state_upto(Some(3)).contains("\"g1\":{\"gen\":0,\"i\":1}"));
    assert_eq!(m.next_index(), 4);
    assert_eq!(m0.step(Op::SaveVote).vote_json().unwrap(), serde_json::to_string(&Vote::<u64>::new(1, 1)).unwrap());
}

fn replay(case: &Value, acc: &mut Acc) {
    let history: Vec<Op> = case["history"].as_array().map(|a| a.iter().map(|v| OPS[v.as_u64().unwrap_or(0) as usize]).collect()).unwrap_or_default();
    let op = case["op"].as_u64().map(|i| OPS[i as usize]);
    let crash_at = case["crash_at"].as_u64().map(|c| c as usize);
    acc.evaluations += 1;
    match execute(&history, op, crash_at) {
        Ok(out) => judge(&history, op, crash_at, &out, acc),
        Err(e) => util::add_viol(acc, format!("C36:error:{}", op.map(|o| o.name()).unwrap_or("open")), e, case.clone(), 0),
    }
}

pub fn run(args: &Args) -> ! {
    let mut rep = Report::new(args, "fault_enumeration");
    mc::quiet_panics();
    self_test();
    util::init_scratch("C36");

    if let Some(spec) = util::child_spec(args) {
        spec.serve(|item, acc| {
            let h: Vec<Op> = item["h"].as_array().into_iter().flatten().map(|v| OPS[v.as_u64().unwrap_or(0) as usize]).collect();
            explore_transition(&h, OPS[item["op"].as_u64().unwrap_or(0) as usize], acc);
            Value::Null
        });
    }

    if let Some(path) = &args.replay {
        let case = mc::load_replay(path);
        let mut acc = Acc::default();
        replay(&case, &mut acc);
        util::remove_scratch();
        rep.absorb(acc);
        rep.evaluations = rep.evaluations.max(1);
        rep.finish();
    }

    let cap_secs = args.tier.pick(35u64, 1080u64);
    // quick tier: the seven basic operations; thorough adds the wider variants
    let ops: Vec<Op> = OPS.iter().copied().filter(|o| args.tier == mc::Tier::Thorough || !matches!(o, Op::Append(2) | Op::Purge(1) | Op::DeleteConflict(1))).collect();
    let max_len = std::env::var("C36_MAX_LEN").ok().and_then(|s| s.parse().ok()).unwrap_or(args.tier.pick(4usize, 5usize));

    // the state space, from the model alone: breadth first, first history kept
    let mut seen: HashMap<Model, Vec<Op>> = HashMap::new();
    seen.insert(Model::default(), vec![]);
    let mut frontier: Vec<(Model, Vec<Op>)> = vec![(Model::default(), vec![])];
    let mut work: Vec<(Vec<Op>, Op)> = Vec::new();
    let mut per_depth: Vec<usize> = Vec::new();
    for _depth in 1..=max_len {
        let mut next = Vec::new();
        let before = work.len();
        for (m, h) in &frontier {
            for op in ops.iter().filter(|o| m.enabled(**o)) {
                work.push((h.clone(), *op));
                let s = m.step(*op);
                if !seen.contains_key(&s) {
                    let mut nh = h.clone();
                    nh.push(*op);
                    seen.insert(s.clone(), nh.clone());
                    next.push((s, nh));
                }
            }
        }
        per_depth.push(work.len() - before);
        frontier = next;
    }

    // determinism: the first and the last transition twice, identical observations
    for (h, op) in [work.first().cloned(), work.last().cloned()].into_iter().flatten() {
        for c in [Some(0)] {
            let (a, b) = (execute(&h, Some(op), c), execute(&h, Some(op), c));
            if a != b || a.is_err() {
                mc::machinery_error(&format!("C36: history {h:?} + {op:?} (crash {c:?}) replayed twice gives different observations: {a:?} vs {b:?}"));
            }
        }
    }

    // empty store, restart
    let mut acc0 = Acc::default();
    acc0.evaluations += 1;
    match execute(&[], None, None) {
        Ok(out) => judge(&[], None, None, &out, &mut acc0),
        Err(e) => mc::machinery_error(&format!("C36: empty store: {e}")),
    }
    rep.absorb(acc0);

    // every transition, shortest histories first, in single-threaded child processes
    let items: Vec<Value> = work.iter().map(|(h, op)| json!({"h": h.iter().map(|o| op_index(*o)).collect::<Vec<_>>(), "op": op_index(*op)})).collect();
    let merged = util::run_children(args, &items, args.threads, cap_secs.saturating_sub(rep.elapsed().as_secs()).max(1));
    let explored = merged.results.iter().filter(|r| r.is_some()).count();
    if !merged.complete {
        let mut full_depth = 0;
        let mut lo = 0;
        for (d, n) in per_depth.iter().enumerate() {
            if merged.results[lo..lo + n].iter().all(|r| r.is_some()) {
                full_depth = d + 1;
                lo += n;
            } else {
                break;
            }
        }
        rep.cap_hit(&format!("wall cap: {explored} of {} transitions explored; every history of length ≤ {full_depth} is complete", work.len()));
    }
    rep.absorb(merged.acc);
    util::remove_scratch();
    rep.set("states", json!(seen.len()));
    rep.set("transitions", json!(work.len()));
    rep.set("transitions_explored", json!(explored));
    rep.set("transitions_per_history_length", json!(per_depth));
    rep.set("max_history_length", json!(max_len));
    rep.sample(json!({"history": ["Append(2)", "Apply", "BuildSnapshot"], "op": "Purge(0)", "restarts": ["crash before log:purge", "crash before meta:last_purged", "after completion"]}));
    rep.sample(json!({"history": ["Append(1)", "Apply"], "op": "Install", "restarts": ["crash before each of the 4 writes of install_snapshot", "after completion"]}));
    rep.rule = format!(
        "Exhaustive explicit-state search: operations {{{}}} on RocksStore through its RaftStorage methods; every history of length ≤ {max_len} up to equality of the reference model ({} states, {} transitions); for every transition the last operation is crashed before each of its RocksDB writes (verif_fault hook: unwind, store dropped) and once completed, then the directory is reopened with RocksStore::open_with_shared_state and observed (vote, all log entries, purge position, applied position, published and internal replicated state). Non-trivial = the restarted store reports an applied position.",
        if args.tier == mc::Tier::Thorough { "append 1 or 2 entries, apply the next entry, save_vote, build_snapshot, purge up to the newest snapshot or one entry before it, delete the conflicting suffix (last or last two unapplied entries), install a leader snapshot two entries ahead" } else { "append 1 entry, apply the next entry, save_vote, build_snapshot, purge up to the newest snapshot, delete the last unapplied entry as conflicting, install a leader snapshot two entries ahead" },
        seen.len(),
        work.len()
    );
    rep.assume("a crash is a process crash at a write boundary: every RocksDB write that returned is durable, the write in flight is not (no torn writes, no loss of acknowledged writes; RocksDB's own WAL recovery is trusted)");
    rep.assume("the operation in flight at the crash may have taken effect or not (any prefix of its writes): vote, log, purge position and applied position must each equal the value before or after it; the replicated state must match the applied position the restarted store reports");
    rep.assume("histories follow the Raft contract the store may rely on: entries are applied in index order and only when present in the log, conflicting suffixes are deleted only above the applied position, logs are purged only up to the newest snapshot built or installed; membership entries are not in the alphabet (the property names vote, log, purge position and applied state)");
    rep.assume("states with equal reference models are merged (the model holds log, vote, purge position, applied position, snapshot index: everything the store's methods read); each state is reached on the real store through its first shortest history");
    rep.assume("get_log_state().last_log_id of a restarted store is not compared here (C35 covers the storage contract); the log is compared entry by entry");
    rep.finish();
}
