//! C29 — every API endpoint enforces its required role (DESIGN.md §3).
//!
//! Real code: the complete warp route trees `cluster_routes`, `cluster_routes_with_raft`,
//! `raft_routes` (varpulis-cluster) and `api_routes`, `tenant_admin_routes` (varpulis-cli), driven
//! in-process through `warp::test::request().filter(..)`.
//!
//! Space: every route × every credential kind × every RBAC / admin-key configuration, a fresh
//! fixture (coordinator, tenant manager, Raft node) per request. The route list is extracted from
//! the route builders' source text at run time and compared with the table below; the required
//! roles of the table are compared with the documented tables of docs/api-changelog.md.
//!
//! Oracle: a request is *served* when no filter of the tree rejected it (a handler produced the
//! reply) and the reply is not 401/403. Served ⇒ the credential grants the documented access of the
//! route. Not served ⇒ the coordinator / tenant / Raft projection is unchanged.

use mc::{Acc, Args, Report};
use serde_json::{json, Value};
use std::collections::{BTreeMap, BTreeSet, HashMap};
use std::sync::Arc;
use varpulis_cluster::connector_config::ClusterConnector;
use varpulis_cluster::raft::routes::SharedRaft;
use varpulis_cluster::raft::store::MemStore;
use varpulis_cluster::rbac::{ApiKeyEntry, RbacConfig, Role};
use varpulis_cluster::worker::{WorkerCapacity, WorkerId, WorkerNode};
use varpulis_cluster::SharedCoordinator;
use varpulis_runtime::tenant::{SharedTenantManager, TenantQuota};
use warp::Filter;

use crate::util::add_viol;

const K_ADMIN: &str = "key-admin-7f3a";
const K_OPER: &str = "key-operator-91bc";
const K_VIEW: &str = "key-viewer-55de";
const K_WRONG: &str = "key-unknown-0000";
const K_TENANT: &str = "key-tenant-a1b2";
const SRC: &str = "stream S = E\n    .emit(x: x)\n";

// ---------------------------------------------------------------------------------------------
// route table (the harness's own list; cross-checked against source and documentation)

/// what a route demands, per the documentation
#[derive(Clone, Copy, Debug, PartialEq, Eq)]
enum Need {
    /// cluster API: minimum RBAC role (0 viewer, 1 operator, 2 admin)
    Role(u8),
    /// documented as unauthenticated
    Open,
    /// Raft RPC / management: the admin key when one is configured, open otherwise
    RaftKey,
    /// SaaS API: `x-api-key` of a tenant
    TenantKey,
    /// tenant administration: `x-admin-key` equal to the configured admin key
    AdminKey,
}

#[derive(Clone, Debug)]
struct Route {
    /// route builder whose source defines it
    builder: &'static str,
    method: &'static str,
    /// path with `{}` for parameters
    template: &'static str,
    /// the auth filter the source is expected to show (static cross-check only)
    need: Need,
    /// concrete parameter values, in order
    params: &'static [&'static str],
    body: Option<Value>,
}

fn r(builder: &'static str, method: &'static str, template: &'static str, need: Need, params: &'static [&'static str], body: Option<Value>) -> Route {
    Route { builder, method, template, need, params, body }
}

const VIEWER: Need = Need::Role(0);
const OPERATOR: Need = Need::Role(1);
const ADMIN: Need = Need::Role(2);

fn connector_body(name: &str) -> Value {
    json!({"name": name, "connector_type": "mqtt", "params": {"host": "broker", "port": "1883"}})
}

fn cluster_table() -> Vec<Route> {
    let c = "cluster_routes";
    vec![
        r(c, "POST", "/api/v1/cluster/workers/register", OPERATOR, &[], Some(json!({"worker_id": "w9", "address": "http://127.0.0.1:9", "api_key": "wk", "capacity": {"cpu_cores": 2, "pipelines_running": 0, "max_pipelines": 4}}))),
        r(c, "POST", "/api/v1/cluster/workers/{}/heartbeat", OPERATOR, &["w1"], Some(json!({"events_processed": 7, "pipelines_running": 1}))),
        r(c, "GET", "/api/v1/cluster/workers", VIEWER, &[], None),
        r(c, "GET", "/api/v1/cluster/workers/{}", VIEWER, &["w1"], None),
        r(c, "DELETE", "/api/v1/cluster/workers/{}", ADMIN, &["w1"], None),
        r(c, "POST", "/api/v1/cluster/workers/{}/drain", OPERATOR, &["w1"], Some(json!({"timeout_secs": 1}))),
        r(c, "POST", "/api/v1/cluster/pipeline-groups", OPERATOR, &[], Some(json!({"name": "g9", "pipelines": [{"name": "p1", "source": SRC}]}))),
        r(c, "GET", "/api/v1/cluster/pipeline-groups", VIEWER, &[], None),
        r(c, "GET", "/api/v1/cluster/pipeline-groups/{}", VIEWER, &["g1"], None),
        r(c, "DELETE", "/api/v1/cluster/pipeline-groups/{}", ADMIN, &["g1"], None),
        r(c, "POST", "/api/v1/cluster/pipeline-groups/{}/inject", OPERATOR, &["g1"], Some(json!({"event_type": "E", "fields": {"x": 1}}))),
        r(c, "POST", "/api/v1/cluster/pipeline-groups/{}/inject-batch", OPERATOR, &["g1"], Some(json!({"events_text": "E { x: 1 }"}))),
        r(c, "GET", "/api/v1/cluster/topology", VIEWER, &[], None),
        r(c, "POST", "/api/v1/cluster/validate", VIEWER, &[], Some(json!({"source": SRC}))),
        r(c, "POST", "/api/v1/cluster/rebalance", OPERATOR, &[], None),
        r(c, "GET", "/api/v1/cluster/migrations", VIEWER, &[], None),
        r(c, "GET", "/api/v1/cluster/migrations/{}", VIEWER, &["m1"], None),
        r(c, "POST", "/api/v1/cluster/pipelines/{}/{}/migrate", OPERATOR, &["g1", "p1"], Some(json!({"target_worker_id": "w2"}))),
        r(c, "GET", "/api/v1/cluster/connectors", VIEWER, &[], None),
        r(c, "GET", "/api/v1/cluster/connectors/{}", VIEWER, &["c1"], None),
        r(c, "POST", "/api/v1/cluster/connectors", OPERATOR, &[], Some(connector_body("c9"))),
        r(c, "PUT", "/api/v1/cluster/connectors/{}", OPERATOR, &["c1"], Some(connector_body("c1"))),
        r(c, "DELETE", "/api/v1/cluster/connectors/{}", ADMIN, &["c1"], None),
        r(c, "GET", "/api/v1/cluster/metrics", VIEWER, &[], None),
        r(c, "GET", "/api/v1/cluster/prometheus", Need::Open, &[], None),
        r(c, "GET", "/api/v1/cluster/scaling", VIEWER, &[], None),
        r(c, "GET", "/api/v1/cluster/summary", VIEWER, &[], None),
        r(c, "GET", "/api/v1/cluster/raft", Need::Open, &[], None),
        r(c, "GET", "/api/v1/cluster/models", VIEWER, &[], None),
        r(c, "POST", "/api/v1/cluster/models", OPERATOR, &[], Some(json!({"name": "mod9", "inputs": ["x"], "outputs": ["y"], "data_base64": "AAAA"}))),
        r(c, "DELETE", "/api/v1/cluster/models/{}", ADMIN, &["mod1"], None),
        r(c, "GET", "/api/v1/cluster/models/{}/download", VIEWER, &["mod1"], None),
        r(c, "POST", "/api/v1/cluster/chat", VIEWER, &[], Some(json!({"messages": [{"role": "user", "content": "hi"}]}))),
        r(c, "GET", "/api/v1/cluster/chat/config", VIEWER, &[], None),
        r(c, "PUT", "/api/v1/cluster/chat/config", OPERATOR, &[], Some(json!({"endpoint": "http://127.0.0.1:9", "model": "m", "provider": "openai-compatible"}))),
    ]
}

fn raft_table() -> Vec<Route> {
    let c = "raft_routes";
    vec![
        r(c, "POST", "/raft/vote", Need::RaftKey, &[], Some(Value::Null)),
        r(c, "POST", "/raft/append", Need::RaftKey, &[], Some(Value::Null)),
        r(c, "POST", "/raft/snapshot", Need::RaftKey, &[], Some(Value::Null)),
        r(c, "POST", "/raft/init", Need::RaftKey, &[], Some(json!({"members": {"1": "http://127.0.0.1:9"}}))),
        r(c, "POST", "/raft/add-learner", Need::RaftKey, &[], Some(json!({"node_id": 2, "addr": "http://127.0.0.1:9"}))),
        r(c, "POST", "/raft/change-membership", Need::RaftKey, &[], Some(json!({"members": [1]}))),
        r(c, "GET", "/raft/metrics", Need::Open, &[], None),
    ]
}

/// `{}` parameters of the SaaS routes are the fixture pipeline / tenant ids, filled in at run time.
fn cli_table() -> Vec<Route> {
    let c = "api_routes";
    let t = "tenant_admin_routes";
    let ev = json!({"event_type": "E", "fields": {"x": 1}});
    vec![
        r(c, "POST", "/api/v1/pipelines", Need::TenantKey, &[], Some(json!({"name": "p9", "source": SRC}))),
        r(c, "GET", "/api/v1/pipelines", Need::TenantKey, &[], None),
        r(c, "GET", "/api/v1/pipelines/{}", Need::TenantKey, &["$pipeline"], None),
        r(c, "DELETE", "/api/v1/pipelines/{}", Need::TenantKey, &["$pipeline"], None),
        r(c, "POST", "/api/v1/pipelines/{}/events", Need::TenantKey, &["$pipeline"], Some(ev.clone())),
        r(c, "POST", "/api/v1/pipelines/{}/events-batch", Need::TenantKey, &["$pipeline"], Some(json!({"events": [ev]}))),
        r(c, "POST", "/api/v1/pipelines/{}/checkpoint", Need::TenantKey, &["$pipeline"], None),
        r(c, "POST", "/api/v1/pipelines/{}/restore", Need::TenantKey, &["$pipeline"], Some(json!("$checkpoint"))),
        r(c, "GET", "/api/v1/pipelines/{}/metrics", Need::TenantKey, &["$pipeline"], None),
        r(c, "POST", "/api/v1/pipelines/{}/reload", Need::TenantKey, &["$pipeline"], Some(json!({"source": "stream S = E\n    .emit(y: x)\n"}))),
        r(c, "GET", "/api/v1/usage", Need::TenantKey, &[], None),
        r(c, "GET", "/api/v1/pipelines/{}/logs", Need::TenantKey, &["$pipeline"], None),
        r(t, "POST", "/api/v1/tenants", Need::AdminKey, &[], Some(json!({"name": "t9"}))),
        r(t, "GET", "/api/v1/tenants", Need::AdminKey, &[], None),
        r(t, "GET", "/api/v1/tenants/{}", Need::AdminKey, &["$tenant"], None),
        r(t, "DELETE", "/api/v1/tenants/{}", Need::AdminKey, &["$tenant"], None),
    ]
}

// ---------------------------------------------------------------------------------------------
// route extraction from the source text of a route builder

#[derive(Clone, Debug, PartialEq, Eq, PartialOrd, Ord)]
struct SrcRoute {
    method: String,
    template: String,
    /// auth filter found in the chain: "rbac:Viewer", "raft_key", "api_key", "admin_key", "none"
    auth: String,
}

fn fn_body<'a>(text: &'a str, name: &str) -> Result<&'a str, String> {
    let start = text.find(&format!("pub fn {name}(")).ok_or(format!("`pub fn {name}(` not found"))?;
    let rest = &text[start..];
    let end = rest.find("\n}\n").ok_or(format!("end of fn {name} not found"))?;
    Ok(&rest[..end])
}

/// path segments (`warp::path("x")` literals, `warp::path::param` as `{}`) in order of appearance
fn segments(chunk: &str) -> Vec<String> {
    let mut out = Vec::new();
    let mut i = 0;
    while let Some(p) = chunk[i..].find("warp::path") {
        let at = i + p + "warp::path".len();
        let rest = &chunk[at..];
        if let Some(lit) = rest.strip_prefix("(\"") {
            if let Some(e) = lit.find('"') {
                out.push(lit[..e].to_string());
            }
        } else if rest.starts_with("::param") {
            out.push("{}".to_string());
        }
        i = at;
    }
    out
}

fn extract_routes(text: &str, builder: &str) -> Result<Vec<SrcRoute>, String> {
    let body = fn_body(text, builder)?;
    // statements `let name = base ... ;`
    let mut prefixes: HashMap<String, Vec<String>> = HashMap::new();
    let mut routes = Vec::new();
    for stmt in body.split(";\n") {
        let Some(l) = stmt.find("let ") else { continue };
        let decl = &stmt[l + 4..];
        let Some(eq) = decl.find('=') else { continue };
        let name = decl[..eq].trim().to_string();
        let rhs = decl[eq + 1..].trim_start();
        if !rhs.contains(".and_then(") {
            if rhs.starts_with("warp::path") {
                prefixes.insert(name, segments(rhs));
            }
            continue;
        }
        if rhs.starts_with("warp::addr") || name == "rate_limit_filter" {
            continue; // the rate-limit filter, not a route
        }
        let base: String = rhs.chars().take_while(|c| c.is_alphanumeric() || *c == '_').collect();
        let mut segs = prefixes.get(&base).cloned().ok_or(format!("route `{name}`: unknown base filter `{base}`"))?;
        segs.extend(segments(rhs));
        let methods: Vec<&str> = ["get", "post", "put", "delete", "patch", "head"].into_iter().filter(|m| rhs.contains(&format!("warp::{m}()"))).collect();
        if methods.len() != 1 {
            return Err(format!("route `{name}`: expected exactly one method filter, found {methods:?}"));
        }
        let auth = if let Some(p) = rhs.find("with_rbac(") {
            let role = rhs[p..].split("Role::").nth(1).map(|s| s.chars().take_while(|c| c.is_alphanumeric()).collect::<String>()).unwrap_or_default();
            format!("rbac:{role}")
        } else if rhs.contains("with_optional_raft_auth(") {
            "raft_key".to_string()
        } else if rhs.contains("with_admin_key()") {
            "admin_key".to_string()
        } else if rhs.contains("with_api_key()") {
            "api_key".to_string()
        } else {
            "none".to_string()
        };
        routes.push(SrcRoute { method: methods[0].to_uppercase(), template: format!("/{}", segs.join("/")), auth });
    }
    // nothing may escape the statement parser: every handler hook in the builder is one route
    let hooks = body.matches(".and_then(handle").count();
    if hooks != routes.len() {
        return Err(format!("{builder}: {hooks} `.and_then(handle…)` in the source but {} routes extracted", routes.len()));
    }
    Ok(routes)
}

fn need_auth_text(n: Need) -> String {
    match n {
        Need::Role(0) => "rbac:Viewer".into(),
        Need::Role(1) => "rbac:Operator".into(),
        Need::Role(_) => "rbac:Admin".into(),
        Need::Open => "none".into(),
        Need::RaftKey => "raft_key".into(),
        Need::TenantKey => "api_key".into(),
        Need::AdminKey => "admin_key".into(),
    }
}

/// documented (method, path-with-{}) → third column, from the markdown tables
fn documented(text: &str) -> BTreeMap<(String, String), String> {
    let mut out = BTreeMap::new();
    for line in text.lines() {
        let cols: Vec<&str> = line.split('|').map(|c| c.trim()).collect();
        if cols.len() < 5 {
            continue;
        }
        let (m, p, role) = (cols[1].trim_matches('`'), cols[2].trim_matches('`'), cols[3]);
        if !["GET", "POST", "PUT", "DELETE"].contains(&m) || !p.starts_with("/api/v1") {
            continue;
        }
        let mut templ = String::new();
        let mut depth = 0;
        for ch in p.chars() {
            match ch {
                '{' => {
                    depth += 1;
                    templ.push_str("{}");
                }
                '}' => depth -= 1,
                c if depth == 0 => templ.push(c),
                _ => {}
            }
        }
        out.insert((m.to_string(), templ), role.trim_matches('`').to_string());
    }
    out
}

fn need_doc_text(n: Need) -> &'static str {
    match n {
        Need::Role(0) => "Viewer",
        Need::Role(1) => "Operator",
        Need::Role(_) => "Admin",
        Need::Open => "(none)",
        Need::RaftKey => "",
        Need::TenantKey => "x-api-key",
        Need::AdminKey => "x-admin-key",
    }
}

// ---------------------------------------------------------------------------------------------
// credentials, configurations, oracle

#[derive(Clone, Copy, Debug, PartialEq, Eq, Hash)]
enum Cred {
    None,
    Wrong,
    Viewer,
    Operator,
    Admin,
    Tenant,
}
const CREDS: [Cred; 6] = [Cred::None, Cred::Wrong, Cred::Viewer, Cred::Operator, Cred::Admin, Cred::Tenant];

impl Cred {
    fn key(self) -> Option<&'static str> {
        match self {
            Cred::None => None,
            Cred::Wrong => Some(K_WRONG),
            Cred::Viewer => Some(K_VIEW),
            Cred::Operator => Some(K_OPER),
            Cred::Admin => Some(K_ADMIN),
            Cred::Tenant => Some(K_TENANT),
        }
    }
    fn name(self) -> &'static str {
        match self {
            Cred::None => "none",
            Cred::Wrong => "wrong",
            Cred::Viewer => "viewer",
            Cred::Operator => "operator",
            Cred::Admin => "admin",
            Cred::Tenant => "tenant_key",
        }
    }
}

/// where a key is presented (the SaaS surface reads two headers)
#[derive(Clone, Copy, Debug, PartialEq, Eq, Hash)]
enum Place {
    ApiKey,
    AdminKey,
    Both,
}
impl Place {
    fn name(self) -> &'static str {
        match self {
            Place::ApiKey => "x-api-key",
            Place::AdminKey => "x-admin-key",
            Place::Both => "both_headers",
        }
    }
}

#[derive(Clone, Copy, Debug, PartialEq, Eq, Hash)]
enum Rbac {
    /// `RbacConfig::single_key(admin)`
    SingleKey,
    /// `RbacConfig::from_file` with admin, operator and viewer keys
    MultiKeyFile,
    /// `RbacConfig::disabled()`: anonymous allowed, no keys
    Disabled,
    /// multi-key with `allow_anonymous = true`, anonymous role viewer
    MultiKeyAnonymousViewer,
    /// multi-key with operator and viewer keys only: no admin key, so no Raft admin key
    MultiKeyNoAdmin,
}
const RBACS: [Rbac; 5] = [Rbac::SingleKey, Rbac::MultiKeyFile, Rbac::Disabled, Rbac::MultiKeyAnonymousViewer, Rbac::MultiKeyNoAdmin];

impl Rbac {
    fn name(self) -> &'static str {
        match self {
            Rbac::SingleKey => "single_key",
            Rbac::MultiKeyFile => "multi_key_file",
            Rbac::Disabled => "anonymous_allowed_no_keys",
            Rbac::MultiKeyAnonymousViewer => "multi_key_anonymous_viewer",
            Rbac::MultiKeyNoAdmin => "multi_key_without_admin_key",
        }
    }
    fn build(self, scratch: &std::path::Path) -> RbacConfig {
        let entry = |role| ApiKeyEntry { role, name: None };
        let three = || -> HashMap<String, ApiKeyEntry> { [(K_ADMIN.to_string(), entry(Role::Admin)), (K_OPER.to_string(), entry(Role::Operator)), (K_VIEW.to_string(), entry(Role::Viewer))].into_iter().collect() };
        match self {
            Rbac::SingleKey => RbacConfig::single_key(K_ADMIN.to_string()),
            Rbac::MultiKeyFile => {
                let p = scratch.join(format!("keys-{:?}.json", std::thread::current().id()));
                let file = json!({"keys": [{"key": K_ADMIN, "role": "admin", "name": "a"}, {"key": K_OPER, "role": "operator"}, {"key": K_VIEW, "role": "viewer", "name": "v"}]});
                std::fs::write(&p, file.to_string()).unwrap_or_else(|e| mc::machinery_error(&format!("keys file: {e}")));
                let c = RbacConfig::from_file(&p).unwrap_or_else(|e| mc::machinery_error(&format!("RbacConfig::from_file: {e}")));
                let _ = std::fs::remove_file(&p);
                c
            }
            Rbac::Disabled => RbacConfig::disabled(),
            Rbac::MultiKeyAnonymousViewer => {
                let mut c = RbacConfig::multi_key(three());
                c.allow_anonymous = true;
                c.anonymous_role = Role::Viewer;
                c
            }
            Rbac::MultiKeyNoAdmin => RbacConfig::multi_key([(K_OPER.to_string(), entry(Role::Operator)), (K_VIEW.to_string(), entry(Role::Viewer))].into_iter().collect()),
        }
    }
    /// the admin key the Raft routes inherit from this configuration
    fn raft_key(self) -> Option<&'static str> {
        match self {
            Rbac::SingleKey | Rbac::MultiKeyFile | Rbac::MultiKeyAnonymousViewer => Some(K_ADMIN),
            Rbac::Disabled | Rbac::MultiKeyNoAdmin => None,
        }
    }
}

/// What the documentation lets a credential do under a configuration.
#[derive(Clone, Copy, Debug, PartialEq, Eq)]
enum Grant {
    /// no access at all
    Nothing,
    /// an RBAC role (0 viewer, 1 operator, 2 admin)
    Level(u8),
    /// the text does not say whether an unknown key counts as anonymous: at most this level
    AtMost(u8),
}

fn granted(rbac: Rbac, cred: Cred) -> Grant {
    let own = match cred {
        Cred::Viewer => Some(0),
        Cred::Operator => Some(1),
        Cred::Admin => Some(2),
        _ => None,
    };
    match rbac {
        Rbac::SingleKey => if cred == Cred::Admin { Grant::Level(2) } else { Grant::Nothing },
        Rbac::MultiKeyFile => own.map(Grant::Level).unwrap_or(Grant::Nothing),
        Rbac::Disabled => Grant::Level(2),
        Rbac::MultiKeyAnonymousViewer => match (own, cred) {
            (Some(l), _) => Grant::Level(l),
            (None, Cred::None) => Grant::Level(0),
            _ => Grant::AtMost(0),
        },
        Rbac::MultiKeyNoAdmin => match cred {
            Cred::Viewer => Grant::Level(0),
            Cred::Operator => Grant::Level(1),
            _ => Grant::Nothing,
        },
    }
}

#[derive(Clone, Copy, Debug, PartialEq, Eq)]
enum Verdict {
    MustRefuse,
    MayServe,
    /// the documentation is silent (unknown key while anonymous access is allowed)
    DontCare,
}

/// cluster + Raft surfaces: key in `x-api-key`
fn verdict_cluster(need: Need, rbac: Rbac, raft_key: Option<&str>, cred: Cred) -> Verdict {
    match need {
        Need::Open => Verdict::MayServe,
        Need::Role(min) => match granted(rbac, cred) {
            Grant::Level(l) if l >= min => Verdict::MayServe,
            Grant::AtMost(l) if l >= min => Verdict::DontCare,
            _ => Verdict::MustRefuse,
        },
        Need::RaftKey => match raft_key {
            None => Verdict::MayServe,
            Some(k) => if cred.key() == Some(k) { Verdict::MayServe } else { Verdict::MustRefuse },
        },
        Need::TenantKey | Need::AdminKey => Verdict::MustRefuse,
    }
}

/// SaaS surface: tenant routes want the tenant's key in `x-api-key`, admin routes the configured
/// admin key in `x-admin-key`
fn verdict_cli(need: Need, admin_configured: bool, cred: Cred, place: Place) -> Verdict {
    let in_api = matches!(place, Place::ApiKey | Place::Both);
    let in_admin = matches!(place, Place::AdminKey | Place::Both);
    let ok = match need {
        Need::TenantKey => in_api && cred == Cred::Tenant,
        Need::AdminKey => admin_configured && in_admin && cred == Cred::Admin,
        _ => false,
    };
    if ok { Verdict::MayServe } else { Verdict::MustRefuse }
}

// ---------------------------------------------------------------------------------------------
// fixtures and projections

type Routes = warp::filters::BoxedFilter<(warp::reply::Response,)>;

fn boxed<F, R>(f: F) -> Routes
where
    F: Filter<Extract = (R,), Error = warp::Rejection> + Clone + Send + Sync + 'static,
    R: warp::Reply + 'static,
{
    f.map(|r: R| r.into_response()).boxed()
}

fn seeded_coordinator() -> SharedCoordinator {
    let mut c = varpulis_cluster::coordinator::Coordinator::new();
    for (id, n) in [("w1", 3u64), ("w2", 5)] {
        c.register_worker(WorkerNode {
            id: WorkerId(id.to_string()),
            address: "http://127.0.0.1:9".into(),
            api_key: format!("wk-{id}"),
            status: varpulis_cluster::worker::WorkerStatus::Ready,
            capacity: WorkerCapacity { cpu_cores: 2, pipelines_running: 0, max_pipelines: 4 },
            last_heartbeat: std::time::Instant::now(),
            assigned_pipelines: Vec::new(),
            events_processed: n,
        });
    }
    let conn = ClusterConnector { name: "c1".into(), connector_type: "mqtt".into(), params: [("host".to_string(), "broker".to_string())].into_iter().collect(), description: None };
    if let Err(e) = c.create_connector(conn) {
        mc::machinery_error(&format!("fixture connector: {e}"));
    }
    c.model_registry.insert(
        "mod1".into(),
        varpulis_cluster::model_registry::ModelRegistryEntry { name: "mod1".into(), s3_key: "models/mod1.onnx".into(), format: "onnx".into(), inputs: vec!["x".into()], outputs: vec!["y".into()], size_bytes: 3, uploaded_at: "2026-01-01T00:00:00Z".into(), description: String::new() },
    );
    Arc::new(tokio::sync::RwLock::new(c))
}

fn sorted_debug<K: std::fmt::Debug, V>(it: impl Iterator<Item = (K, V)>, f: impl Fn(V) -> String) -> Vec<String> {
    let mut v: Vec<String> = it.map(|(k, x)| format!("{k:?} => {}", f(x))).collect();
    v.sort();
    v
}

async fn project_coordinator(c: &SharedCoordinator) -> String {
    let c = c.read().await;
    let workers = sorted_debug(c.workers.iter(), |w| format!("{} {:?} {:?} {:?} {:?} {} {:?}", w.address, w.api_key, w.status, w.capacity, w.assigned_pipelines, w.events_processed, w.last_heartbeat));
    let groups = sorted_debug(c.pipeline_groups.iter(), |g| format!("{g:?}"));
    let connectors = sorted_debug(c.connectors.iter(), |x| format!("{x:?}"));
    let metrics = sorted_debug(c.worker_metrics.iter(), |x| format!("{x:?}"));
    let migrations = sorted_debug(c.active_migrations.iter(), |x| format!("{x:?}"));
    let models = sorted_debug(c.model_registry.iter(), |x| format!("{x:?}"));
    format!("workers={workers:?} groups={groups:?} connectors={connectors:?} metrics={metrics:?} migrations={migrations:?} models={models:?} rebalance={} policy={:?} llm={:?} ha={:?}", c.pending_rebalance, c.scaling_policy, c.llm_config, c.ha_role)
}

async fn project_tenants(m: &SharedTenantManager) -> String {
    let m = m.read().await;
    let mut ts: Vec<String> = m
        .list_tenants()
        .iter()
        .map(|t| {
            let mut ps: Vec<String> = t.pipelines.values().map(|p| format!("{}|{}|{}|{:?}", p.id, p.name, p.source, p.status)).collect();
            ps.sort();
            format!("{:?} {} {} {:?} events={} out={} active={} pipelines={ps:?}", t.id, t.name, t.api_key, t.quota, t.usage.events_processed, t.usage.output_events_emitted, t.usage.active_pipelines)
        })
        .collect();
    ts.sort();
    format!("{ts:?}")
}

async fn project_raft(r: &SharedRaft) -> String {
    match r.with_raft_state(|st| format!("{st:?}")).await {
        Ok(s) => s,
        Err(e) => format!("raft core stopped: {e}"),
    }
}

async fn new_raft() -> SharedRaft {
    let config = openraft::Config { enable_tick: false, enable_heartbeat: false, enable_elect: false, ..Default::default() };
    let config = Arc::new(config.validate().unwrap_or_else(|e| mc::machinery_error(&format!("raft config: {e}"))));
    let (log_store, sm) = openraft::storage::Adaptor::new(MemStore::new());
    let net = varpulis_cluster::raft::network::NetworkFactory::new(None);
    let raft = openraft::Raft::new(1, config, net, log_store, sm).await.unwrap_or_else(|e| mc::machinery_error(&format!("Raft::new: {e}")));
    Arc::new(raft)
}

/// Bodies of the Raft RPC routes, serialised from the real request types.
fn raft_body(template: &str) -> Option<Value> {
    use openraft::raft::{AppendEntriesRequest, InstallSnapshotRequest, VoteRequest};
    use varpulis_cluster::raft::TypeConfig;
    let v = match template {
        "/raft/vote" => serde_json::to_value(VoteRequest::<u64> { vote: openraft::Vote::new(1, 2), last_log_id: None }),
        "/raft/append" => serde_json::to_value(AppendEntriesRequest::<TypeConfig> { vote: openraft::Vote::new_committed(1, 2), prev_log_id: None, entries: vec![crate::util::ent(1, 0, varpulis_cluster::raft::ClusterCommand::GroupRemoved { name: "gx".into() })], leader_commit: None }),
        "/raft/snapshot" => {
            let mut leader = crate::util::Store::fresh(crate::util::Kind::Mem);
            let entries = vec![crate::util::ent(1, 1, varpulis_cluster::raft::ClusterCommand::GroupRemoved { name: "gx".into() })];
            let _ = leader.apply(&entries);
            let (meta, data) = leader.build_snapshot().unwrap_or_else(|e| mc::machinery_error(&format!("snapshot body: {e}")));
            serde_json::to_value(InstallSnapshotRequest::<TypeConfig> { vote: openraft::Vote::new_committed(1, 2), meta, offset: 0, data, done: true })
        }
        _ => return None,
    };
    Some(v.unwrap_or_else(|e| mc::machinery_error(&format!("raft body: {e}"))))
}

// ---------------------------------------------------------------------------------------------
// one execution

#[derive(Clone, Copy, Debug, PartialEq, Eq, Hash)]
enum Surface {
    Cluster(Rbac),
    ClusterWithRaft(Rbac),
    RaftOnly(bool),
    Cli(bool),
    TenantAdminOnly(bool),
}

impl Surface {
    fn name(self) -> String {
        match self {
            Surface::Cluster(r) => format!("cluster_routes/{}", r.name()),
            Surface::ClusterWithRaft(r) => format!("cluster_routes_with_raft/{}", r.name()),
            Surface::RaftOnly(k) => format!("raft_routes/{}", if k { "admin_key_set" } else { "admin_key_unset" }),
            Surface::Cli(k) => format!("api_routes/{}", if k { "admin_key_set" } else { "admin_key_unset" }),
            Surface::TenantAdminOnly(k) => format!("tenant_admin_routes/{}", if k { "admin_key_set" } else { "admin_key_unset" }),
        }
    }
    fn short(self) -> &'static str {
        match self {
            Surface::Cluster(_) => "cluster_routes",
            Surface::ClusterWithRaft(_) => "cluster_routes_with_raft",
            Surface::RaftOnly(_) => "raft_routes",
            Surface::Cli(_) => "api_routes",
            Surface::TenantAdminOnly(_) => "tenant_admin_routes",
        }
    }
}

#[derive(Clone, Debug)]
struct Case {
    surface: Surface,
    route: Route,
    cred: Cred,
    place: Place,
}

#[derive(Debug, Clone, PartialEq, Eq, Hash)]
struct Obs {
    /// a handler produced the reply (no filter of the tree rejected the request)
    handled: bool,
    status: u16,
    rejection: String,
    served: bool,
    changed: bool,
}

struct Fixture {
    routes: Option<Routes>,
    coord: Option<SharedCoordinator>,
    tenants: Option<SharedTenantManager>,
    raft: Option<SharedRaft>,
    pipeline: String,
    tenant: String,
    checkpoint: Value,
}

async fn fixture(surface: Surface, scratch: &std::path::Path) -> Fixture {
    let mut fx = Fixture { routes: None, coord: None, tenants: None, raft: None, pipeline: String::new(), tenant: String::new(), checkpoint: Value::Null };
    match surface {
        Surface::Cluster(rb) => {
            let c = seeded_coordinator();
            fx.routes = Some(boxed(varpulis_cluster::cluster_routes(c.clone(), Arc::new(rb.build(scratch)), None)));
            fx.coord = Some(c);
        }
        Surface::ClusterWithRaft(rb) => {
            let c = seeded_coordinator();
            let raft = new_raft().await;
            fx.routes = Some(boxed(varpulis_cluster::api::cluster_routes_with_raft(c.clone(), Arc::new(rb.build(scratch)), raft.clone(), None)));
            fx.coord = Some(c);
            fx.raft = Some(raft);
        }
        Surface::RaftOnly(key) => {
            let raft = new_raft().await;
            fx.routes = Some(boxed(varpulis_cluster::raft::routes::raft_routes(raft.clone(), key.then(|| K_ADMIN.to_string()))));
            fx.raft = Some(raft);
        }
        Surface::Cli(key) | Surface::TenantAdminOnly(key) => {
            let mgr = varpulis_runtime::tenant::shared_tenant_manager();
            {
                let mut m = mgr.write().await;
                let tid = m.create_tenant("t1".into(), K_TENANT.into(), TenantQuota::default()).unwrap_or_else(|e| mc::machinery_error(&format!("fixture tenant: {e}")));
                fx.tenant = tid.as_str().to_string();
                fx.pipeline = m.deploy_pipeline_on_tenant(&tid, "p1".into(), SRC.into()).await.unwrap_or_else(|e| mc::machinery_error(&format!("fixture pipeline: {e}")));
            }
            let admin = key.then(|| K_ADMIN.to_string());
            let full = boxed(varpulis_cli::api::api_routes(mgr.clone(), admin.clone()));
            // a checkpoint of the fixture pipeline, taken through the real route, is the restore body
            let resp = warp::test::request().method("POST").path(&format!("/api/v1/pipelines/{}/checkpoint", fx.pipeline)).header("x-api-key", K_TENANT).reply(&full).await;
            let v: Value = serde_json::from_slice(resp.body()).unwrap_or(Value::Null);
            if v.get("checkpoint").is_none() {
                mc::machinery_error(&format!("fixture checkpoint failed: {} {}", resp.status(), String::from_utf8_lossy(resp.body())));
            }
            fx.checkpoint = json!({"checkpoint": v["checkpoint"]});
            fx.routes = Some(if matches!(surface, Surface::Cli(_)) { full } else { boxed(varpulis_cli::api::tenant_admin_routes(mgr.clone(), admin)) });
            fx.tenants = Some(mgr);
        }
    }
    fx
}

impl Fixture {
    async fn projection(&self) -> String {
        let mut s = String::new();
        if let Some(c) = &self.coord {
            s.push_str(&project_coordinator(c).await);
        }
        if let Some(t) = &self.tenants {
            s.push_str(&project_tenants(t).await);
        }
        if let Some(r) = &self.raft {
            s.push_str(&project_raft(r).await);
        }
        s
    }
}

fn concrete_path(route: &Route, fx: &Fixture) -> String {
    let parts: Vec<&str> = route.template.split("{}").collect();
    let mut out = String::new();
    for (i, part) in parts.iter().enumerate() {
        out.push_str(part);
        if i + 1 < parts.len() {
            out.push_str(match route.params.get(i).copied().unwrap_or("missing-param") {
                "$pipeline" => &fx.pipeline,
                "$tenant" => &fx.tenant,
                other => other,
            });
        }
    }
    out
}

async fn run_case(case: &Case, scratch: &std::path::Path) -> Obs {
    let fx = fixture(case.surface, scratch).await;
    let before = fx.projection().await;
    let path = concrete_path(&case.route, &fx);
    let mut req = warp::test::request().method(case.route.method).path(&path);
    if let Some(k) = case.cred.key() {
        if matches!(case.place, Place::ApiKey | Place::Both) {
            req = req.header("x-api-key", k);
        }
        if matches!(case.place, Place::AdminKey | Place::Both) {
            req = req.header("x-admin-key", k);
        }
    }
    let body = match &case.route.body {
        Some(Value::Null) => raft_body(case.route.template),
        Some(Value::String(s)) if s == "$checkpoint" => Some(fx.checkpoint.clone()),
        other => other.clone(),
    };
    if let Some(b) = &body {
        req = req.json(b);
    }
    let (handled, status, rejection) = match req.filter(fx.routes.as_ref().expect("fixture routes")).await {
        Ok(resp) => (true, resp.status().as_u16(), String::new()),
        Err(rej) => (false, 0, format!("{rej:?}").chars().take(160).collect()),
    };
    let after = fx.projection().await;
    if let Some(r) = &fx.raft {
        let _ = r.shutdown().await;
    }
    let served = handled && status != 401 && status != 403;
    Obs { handled, status, rejection, served, changed: before != after }
}

fn verdict(case: &Case) -> Verdict {
    match case.surface {
        Surface::Cluster(rb) | Surface::ClusterWithRaft(rb) => verdict_cluster(case.route.need, rb, rb.raft_key(), case.cred),
        Surface::RaftOnly(k) => verdict_cluster(case.route.need, Rbac::Disabled, k.then_some(K_ADMIN), case.cred),
        Surface::Cli(k) | Surface::TenantAdminOnly(k) => verdict_cli(case.route.need, k, case.cred, case.place),
    }
}

fn case_json(case: &Case) -> Value {
    json!({"surface": case.surface.name(), "method": case.route.method, "route": case.route.template, "credential": case.cred.name(), "header": case.place.name()})
}

fn judge(case: &Case, obs: &Obs, acc: &mut Acc) {
    let v = verdict(case);
    acc.evaluations += 1;
    acc.outcome(&(obs.handled, obs.status, obs.served, obs.changed));
    let what = format!("{} {} on {} with credential {} in {}", case.route.method, case.route.template, case.surface.name(), case.cred.name(), case.place.name());
    let seen = if obs.handled { format!("the handler answered {}", obs.status) } else { format!("rejected by a filter ({})", obs.rejection) };
    let route_id = format!("{}_{}", case.route.method, case.route.template.trim_start_matches('/').replace(['/', '{', '}'], "_"));
    match v {
        Verdict::MustRefuse => {
            acc.nontrivial += 1;
            acc.count("requests_that_must_be_refused", 1);
            if obs.served {
                add_viol(acc, format!("C29:served_without_access:{}:{route_id}", case.surface.short()), format!("{what}: the documented access is {:?}, which this credential does not grant under this configuration, yet {seen}", case.route.need), case_json(case), 1);
            }
        }
        Verdict::MayServe => {
            acc.count("requests_with_sufficient_access", 1);
            if obs.served {
                acc.count("served", 1);
                if obs.changed {
                    acc.count("served_and_changed_state", 1);
                }
            } else {
                acc.count("sufficient_access_but_not_served", 1);
            }
        }
        Verdict::DontCare => acc.count("dont_care_unknown_key_with_anonymous_access", 1),
    }
    if !obs.served && obs.changed {
        add_viol(acc, format!("C29:refused_but_changed_state:{}:{route_id}", case.surface.short()), format!("{what}: {seen}, yet the coordinator/tenant/Raft projection differs from the one before the request"), case_json(case), 1);
    }
}

// ---------------------------------------------------------------------------------------------

fn all_cases() -> Vec<Case> {
    let mut out = Vec::new();
    let cluster = cluster_table();
    let raft = raft_table();
    let cli = cli_table();
    for rb in RBACS {
        for route in &cluster {
            for cred in CREDS {
                out.push(Case { surface: Surface::Cluster(rb), route: route.clone(), cred, place: Place::ApiKey });
            }
        }
        for route in raft.iter().chain(cluster.iter()) {
            for cred in CREDS {
                out.push(Case { surface: Surface::ClusterWithRaft(rb), route: route.clone(), cred, place: Place::ApiKey });
            }
        }
    }
    for key in [true, false] {
        for route in &raft {
            for cred in CREDS {
                out.push(Case { surface: Surface::RaftOnly(key), route: route.clone(), cred, place: Place::ApiKey });
            }
        }
        for (surface, routes) in [(Surface::Cli(key), cli.iter().collect::<Vec<_>>()), (Surface::TenantAdminOnly(key), cli.iter().filter(|r| r.builder == "tenant_admin_routes").collect())] {
            for route in routes {
                for cred in CREDS {
                    let places: &[Place] = if cred == Cred::None { &[Place::ApiKey] } else { &[Place::ApiKey, Place::AdminKey, Place::Both] };
                    for place in places {
                        out.push(Case { surface, route: route.clone(), cred, place: *place });
                    }
                }
            }
        }
    }
    out
}

fn find_case(v: &Value) -> Option<Case> {
    all_cases().into_iter().find(|c| case_json(c) == *v)
}

fn self_test() {
    // the extractor on a hand-written builder
    let src = "pub fn demo(\n) {\n    let api = warp::path(\"api\")\n        .and(warp::path(\"v1\"));\n\n    let a = api\n        .and(warp::path(\"things\"))\n        .and(warp::path::param::<String>())\n        .and(warp::path::end())\n        .and(warp::delete())\n        .and(with_rbac(rbac.clone(), Role::Admin))\n        .and_then(handle_a);\n\n    let b = api\n        .and(warp::path(\"open\"))\n        .and(warp::get())\n        .and_then(handle_b);\n\n    a.or(b)\n}\n";
    let got = extract_routes(src, "demo").expect("demo extracts");
    assert_eq!(got, vec![SrcRoute { method: "DELETE".into(), template: "/api/v1/things/{}".into(), auth: "rbac:Admin".into() }, SrcRoute { method: "GET".into(), template: "/api/v1/open".into(), auth: "none".into() }]);
    let doc = documented("| `DELETE` | `/api/v1/cluster/workers/{id}` | Admin | x |\n| `GET` | `/health` | y |\n");
    assert_eq!(doc.get(&("DELETE".to_string(), "/api/v1/cluster/workers/{}".to_string())).map(|s| s.as_str()), Some("Admin"));
    assert_eq!(doc.len(), 1);
    // the oracle on hand-computed cells
    assert_eq!(verdict_cluster(ADMIN, Rbac::MultiKeyFile, Some(K_ADMIN), Cred::Operator), Verdict::MustRefuse);
    assert_eq!(verdict_cluster(OPERATOR, Rbac::MultiKeyFile, Some(K_ADMIN), Cred::Operator), Verdict::MayServe);
    assert_eq!(verdict_cluster(VIEWER, Rbac::SingleKey, Some(K_ADMIN), Cred::Viewer), Verdict::MustRefuse);
    assert_eq!(verdict_cluster(ADMIN, Rbac::Disabled, None, Cred::None), Verdict::MayServe);
    assert_eq!(verdict_cluster(VIEWER, Rbac::MultiKeyAnonymousViewer, Some(K_ADMIN), Cred::None), Verdict::MayServe);
    assert_eq!(verdict_cluster(VIEWER, Rbac::MultiKeyAnonymousViewer, Some(K_ADMIN), Cred::Wrong), Verdict::DontCare);
    assert_eq!(verdict_cluster(OPERATOR, Rbac::MultiKeyAnonymousViewer, Some(K_ADMIN), Cred::Wrong), Verdict::MustRefuse);
    assert_eq!(verdict_cluster(Need::Open, Rbac::SingleKey, Some(K_ADMIN), Cred::None), Verdict::MayServe);
    assert_eq!(verdict_cluster(Need::RaftKey, Rbac::SingleKey, Some(K_ADMIN), Cred::Operator), Verdict::MustRefuse);
    assert_eq!(verdict_cluster(Need::RaftKey, Rbac::MultiKeyNoAdmin, None, Cred::None), Verdict::MayServe);
    assert_eq!(verdict_cluster(ADMIN, Rbac::MultiKeyNoAdmin, None, Cred::Admin), Verdict::MustRefuse);
    assert_eq!(verdict_cli(Need::TenantKey, true, Cred::Tenant, Place::ApiKey), Verdict::MayServe);
    assert_eq!(verdict_cli(Need::TenantKey, true, Cred::Tenant, Place::AdminKey), Verdict::MustRefuse);
    assert_eq!(verdict_cli(Need::TenantKey, true, Cred::Admin, Place::Both), Verdict::MustRefuse);
    assert_eq!(verdict_cli(Need::AdminKey, true, Cred::Admin, Place::AdminKey), Verdict::MayServe);
    assert_eq!(verdict_cli(Need::AdminKey, false, Cred::Admin, Place::AdminKey), Verdict::MustRefuse);
    assert_eq!(verdict_cli(Need::AdminKey, true, Cred::Tenant, Place::Both), Verdict::MustRefuse);
}

/// Static cross-checks: source routes == table routes; documented roles == table roles.
fn static_checks(rep: &mut Report, acc: &mut Acc) {
    let read = |p: &str| std::fs::read_to_string(p).unwrap_or_else(|e| mc::machinery_error(&format!("cannot read {p}: {e}")));
    let sources = [("cluster_routes", "/repo/crates/varpulis-cluster/src/api.rs"), ("raft_routes", "/repo/crates/varpulis-cluster/src/raft/routes.rs"), ("api_routes", "/repo/crates/varpulis-cli/src/api.rs"), ("tenant_admin_routes", "/repo/crates/varpulis-cli/src/api.rs")];
    let table: Vec<Route> = cluster_table().into_iter().chain(raft_table()).chain(cli_table()).collect();
    let mut n_src = 0;
    for (builder, file) in sources {
        let extracted = extract_routes(&read(file), builder).unwrap_or_else(|e| mc::machinery_error(&format!("route extraction from {file}: {e}")));
        n_src += extracted.len();
        let src: BTreeSet<(String, String)> = extracted.iter().map(|s| (s.method.clone(), s.template.clone())).collect();
        let tab: BTreeSet<(String, String)> = table.iter().filter(|t| t.builder == builder).map(|t| (t.method.to_string(), t.template.to_string())).collect();
        for (m, t) in src.difference(&tab) {
            acc.evaluations += 1;
            add_viol(acc, format!("C29:route_not_in_table:{builder}:{m}_{}", t.trim_start_matches('/').replace(['/', '{', '}'], "_")), format!("{m} {t} is built by {builder} ({file}) but is not in the harness route table, so its access control is unchecked"), json!({"static": "route_table", "builder": builder, "method": m, "route": t}), 0);
        }
        if let Some((m, t)) = tab.difference(&src).next() {
            mc::machinery_error(&format!("harness route table lists {m} {t} for {builder}, which the source no longer builds"));
        }
        // the auth filter visible in the source, against the table (informational; the dynamic matrix decides)
        for s in &extracted {
            if let Some(t) = table.iter().find(|t| t.builder == builder && t.method == s.method && t.template == s.template) {
                if need_auth_text(t.need) != s.auth {
                    acc.count("routes_whose_source_filter_differs_from_documented_access", 1);
                }
            }
        }
    }
    rep.set("routes_in_source", json!(n_src));
    rep.set("routes_in_table", json!(table.len()));
    let doc = documented(&read("/repo/docs/api-changelog.md"));
    let mut n_doc = 0;
    for t in table.iter().filter(|t| t.need != Need::RaftKey && !(t.builder == "raft_routes")) {
        match doc.get(&(t.method.to_string(), t.template.to_string())) {
            Some(role) if role == need_doc_text(t.need) => n_doc += 1,
            Some(role) => mc::machinery_error(&format!("docs/api-changelog.md documents {} {} as {role:?}, the harness table says {:?}: the oracle table must follow the documentation", t.method, t.template, need_doc_text(t.need))),
            None => mc::machinery_error(&format!("docs/api-changelog.md no longer documents {} {}", t.method, t.template)),
        }
    }
    rep.set("routes_checked_against_documentation", json!(n_doc));
}

pub fn run(args: &Args) -> ! {
    let mut rep = Report::new(args, "exploration");
    mc::quiet_panics();
    self_test();
    let scratch = crate::util::init_scratch("C29");
    let block = |case: &Case| -> Obs {
        let rt = tokio::runtime::Builder::new_current_thread().enable_all().build().unwrap_or_else(|e| mc::machinery_error(&format!("tokio runtime: {e}")));
        rt.block_on(run_case(case, &scratch))
    };

    if let Some(path) = &args.replay {
        let v = mc::load_replay(path);
        let mut acc = Acc::default();
        if v.get("static").is_some() {
            static_checks(&mut rep, &mut acc);
        } else {
            let case = find_case(&v).unwrap_or_else(|| mc::machinery_error("C29: the replay case is not in the matrix"));
            judge(&case, &block(&case), &mut acc);
        }
        crate::util::remove_scratch();
        rep.absorb(acc);
        rep.evaluations = rep.evaluations.max(1);
        rep.finish();
    }

    let mut acc = Acc::default();
    static_checks(&mut rep, &mut acc);
    rep.absorb(acc);

    let cases = all_cases();
    // determinism: first and last case twice
    for c in [&cases[0], &cases[cases.len() - 1]] {
        let (a, b) = (block(c), block(c));
        if a != b {
            mc::machinery_error(&format!("C29: {} replayed twice gives {a:?} and {b:?}", case_json(c)));
        }
    }
    let deadline = mc::Deadline::after(std::time::Duration::from_secs(args.tier.pick(30, 600)));
    let (acc, done) = mc::par_items(&cases, args.threads, |case, acc| {
        if deadline.expired() {
            return false;
        }
        let obs = block(case);
        judge(case, &obs, acc);
        if acc.samples.is_empty() && verdict(case) == Verdict::MustRefuse {
            acc.samples.push(json!({"case": case_json(case), "handled_by_a_handler": obs.handled, "status": obs.status, "served": obs.served, "state_changed": obs.changed}));
        }
        true
    });
    if !done {
        rep.cap_hit("wall cap during the request matrix");
    }
    rep.absorb(acc);
    crate::util::remove_scratch();
    rep.set("request_matrix", json!(cases.len()));
    rep.set("surfaces", json!(["cluster_routes × 5 RBAC configurations", "cluster_routes_with_raft × 5 RBAC configurations (Raft admin key = any admin key of the configuration)", "raft_routes × admin key set/unset", "api_routes × admin key set/unset", "tenant_admin_routes × admin key set/unset"]));
    rep.rule = "Exhaustive request matrix: every route of cluster_routes (35), raft_routes (7), api_routes (12 tenant routes + 4 tenant-admin routes) and tenant_admin_routes (4) × credentials {none, unknown key, viewer key, operator key, admin key, tenant key} (SaaS surface: each key in x-api-key, in x-admin-key and in both) × configurations {single admin key, multi-key file, anonymous allowed without keys, multi-key with anonymous viewer, multi-key without an admin key (Raft admin key unset)} / {admin key set, unset}; one fresh fixture (seeded coordinator, tenant with a running pipeline, uninitialised Raft node with timers off) per request; well-formed bodies. Route list extracted from the builders' source and compared with the table; table roles compared with docs/api-changelog.md. Non-trivial = a request the documentation requires to be refused.".into();
    rep.assume("served = a handler produced the reply (warp::test::request().filter returned Ok) and the status is neither 401 nor 403; the property only demands 'served ⇒ access granted', so a credential with sufficient access that is not served is counted (sufficient_access_but_not_served), not reported");
    rep.assume("required access per route = the documented tables (docs/api-changelog.md: Cluster API min-role tables, SaaS and tenant-administration Auth column); /raft/* RPC routes: the admin key when the RBAC configuration holds one, unauthenticated otherwise, /raft/metrics unauthenticated (documented in raft/routes.rs)");
    rep.assume("an unknown key presented while anonymous access is allowed is a don't-care up to the anonymous role (the documentation does not say whether it counts as anonymous); above the anonymous role it must be refused");
    rep.assume("outbound calls of served handlers (worker HTTP at 127.0.0.1:9, LLM) fail fast and are irrelevant to the oracle; rate limiting is off (C30 covers it)");
    rep.finish();
}
