//! C34 — event routing to pipelines and replicas is deterministic and sticky.
//!
//! Three exhaustive sweeps on the real coordinator (`resolve_inject_target`, `inject_event`,
//! `inject_batch`, which call `find_target_pipeline` / `event_type_matches` /
//! `ReplicaGroup::select_replica`); whatever leaves the coordinator is received by the loopback mock
//! worker, which records which pipeline id got which event.
//!   A. route tables: every table of ≤ 3 routes (1–2 patterns each, over {A, A*, *, AB, B, B*}, to one
//!      of 3 pipelines) × event types {A, AB, B, C}; oracle = first matching route, else the first
//!      pipeline. Single path for every table, batch path (through the mock) for the smaller tables.
//!   B. key-hash stickiness: replicas 1..=5 × every sequence of keys over
//!      {1, 1.0, "1", "a", 1e3, 2^63, missing} up to a length; each sequence is injected singly, as
//!      an .evt batch and as a JSONL batch; equal key symbols must reach the same replica within and
//!      across the three ways.
//!   C. round-robin: replicas 1..=5 × every history over {single, batch of 1|2|3}; in every run
//!      (contiguous window) of the event sequence the replica loads differ by at most one.

use crate::mock::{Mock, Rec};
use mc::{Acc, Args, Report};
use serde_json::{json, Value};
use std::cell::RefCell;
use std::sync::Arc;
use varpulis_cluster::coordinator::{Coordinator, DeployResponse, DeployTaskResult, InjectBatchRequest, InjectEventRequest};
use varpulis_cluster::pipeline_group::{InterPipelineRoute, PipelineGroupSpec, PipelinePlacement};
use varpulis_cluster::worker::{WorkerId, WorkerNode};

// ---------------------------------------------------------------------------------------------
// Per-thread real coordinator + runtime

struct Ctx {
    rt: tokio::runtime::Runtime,
    coord: Coordinator,
    world: String,
}

thread_local! { static CTX: RefCell<Option<Ctx>> = const { RefCell::new(None) }; }

fn with_ctx<T>(mock: &Arc<Mock>, f: impl FnOnce(&mut Ctx) -> T) -> T {
    CTX.with(|c| {
        let mut c = c.borrow_mut();
        if c.is_none() {
            let rt = tokio::runtime::Builder::new_current_thread().enable_all().build().unwrap_or_else(|e| mc::machinery_error(&format!("runtime: {e}")));
            let mut coord = Coordinator::new();
            let world = mock.new_world();
            let mut n = WorkerNode::new(WorkerId("w0".into()), mock.address(&world, "w0"), "key".into());
            n.capacity.max_pipelines = 1_000_000;
            coord.register_worker(n);
            *c = Some(Ctx { rt, coord, world });
        }
        f(c.as_mut().unwrap())
    })
}

fn pipeline_id_of(replica_name: &str) -> String {
    replica_name.replace('#', "-")
}

/// Deploy through the handler's phases (plan → worker outcome → commit) with the worker outcome
/// "success, id = name with # replaced"; no HTTP involved.
fn deploy(coord: &mut Coordinator, spec: &PipelineGroupSpec) -> String {
    let plan = coord.plan_deploy_group(spec).unwrap_or_else(|e| mc::machinery_error(&format!("C34: plan_deploy_group: {e}")));
    let results: Vec<DeployTaskResult> = plan
        .tasks
        .iter()
        .map(|t| DeployTaskResult {
            replica_name: t.replica_name.clone(),
            pipeline_name: t.pipeline_name.clone(),
            worker_id: t.worker_id.clone(),
            worker_address: t.worker_address.clone(),
            worker_api_key: t.worker_api_key.clone(),
            replica_count: t.replica_count,
            outcome: Ok(DeployResponse { id: pipeline_id_of(&t.replica_name), name: t.replica_name.clone(), status: "running".into() }),
        })
        .collect();
    coord.commit_deploy_group(plan, results).unwrap_or_else(|e| mc::machinery_error(&format!("C34: commit_deploy_group: {e}")))
}

fn teardown(coord: &mut Coordinator, gid: &str) {
    if let Ok(plan) = coord.plan_teardown_group(gid) {
        coord.commit_teardown_group(&plan);
    }
}

fn placement(name: &str, replicas: usize, key: Option<&str>) -> PipelinePlacement {
    PipelinePlacement { name: name.into(), source: "stream S = A\n".into(), worker_affinity: Some("w0".into()), replicas, partition_key: key.map(|s| s.to_string()) }
}

// ---------------------------------------------------------------------------------------------
// A. route tables

const PATTERNS: [&str; 6] = ["A", "A*", "*", "AB", "B", "B*"];
const TYPES: [&str; 4] = ["A", "AB", "B", "C"];
const PIPES: [&str; 3] = ["p0", "p1", "p2"];

/// reference: exact match, trailing-wildcard prefix match, lone `*` matches everything
fn ref_matches(ty: &str, pat: &str) -> bool {
    match pat.strip_suffix('*') {
        Some(prefix) => ty.starts_with(prefix),
        None => ty == pat,
    }
}
fn ref_target<'a>(table: &'a [(Vec<&'a str>, &'a str)], ty: &str) -> &'a str {
    for (pats, to) in table {
        if pats.iter().any(|p| ref_matches(ty, p)) {
            return to;
        }
    }
    PIPES[0]
}

/// all routes: 1 or 2 (ordered, distinct) patterns × target pipeline; simplest first
fn all_routes() -> Vec<(Vec<&'static str>, &'static str)> {
    let mut v = Vec::new();
    for to in PIPES {
        for a in PATTERNS {
            v.push((vec![a], to));
        }
    }
    for to in PIPES {
        for a in PATTERNS {
            for b in PATTERNS {
                if a != b {
                    v.push((vec![a, b], to));
                }
            }
        }
    }
    v
}

fn route_spec(table: &[(Vec<&str>, &str)]) -> PipelineGroupSpec {
    PipelineGroupSpec {
        name: "g".into(),
        pipelines: PIPES.iter().map(|p| placement(p, 1, None)).collect(),
        routes: table.iter().map(|(pats, to)| InterPipelineRoute { from_pipeline: "_external".into(), to_pipeline: to.to_string(), event_types: pats.iter().map(|s| s.to_string()).collect(), nats_subject: None }).collect(),
    }
}

fn table_json(table: &[(Vec<&str>, &str)]) -> Value {
    json!(table.iter().map(|(p, t)| json!({"patterns": p, "to": t})).collect::<Vec<_>>())
}

fn single_request(ty: &str, id: usize, key_literal: Option<&str>) -> InjectEventRequest {
    // built from JSON text, as the HTTP handler does
    let text = match key_literal {
        Some(k) => format!("{{\"event_type\":\"{ty}\",\"fields\":{{\"id\":{id},\"k\":{k}}}}}"),
        None => format!("{{\"event_type\":\"{ty}\",\"fields\":{{\"id\":{id}}}}}"),
    };
    serde_json::from_str(&text).unwrap_or_else(|e| mc::machinery_error(&format!("C34: cannot build inject request from {text}: {e}")))
}

fn events_of(log: Vec<Rec>) -> Vec<(String, u64, bool)> {
    log.into_iter()
        .filter_map(|r| match r {
            Rec::Event { pipeline_id, event, batch, .. } => Some((pipeline_id, event["fields"]["id"].as_u64().unwrap_or(u64::MAX), batch)),
            _ => None,
        })
        .collect()
}

/// One table: single path for all 4 types; when `through_mock`, also single + batch through HTTP.
fn check_table(mock: &Arc<Mock>, table: &[(Vec<&str>, &str)], through_mock: bool, acc: &mut Acc) -> Vec<String> {
    with_ctx(mock, |ctx| {
        let spec = route_spec(table);
        let gid = deploy(&mut ctx.coord, &spec);
        let nroutes = table.len();
        let mut observed = Vec::new();
        for (ti, ty) in TYPES.iter().enumerate() {
            let want = ref_target(table, ty);
            acc.evaluations += 1;
            if table.iter().any(|(p, _)| p.iter().any(|p| ref_matches(ty, p))) && want != PIPES[0] {
                acc.nontrivial += 1;
            }
            let got = match ctx.coord.resolve_inject_target(&gid, &single_request(ty, ti, None)) {
                Ok(t) => t.target_name,
                Err(e) => format!("error: {e}"),
            };
            if got != want {
                acc.viol.add(
                    format!("C34:route:single:{}", if want == PIPES[0] && !table.iter().any(|(p, _)| p.iter().any(|p| ref_matches(ty, p))) { "no_route_matches" } else { "first_matching_route" }),
                    format!("event type {ty} with routes {} resolves to {got}; the first matching route (else the first pipeline) is {want}", table_json(table)),
                    json!({"kind":"routes","table":table_json(table),"through_mock":false}),
                    nroutes * 10 + table.iter().map(|(p, _)| p.len()).sum::<usize>(),
                );
            }
            observed.push(got);
        }
        if through_mock {
            // single injection through HTTP: the event must arrive at the pipeline id of the target
            for (ti, ty) in TYPES.iter().enumerate() {
                acc.evaluations += 1;
                let r = ctx.rt.block_on(ctx.coord.inject_event(&gid, single_request(ty, ti, None)));
                if let Err(e) = r {
                    mc::machinery_error(&format!("C34: inject_event through the mock worker failed: {e}"));
                }
            }
            let text: String = TYPES.iter().enumerate().map(|(ti, ty)| format!("{ty} {{ id: {} }}\n", 10 + ti)).collect();
            acc.evaluations += TYPES.len() as u64;
            let r = ctx.rt.block_on(ctx.coord.inject_batch(&gid, InjectBatchRequest { events_text: text }));
            match r {
                Ok(resp) if resp.events_sent == TYPES.len() && resp.events_failed == 0 => {}
                other => mc::machinery_error(&format!("C34: inject_batch through the mock worker: {other:?}")),
            }
            let evs = events_of(mock.take(&ctx.world));
            for (ti, ty) in TYPES.iter().enumerate() {
                let want = ref_target(table, ty);
                for (way, id) in [("single", ti as u64), ("batch", 10 + ti as u64)] {
                    let got: Vec<&str> = evs.iter().filter(|(_, i, _)| *i == id).map(|(p, _, _)| p.as_str()).collect();
                    if got != [want] {
                        acc.viol.add(
                            format!("C34:route:{way}:delivered_to_other_pipeline"),
                            format!("event type {ty} injected ({way}) with routes {} was received by pipelines {got:?}; expected exactly {want}", table_json(table)),
                            json!({"kind":"routes","table":table_json(table),"through_mock":true}),
                            nroutes * 10 + table.iter().map(|(p, _)| p.len()).sum::<usize>(),
                        );
                    }
                    observed.push(format!("{got:?}"));
                }
            }
        }
        teardown(&mut ctx.coord, &gid);
        observed
    })
}

// ---------------------------------------------------------------------------------------------
// B. key-hash stickiness

/// (JSON / .evt literal, class used in signatures); `None` = field missing
const KEYS: [(Option<&str>, &str); 7] = [(Some("1"), "int"), (Some("\"a\""), "string"), (None, "missing"), (Some("1.0"), "float"), (Some("\"1\""), "string_of_digits"), (Some("1e3"), "float_exponent"), (Some("9223372036854775808"), "int_above_i64_max")];
const WAYS: [&str; 3] = ["single", "batch_evt", "batch_jsonl"];

fn hash_spec(replicas: usize) -> PipelineGroupSpec {
    PipelineGroupSpec { name: "g".into(), pipelines: vec![placement("p", replicas, Some("k"))], routes: vec![] }
}

fn batch_text(way: &str, types_keys: &[(&str, Option<&str>)], id0: usize) -> String {
    let mut s = String::new();
    for (i, (ty, k)) in types_keys.iter().enumerate() {
        let id = id0 + i;
        match (way, k) {
            ("batch_evt", Some(k)) => s.push_str(&format!("{ty} {{ id: {id}, k: {k} }}\n")),
            ("batch_evt", None) => s.push_str(&format!("{ty} {{ id: {id} }}\n")),
            (_, Some(k)) => s.push_str(&format!("{{\"event_type\":\"{ty}\",\"data\":{{\"id\":{id},\"k\":{k}}}}}\n")),
            (_, None) => s.push_str(&format!("{{\"event_type\":\"{ty}\",\"data\":{{\"id\":{id}}}}}\n")),
        }
    }
    s
}

/// One key sequence on a fresh group of `replicas` replicas; returns the replica per (way, position).
fn check_key_sequence(mock: &Arc<Mock>, replicas: usize, seq: &[usize], acc: &mut Acc) -> Vec<Vec<String>> {
    with_ctx(mock, |ctx| {
        let gid = deploy(&mut ctx.coord, &hash_spec(replicas));
        let n = seq.len();
        let mut per_way: Vec<Vec<String>> = Vec::new();
        // single: resolve (the handler's phase 1) for every event; the first event also goes through HTTP
        let mut singles = Vec::new();
        for (i, k) in seq.iter().enumerate() {
            acc.evaluations += 1;
            let req = single_request("A", i, KEYS[*k].0);
            match ctx.coord.resolve_inject_target(&gid, &req) {
                Ok(t) => singles.push(t.target_name),
                Err(e) => singles.push(format!("error: {e}")),
            }
        }
        per_way.push(singles);
        for (wi, way) in WAYS.iter().enumerate().skip(1) {
            let tk: Vec<(&str, Option<&str>)> = seq.iter().map(|k| ("A", KEYS[*k].0)).collect();
            let text = batch_text(way, &tk, wi * 100);
            acc.evaluations += n as u64;
            let r = ctx.rt.block_on(ctx.coord.inject_batch(&gid, InjectBatchRequest { events_text: text.clone() }));
            match r {
                Ok(resp) if resp.events_sent == n && resp.events_failed == 0 => {}
                other => mc::machinery_error(&format!("C34: inject_batch of {text:?}: {other:?}")),
            }
            let evs = events_of(mock.take(&ctx.world));
            let mut got = Vec::new();
            for i in 0..n {
                let at: Vec<&str> = evs.iter().filter(|(_, id, _)| *id == (wi * 100 + i) as u64).map(|(p, _, _)| p.as_str()).collect();
                got.push(if at.len() == 1 { at[0].replace('-', "#") } else { format!("delivered {} times: {at:?}", at.len()) });
            }
            per_way.push(got);
        }
        // oracle: equal key symbol ⇒ equal replica, within and across the three ways
        let case = json!({"kind":"hash_key","replicas":replicas,"keys":seq,"readable":seq.iter().map(|k| KEYS[*k].0.unwrap_or("<missing>")).collect::<Vec<_>>()});
        for (wa, a) in per_way.iter().enumerate() {
            for (wb, b) in per_way.iter().enumerate().skip(wa) {
                for i in 0..n {
                    for j in 0..n {
                        if (wa, i) < (wb, j) && seq[i] == seq[j] && a[i] != b[j] {
                            let pair = if wa == wb { format!("within_{}", WAYS[wa]) } else { format!("{}_vs_{}", WAYS[wa], WAYS[wb]) };
                            acc.viol.add(
                                format!("C34:hash_key:{pair}:key={}", KEYS[seq[i]].1),
                                format!("{replicas} replicas partitioned by field k: the key {} reaches {} when injected by {} (position {i}) but {} by {} (position {j})", KEYS[seq[i]].0.unwrap_or("<missing>"), a[i], WAYS[wa], b[j], WAYS[wb]),
                                case.clone(),
                                n * 10 + replicas,
                            );
                        }
                    }
                }
            }
        }
        let distinct: std::collections::BTreeSet<&String> = per_way.iter().flatten().collect();
        if distinct.len() > 1 {
            acc.nontrivial += 1;
        }
        teardown(&mut ctx.coord, &gid);
        per_way
    })
}

// ---------------------------------------------------------------------------------------------
// C. round-robin

/// ops: 0 = single injection, 1..=3 = batch of that many events
const RR_OPS: usize = 4;

fn window_violation(seq: &[usize], replicas: usize) -> Option<(usize, usize, Vec<usize>)> {
    for i in 0..seq.len() {
        let mut counts = vec![0usize; replicas];
        for j in i..seq.len() {
            counts[seq[j]] += 1;
            let (mn, mx) = (counts.iter().min().unwrap(), counts.iter().max().unwrap());
            if mx - mn > 1 {
                return Some((i, j, counts));
            }
        }
    }
    None
}

fn check_rr_history(mock: &Arc<Mock>, replicas: usize, two_pipelines: bool, hist: &[usize], acc: &mut Acc) -> Vec<(String, usize)> {
    with_ctx(mock, |ctx| {
        // variant with two replicated pipelines: type B is routed to q, everything else to p
        let spec = if two_pipelines {
            PipelineGroupSpec { name: "g".into(), pipelines: vec![placement("p", replicas, None), placement("q", replicas, None)], routes: vec![InterPipelineRoute { from_pipeline: "_external".into(), to_pipeline: "q".into(), event_types: vec!["B".into()], nats_subject: None }] }
        } else {
            PipelineGroupSpec { name: "g".into(), pipelines: vec![placement("p", replicas, None)], routes: vec![] }
        };
        let gid = deploy(&mut ctx.coord, &spec);
        let mut next_id = 0usize;
        let mut type_of: Vec<&str> = Vec::new();
        for op in hist {
            // event types alternate A, B, A, … in the two-pipeline variant
            let mut tys = Vec::new();
            for _ in 0..(*op).max(1) {
                tys.push(if two_pipelines && type_of.len() % 3 == 1 { "B" } else { "A" });
                type_of.push(*tys.last().unwrap());
            }
            acc.evaluations += tys.len() as u64;
            if *op == 0 {
                if let Err(e) = ctx.rt.block_on(ctx.coord.inject_event(&gid, single_request(tys[0], next_id, None))) {
                    mc::machinery_error(&format!("C34: inject_event: {e}"));
                }
            } else {
                let tk: Vec<(&str, Option<&str>)> = tys.iter().map(|t| (*t, None)).collect();
                let text = batch_text("batch_evt", &tk, next_id);
                match ctx.rt.block_on(ctx.coord.inject_batch(&gid, InjectBatchRequest { events_text: text.clone() })) {
                    Ok(resp) if resp.events_sent == tys.len() && resp.events_failed == 0 => {}
                    other => mc::machinery_error(&format!("C34: inject_batch of {text:?}: {other:?}")),
                }
            }
            next_id += tys.len();
        }
        let evs = events_of(mock.take(&ctx.world));
        let mut per_event: Vec<(String, usize)> = Vec::new(); // (logical pipeline, replica index) by event id
        let case = json!({"kind":"round_robin","replicas":replicas,"two_pipelines":two_pipelines,"ops":hist,"readable":hist.iter().map(|o| if *o == 0 { "single".to_string() } else { format!("batch of {o}") }).collect::<Vec<_>>()});
        let mix = match (hist.iter().any(|o| *o == 0), hist.iter().any(|o| *o > 0)) {
            (true, true) => "single_and_batch",
            (true, false) => "single_only",
            _ => "batch_only",
        };
        for id in 0..next_id {
            let at: Vec<&str> = evs.iter().filter(|(_, i, _)| *i == id as u64).map(|(p, _, _)| p.as_str()).collect();
            let parsed = if at.len() == 1 { at[0].split_once('-').and_then(|(l, r)| r.parse::<usize>().ok().map(|r| (l.to_string(), r))).or_else(|| if replicas == 1 { Some((at[0].to_string(), 0)) } else { None }) } else { None };
            match parsed {
                Some((l, r)) if r < replicas && l == if type_of[id] == "B" { "q" } else { "p" } => per_event.push((l, r)),
                _ => {
                    acc.viol.add(format!("C34:round_robin:{mix}:delivery"), format!("event #{id} (type {}) of the history was received by {at:?}; expected exactly one replica of its pipeline", type_of[id]), case.clone(), hist.len() * 10 + replicas);
                    teardown(&mut ctx.coord, &gid);
                    return per_event;
                }
            }
        }
        for logical in ["p", "q"] {
            let seq: Vec<usize> = per_event.iter().filter(|(l, _)| l == logical).map(|(_, r)| *r).collect();
            if let Some((i, j, counts)) = window_violation(&seq, replicas) {
                acc.viol.add(
                    format!("C34:round_robin:{mix}:loads_differ_by_more_than_one"),
                    format!("{replicas} round-robin replicas of {logical}: over events {i}..={j} of its sequence {seq:?} the loads are {counts:?}"),
                    case.clone(),
                    hist.len() * 10 + replicas,
                );
            }
        }
        if next_id >= 2 && replicas >= 2 {
            acc.nontrivial += 1;
        }
        teardown(&mut ctx.coord, &gid);
        per_event
    })
}

fn self_test() {
    assert!(ref_matches("A", "A") && !ref_matches("AB", "A") && ref_matches("AB", "A*") && ref_matches("A", "A*"));
    assert!(ref_matches("C", "*") && !ref_matches("B", "A*") && !ref_matches("A", "AB") && !ref_matches("AB", "B*") && ref_matches("B", "B*"));
    let t: Vec<(Vec<&str>, &str)> = vec![(vec!["AB"], "p2"), (vec!["A*", "B"], "p1")];
    assert_eq!(ref_target(&t, "AB"), "p2");
    assert_eq!(ref_target(&t, "A"), "p1");
    assert_eq!(ref_target(&t, "B"), "p1");
    assert_eq!(ref_target(&t, "C"), "p0");
    assert_eq!(ref_target(&[], "A"), "p0");
    assert!(window_violation(&[0, 1, 2, 0, 1, 2, 0], 3).is_none());
    assert!(window_violation(&[0, 1, 0, 1], 3).is_some()); // replica 2 never used: 2,2,0
    assert_eq!(window_violation(&[0, 1, 1, 0], 2).map(|x| (x.0, x.1)), Some((1, 2)));
    assert!(window_violation(&[0, 0], 1).is_none());
}

fn decode_table(routes: &[(Vec<&'static str>, &'static str)], mut i: u64, len: usize) -> Vec<(Vec<&'static str>, &'static str)> {
    let mut t = Vec::with_capacity(len);
    for _ in 0..len {
        t.push(routes[(i % routes.len() as u64) as usize].clone());
        i /= routes.len() as u64;
    }
    t
}

pub fn run(args: Args) -> ! {
    self_test();
    let mut rep = Report::new(&args, "exploration");
    let mock = Mock::start(4);
    let routes = all_routes();

    if let Some(path) = &args.replay {
        let case = mc::load_replay(path);
        let mut acc = Acc::default();
        match case["kind"].as_str() {
            Some("routes") => {
                let table: Vec<(Vec<&str>, &str)> = case["table"].as_array().map(|a| a.iter().map(|r| (r["patterns"].as_array().map(|p| p.iter().filter_map(|x| x.as_str()).collect()).unwrap_or_default(), r["to"].as_str().unwrap_or("p0"))).collect()).unwrap_or_default();
                let obs = check_table(&mock, &table, true, &mut acc);
                println!("replay: routes {} -> {obs:?}", table_json(&table));
            }
            Some("hash_key") => {
                let seq: Vec<usize> = case["keys"].as_array().map(|a| a.iter().map(|v| (v.as_u64().unwrap_or(0) as usize).min(KEYS.len() - 1)).collect()).unwrap_or_default();
                let obs = check_key_sequence(&mock, case["replicas"].as_u64().unwrap_or(2) as usize, &seq, &mut acc);
                println!("replay: keys {:?} -> single {:?} / batch_evt {:?} / batch_jsonl {:?}", case["readable"], obs[0], obs[1], obs[2]);
            }
            Some("round_robin") => {
                let hist: Vec<usize> = case["ops"].as_array().map(|a| a.iter().map(|v| (v.as_u64().unwrap_or(0) as usize).min(RR_OPS - 1)).collect()).unwrap_or_default();
                let obs = check_rr_history(&mock, case["replicas"].as_u64().unwrap_or(2) as usize, case["two_pipelines"].as_bool().unwrap_or(false), &hist, &mut acc);
                println!("replay: history {:?} -> {obs:?}", case["readable"]);
            }
            _ => mc::machinery_error("C34: unknown replay kind"),
        }
        rep.absorb(acc);
        rep.evaluations = rep.evaluations.max(1);
        rep.finish();
    }

    // Determinism gate: the first and the last case of every sweep, twice.
    {
        let mut a = Acc::default();
        let last_table = decode_table(&routes, routes.len() as u64 * routes.len() as u64 - 1, 2);
        for t in [vec![routes[0].clone()], last_table] {
            if check_table(&mock, &t, true, &mut a) != check_table(&mock, &t, true, &mut a) {
                mc::machinery_error("C34: two executions of the same route table differ");
            }
        }
        for s in [vec![0usize], vec![6, 6, 5]] {
            if check_key_sequence(&mock, 5, &s, &mut a) != check_key_sequence(&mock, 5, &s, &mut a) {
                mc::machinery_error("C34: two executions of the same key sequence differ");
            }
        }
        for h in [vec![0usize], vec![3, 3, 0, 3]] {
            if check_rr_history(&mock, 3, true, &h, &mut a) != check_rr_history(&mock, 3, true, &h, &mut a) {
                mc::machinery_error("C34: two executions of the same round-robin history differ");
            }
        }
    }
    let deadline = mc::Deadline::after(std::time::Duration::from_secs(args.tier.pick(36, 1100)));

    // ---- A. route tables
    let nr = routes.len() as u64;
    let mock_len = 2usize; // tables up to this many routes also go through the mock
    let mut offsets = vec![0u64];
    for len in 0..=3u32 {
        offsets.push(offsets.last().unwrap() + nr.pow(len));
    }
    let total_a = *offsets.last().unwrap();
    let (acc, done) = mc::par_indices(total_a, args.threads, 512, |i, acc| {
        if i % 512 == 0 && deadline.expired() {
            return false;
        }
        let len = (0..4).find(|l| i < offsets[l + 1]).unwrap();
        let table = decode_table(&routes, i - offsets[len], len);
        let obs = check_table(&mock, &table, len <= mock_len, acc);
        acc.outcome(&obs);
        acc.count("route_tables", 1);
        true
    });
    if !done {
        rep.cap_hit("wall cap during the route-table sweep");
    }
    rep.absorb(acc);

    // ---- B. key-hash stickiness
    let key_len = args.tier.pick(3usize, 5usize);
    let kspace = mc::SeqSpace::new(KEYS.len(), 1, key_len);
    let total_b = kspace.total() * 5;
    let (acc, done) = mc::par_indices(total_b, args.threads, 16, |i, acc| {
        if deadline.expired() {
            return false;
        }
        let replicas = 1 + (i % 5) as usize;
        let mut seq = Vec::new();
        kspace.decode(i / 5, &mut seq);
        let obs = check_key_sequence(&mock, replicas, &seq, acc);
        acc.outcome(&(replicas, &seq, &obs));
        acc.count("key_sequences", 1);
        true
    });
    if !done {
        rep.cap_hit("wall cap during the key-hash sweep");
    }
    rep.absorb(acc);

    // ---- C. round-robin
    let rr_len = args.tier.pick(4usize, 6usize);
    let rspace = mc::SeqSpace::new(RR_OPS, 1, rr_len);
    let total_c = rspace.total() * 5 * 2;
    let (acc, done) = mc::par_indices(total_c, args.threads, 8, |i, acc| {
        if deadline.expired() {
            return false;
        }
        let replicas = 1 + (i % 5) as usize;
        let two = (i / 5) % 2 == 1;
        let mut hist = Vec::new();
        rspace.decode(i / 10, &mut hist);
        let obs = check_rr_history(&mock, replicas, two, &hist, acc);
        acc.outcome(&(replicas, two, &obs));
        acc.count("round_robin_histories", 1);
        true
    });
    if !done {
        rep.cap_hit("wall cap during the round-robin sweep");
    }
    rep.absorb(acc);

    rep.set("route_tables_total", json!(total_a));
    rep.set("key_sequence_cases", json!(total_b));
    rep.set("round_robin_cases", json!(total_c));
    rep.sample(json!({"sweep":"routes","table":[{"patterns":["AB"],"to":"p2"},{"patterns":["A*","B"],"to":"p1"}],"types":TYPES}));
    rep.sample(json!({"sweep":"hash_key","replicas":3,"keys":["1","\"1\"","1","<missing>"],"ways":WAYS}));
    rep.sample(json!({"sweep":"round_robin","replicas":3,"history":["single","batch of 3","single","batch of 2"]}));
    rep.rule = format!("(A) every route table of ≤ 3 routes, a route = 1 or 2 distinct patterns from {{A, A*, *, AB, B, B*}} and a target among 3 pipelines ({total_a} tables) × event types {{A, AB, B, C}} through resolve_inject_target; tables of ≤ {mock_len} routes additionally through inject_event and inject_batch against the loopback mock worker. (B) replicas 1..=5 × every key sequence of length 1..={key_len} over {{1, \"a\", missing, 1.0, \"1\", 1e3, 2^63}} ({total_b} cases), each injected singly (resolve_inject_target on requests parsed from JSON text), as an .evt batch and as a JSONL batch (inject_batch through the mock worker). (C) replicas 1..=5 × one or two replicated pipelines × every history of length 1..={rr_len} over {{single, batch of 1, 2, 3}} ({total_c} cases) through inject_event / inject_batch and the mock worker. Non-trivial = a route other than the default decides (A), more than one replica is used (B), ≥ 2 events on ≥ 2 replicas (C).");
    rep.assume("\"same key value\" = the same literal of the key alphabet; keys of different types that print alike (1, 1.0, \"1\") are not required to share a replica");
    rep.assume("ReplicaGroup::select_replica touches shared state with one atomic fetch_add per call, so concurrent injections are equivalent to some sequential order of whole calls; only sequential histories are enumerated");
    rep.assume("route targets always name a deployed pipeline of the group; all pipelines are pinned to the single registered worker, whose address is the loopback mock worker");
    rep.finish()
}
