//! C30 — rate limiting never admits more than burst + rate·T while the client is tracked; rejected
//! requests get a finite retry-after; the limiter never panics for a configuration it accepts.
//!
//! E2: every history over {request(client 0..2), advance(0.25 | 0.5 | 1 | 3 s)} up to a length bound,
//! for every configuration rate × burst × tracked-client capacity, executed on a fresh real
//! `RateLimiter`. Virtual time = `verif_backdate_all` (every bucket's `last_update` is moved into the
//! past, the real refill arithmetic decides). Which clients are tracked is *observed* after every
//! operation (`verif_tracked`), so the oracle contains no model of the eviction policy.
//!
//! Oracle (the property text, nothing else): for every client and every pair of admitted requests
//! i ≤ j inside one uninterrupted tracking period of that client,
//!     #admitted in [i, j]  ≤  burst + rate · (t_j − t_i + ε)
//! with t = virtual time and ε = real time elapsed since the start of the execution (measured).
//! `check` must not panic; a `Limited` answer carries a `Duration`, which is finite by type.

use futures::FutureExt;
use mc::{Acc, Args, Report};
use serde_json::{json, Value};
use std::net::{IpAddr, Ipv4Addr};
use std::time::{Duration, Instant};
use varpulis_cluster::rate_limit::{RateLimitConfig, RateLimitResult, RateLimiter};

const RATES: [u32; 4] = [1, 2, 50, 0];
const BURSTS: [u32; 4] = [1, 3, 20, 0];
const CAPS: [usize; 3] = [4, 2, 1];
const NCLIENTS: usize = 3;
const ADV_MS: [u64; 4] = [250, 500, 1000, 3000];
const NOPS: usize = NCLIENTS + ADV_MS.len();

#[derive(Clone, Copy, Debug, PartialEq, Eq)]
struct Cfg {
    rate: u32,
    burst: u32,
    cap: usize,
}

fn configs() -> Vec<Cfg> {
    let mut v = Vec::new();
    for &rate in &RATES {
        for &burst in &BURSTS {
            for &cap in &CAPS {
                v.push(Cfg { rate, burst, cap });
            }
        }
    }
    v
}

#[derive(Clone, Copy, Debug, PartialEq, Eq)]
enum Op {
    Req(usize),
    Adv(u64),
}

fn op_of(i: usize) -> Op {
    if i < NCLIENTS {
        Op::Req(i)
    } else {
        Op::Adv(ADV_MS[i - NCLIENTS])
    }
}
fn op_str(o: Op) -> String {
    match o {
        Op::Req(c) => format!("request(client {c})"),
        Op::Adv(ms) => format!("advance({} s)", ms as f64 / 1000.0),
    }
}
fn ip(c: usize) -> IpAddr {
    IpAddr::V4(Ipv4Addr::new(10, 0, 0, 1 + c as u8))
}

#[derive(Clone, Debug, PartialEq, Eq, Hash)]
enum Res {
    Admitted,
    Rejected,
    Panicked,
    Advanced,
}

/// What one execution shows (everything except the measured ε is deterministic).
#[derive(Clone, Debug, PartialEq, Eq, Hash)]
struct Obs {
    results: Vec<Res>,
    /// bit mask of tracked clients after every operation
    tracked: Vec<u8>,
}

// ---------------------------------------------------------------------------------------------
// The oracle: a per-client list of admission times inside the current tracking period.

#[derive(Default)]
struct BoundChecker {
    /// admission times (virtual seconds) of the current tracking period, per client
    admitted: [Vec<f64>; NCLIENTS],
}

impl BoundChecker {
    /// `c` was admitted at virtual time `t`; returns the violated interval if the bound is exceeded.
    fn admit(&mut self, c: usize, t: f64, rate: u32, burst: u32, eps: f64) -> Option<(usize, f64, f64)> {
        self.admitted[c].push(t);
        let v = &self.admitted[c];
        for i in 0..v.len() {
            let n = v.len() - i;
            let bound = burst as f64 + rate as f64 * (t - v[i] + eps);
            if n as f64 > bound + 1e-9 {
                return Some((n, t - v[i], bound));
            }
        }
        None
    }
    fn untracked(&mut self, c: usize) {
        self.admitted[c].clear();
    }
}

fn self_test() {
    // burst 3, rate 1: four admissions at t=0 exceed 3 + 1·0; the fourth at t=1 does not.
    let mut b = BoundChecker::default();
    assert!(b.admit(0, 0.0, 1, 3, 0.0).is_none());
    assert!(b.admit(0, 0.0, 1, 3, 0.0).is_none());
    assert!(b.admit(0, 0.0, 1, 3, 0.0).is_none());
    assert!(b.admit(0, 0.0, 1, 3, 0.0).is_some());
    let mut b = BoundChecker::default();
    for _ in 0..3 {
        assert!(b.admit(1, 0.0, 1, 3, 0.0).is_none());
    }
    assert!(b.admit(1, 1.0, 1, 3, 0.0).is_none());
    // ... but a fifth at t=1 does (5 > 3 + 1), and the inner interval [1,1] alone is fine
    assert_eq!(b.admit(1, 1.0, 1, 3, 0.0).map(|x| x.0), Some(5));
    // burst 0 admits nothing at all; rate 0 never refills
    let mut b = BoundChecker::default();
    assert!(b.admit(2, 5.0, 50, 0, 0.0).is_some());
    let mut b = BoundChecker::default();
    assert!(b.admit(0, 0.0, 0, 1, 0.0).is_none());
    assert!(b.admit(0, 100.0, 0, 1, 0.0).is_some());
    // a new tracking period starts from scratch
    b.untracked(0);
    assert!(b.admit(0, 100.0, 0, 1, 0.0).is_none());
    // ε is honoured: 2 admissions 0.999 s apart at rate 1, burst 1 need ε ≥ 1 ms
    let mut b = BoundChecker::default();
    assert!(b.admit(0, 0.0, 1, 1, 0.0).is_none());
    assert!(b.admit(0, 0.999, 1, 1, 0.002).is_none());
    let mut b = BoundChecker::default();
    assert!(b.admit(0, 0.0, 1, 1, 0.0).is_none());
    assert!(b.admit(0, 0.999, 1, 1, 0.0).is_some());
}

// ---------------------------------------------------------------------------------------------

struct Exec {
    obs: Obs,
    /// canonical state reached: tracked clients in least-recently-requested order with their token
    /// count in eighths (tokens live on a 0.25 grid in this space; the rounding absorbs ε)
    state: Vec<(u8, i64)>,
    evictions: u32,
    rejected: u32,
    eps: f64,
}

fn case_json(cfg: Cfg, hist: &[usize]) -> Value {
    json!({"kind":"history","rate":cfg.rate,"burst":cfg.burst,"capacity":cfg.cap,"ops":hist,
           "readable":hist.iter().map(|i| op_str(op_of(*i))).collect::<Vec<_>>()})
}

/// Execute one history on a fresh limiter, checking the property at every step.
fn run_history(cfg: Cfg, hist: &[usize], acc: &mut Acc) -> Exec {
    let lim = RateLimiter::new(RateLimitConfig { enabled: true, requests_per_second: cfg.rate, burst_size: cfg.burst, max_tracked_ips: cfg.cap });
    let rate_class = if cfg.rate == 0 { "rate0" } else { "rate_pos" };
    let burst_class = if cfg.burst == 0 { "burst0" } else { "burst_pos" };
    let mut obs = Obs { results: Vec::with_capacity(hist.len()), tracked: Vec::with_capacity(hist.len()) };
    let mut oracle = BoundChecker::default();
    let mut t = 0.0f64;
    let mut tracked_before = 0u8;
    let mut last_req = [usize::MAX; NCLIENTS];
    let (mut evictions, mut rejected) = (0u32, 0u32);
    let start = Instant::now();
    for (k, oi) in hist.iter().enumerate() {
        let op = op_of(*oi);
        match op {
            Op::Adv(ms) => {
                lim.verif_backdate_all(Duration::from_millis(ms)).now_or_never().expect("uncontended lock");
                t += ms as f64 / 1000.0;
                obs.results.push(Res::Advanced);
            }
            Op::Req(c) => {
                last_req[c] = k;
                let r = mc::catch(|| lim.check(ip(c)).now_or_never().expect("uncontended lock"));
                match r {
                    Err(msg) => {
                        obs.results.push(Res::Panicked);
                        acc.viol.add(
                            format!("C30:{rate_class}:check_panics:{burst_class}"),
                            format!("RateLimiter::check panics ({msg} at {}) for the accepted configuration rate={}/s burst={} capacity={} after {:?}", mc::last_panic_location(), cfg.rate, cfg.burst, cfg.cap, hist[..=k].iter().map(|i| op_str(op_of(*i))).collect::<Vec<_>>()),
                            case_json(cfg, &hist[..=k]),
                            k + 1,
                        );
                        obs.tracked.push(tracked_before);
                        break;
                    }
                    Ok(RateLimitResult::Limited { retry_after }) => {
                        rejected += 1;
                        obs.results.push(Res::Rejected);
                        // finite by type; recorded so that the evidence shows the values met
                        acc.count(if retry_after > Duration::from_secs(3600) { "retry_after_over_1h" } else { "retry_after_up_to_1h" }, 1);
                    }
                    Ok(RateLimitResult::Allowed { .. }) => {
                        obs.results.push(Res::Admitted);
                        // a client that was not tracked before this request starts a new period
                        if tracked_before & (1 << c) == 0 {
                            oracle.untracked(c);
                        }
                        let eps = start.elapsed().as_secs_f64();
                        if let Some((n, span, bound)) = oracle.admit(c, t, cfg.rate, cfg.burst, eps) {
                            let ev = if evictions > 0 { "after_eviction" } else { "no_eviction" };
                            acc.viol.add(
                                format!("C30:{rate_class}:bound_exceeded:{ev}"),
                                format!("client {c} stayed tracked and had {n} requests admitted within {span} s; bound burst + rate·T = {bound:.3} (rate={}/s burst={} capacity={}, ε={eps:.6} s) after {:?}", cfg.rate, cfg.burst, cfg.cap, hist[..=k].iter().map(|i| op_str(op_of(*i))).collect::<Vec<_>>()),
                                case_json(cfg, &hist[..=k]),
                                k + 1,
                            );
                        }
                    }
                }
            }
        }
        if obs.tracked.len() == k {
            let tr = lim.verif_tracked().now_or_never().expect("uncontended lock");
            let mut mask = 0u8;
            for (addr, _) in &tr {
                for c in 0..NCLIENTS {
                    if *addr == ip(c) {
                        mask |= 1 << c;
                    }
                }
            }
            for c in 0..NCLIENTS {
                if tracked_before & (1 << c) != 0 && mask & (1 << c) == 0 {
                    oracle.untracked(c);
                    evictions += 1;
                }
            }
            tracked_before = mask;
            obs.tracked.push(mask);
        }
    }
    let eps = start.elapsed().as_secs_f64();
    let mut state: Vec<(usize, u8, i64)> = Vec::new();
    if !obs.results.contains(&Res::Panicked) {
        for (addr, tokens) in lim.verif_tracked().now_or_never().expect("uncontended lock") {
            for c in 0..NCLIENTS {
                if addr == ip(c) {
                    state.push((last_req[c], c as u8, (tokens * 8.0).round() as i64));
                }
            }
        }
    }
    state.sort();
    Exec { obs, state: state.into_iter().map(|(_, c, q)| (c, q)).collect(), evictions, rejected, eps }
}

pub fn run(args: Args) -> ! {
    self_test();
    let mut rep = Report::new(&args, "model_checking");
    // back-dating needs a monotonic clock that is at least as old as the largest virtual time used
    if Instant::now().checked_sub(Duration::from_secs(120)).is_none() {
        mc::machinery_error("monotonic clock younger than 120 s: back-dating cannot represent the virtual time range");
    }
    let cfgs = configs();

    if let Some(path) = &args.replay {
        let case = mc::load_replay(path);
        let cfg = Cfg { rate: case["rate"].as_u64().unwrap_or(0) as u32, burst: case["burst"].as_u64().unwrap_or(0) as u32, cap: case["capacity"].as_u64().unwrap_or(1) as usize };
        let hist: Vec<usize> = case["ops"].as_array().map(|a| a.iter().map(|v| v.as_u64().unwrap_or(0) as usize).collect()).unwrap_or_default();
        if hist.iter().any(|i| *i >= NOPS) {
            mc::machinery_error("replay file: operation index out of range");
        }
        let mut acc = Acc::default();
        let ex = run_history(cfg, &hist, &mut acc);
        acc.evaluations += 1;
        println!("replay: rate={} burst={} capacity={} ops={:?} -> results {:?} tracked {:?}", cfg.rate, cfg.burst, cfg.cap, hist.iter().map(|i| op_str(op_of(*i))).collect::<Vec<_>>(), ex.obs.results, ex.obs.tracked);
        rep.absorb(acc);
        rep.finish();
    }

    let depth = args.tier.pick(6usize, 8usize);
    let space = mc::SeqSpace::new(NOPS, 0, depth);
    let per_cfg = space.total();
    let total = per_cfg * cfgs.len() as u64;

    // Determinism gate: first, middle and last history of every configuration, twice each.
    {
        let mut scratch = Acc::default();
        let mut h = Vec::new();
        for cfg in &cfgs {
            for idx in [1u64.min(per_cfg - 1), per_cfg / 2, per_cfg - 1] {
                space.decode(idx, &mut h);
                let a = run_history(*cfg, &h, &mut scratch);
                let b = run_history(*cfg, &h, &mut scratch);
                if a.obs != b.obs || a.state != b.state {
                    mc::machinery_error(&format!("C30: two executions of the same history differ ({cfg:?}, {h:?}): {:?} vs {:?}", a.obs, b.obs));
                }
            }
        }
    }

    let deadline = mc::Deadline::after(Duration::from_secs(args.tier.pick(35, 1100)));
    let max_eps = std::sync::atomic::AtomicU64::new(0);
    let states = std::sync::Mutex::new(std::collections::HashSet::<u64>::new());
    let (acc, done) = mc::par_indices(total, args.threads, 2048, |i, acc| {
        if i % 2048 == 0 && deadline.expired() {
            return false;
        }
        // histories are the slow index so that all configurations see the short histories first
        let cfg = cfgs[(i % cfgs.len() as u64) as usize];
        let mut hist = Vec::new();
        space.decode(i / cfgs.len() as u64, &mut hist);
        let ex = run_history(cfg, &hist, acc);
        acc.evaluations += 1;
        acc.count("operations_executed", ex.obs.results.len() as u64);
        if ex.rejected > 0 || ex.evictions > 0 {
            acc.nontrivial += 1;
        }
        if ex.evictions > 0 {
            acc.count("histories_with_eviction", 1);
        }
        acc.outcome(&(cfg.rate, cfg.burst, cfg.cap, &ex.obs));
        let us = (ex.eps * 1e6) as u64;
        max_eps.fetch_max(us, std::sync::atomic::Ordering::Relaxed);
        thread_local! { static LOCAL: std::cell::RefCell<Vec<u64>> = const { std::cell::RefCell::new(Vec::new()) }; }
        let key = mc::hash_of(&(cfg.rate, cfg.burst, cfg.cap, &ex.state));
        // a chunk of 2048 consecutive indices is processed by one thread: flushing at the end of every
        // chunk makes the state count exact
        LOCAL.with(|l| {
            let mut l = l.borrow_mut();
            l.push(key);
            if i % 2048 == 2047 || i == total - 1 {
                l.sort_unstable();
                l.dedup();
                states.lock().unwrap().extend(l.drain(..));
            }
        });
        true
    });
    if !done {
        rep.cap_hit(&format!("wall cap during history enumeration (depth {depth})"));
    }
    rep.traces = acc.evaluations;
    rep.transitions = acc.counts.get("operations_executed").copied().unwrap_or(0);
    rep.states = states.lock().unwrap().len() as u64;
    rep.absorb(acc);
    rep.set("configurations", json!(cfgs.len()));
    rep.set("history_depth", json!(depth));
    rep.set("histories_per_configuration", json!(per_cfg));
    rep.set("max_real_elapsed_per_history_us", json!(max_eps.load(std::sync::atomic::Ordering::Relaxed)));
    rep.set("states_note", json!("distinct (configuration, tracked clients in recency order, tokens in 1/8) reached at the end of a history"));
    rep.sample(json!({"rate":2,"burst":3,"capacity":2,"history":["request(client 0)","request(client 0)","advance(0.5 s)","request(client 1)","request(client 2)","request(client 0)"]}));
    rep.rule = format!("Every history of length 0..={depth} over {{request(client 0|1|2), advance(0.25|0.5|1|3 s)}} × rate ∈ {{0,1,2,50}}/s × burst ∈ {{0,1,3,20}} × tracked-client capacity ∈ {{1,2,4}} on a fresh real RateLimiter ({} histories). Checked at every admitted request: for every earlier admitted request of the same client inside the same uninterrupted tracking period, #admitted ≤ burst + rate·(T+ε); check() must not panic. Non-trivial = the history contains at least one rejected request or one eviction.", total);
    rep.assume("virtual time = verif_backdate_all (every bucket's last_update moved into the past); ε = real time elapsed since the start of the execution, measured per execution and added to T");
    rep.assume("which clients are tracked is observed through verif_tracked after every operation; the eviction policy itself is not part of the property and is not modelled");
    rep.assume("retry-after is a std::time::Duration and therefore finite whenever check() returns; an infinite value shows up as the panic of Duration::from_secs_f64");
    rep.assume("histories are enumerated without state merging; every explored trace is an execution of the real RateLimiter");
    rep.finish()
}
