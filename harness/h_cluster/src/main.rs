//! h_cluster — checks on the cluster crate (varpulis-cluster), see DESIGN.md §3:
//!   C30 rate limiter bound (E2 histories over a virtual clock)            -> c30.rs
//!   C33 placement only on available workers, failure-detection timing    -> c33.rs
//!   C34 event routing deterministic and sticky (single vs batch)         -> c34.rs
//!   C39 injected connector declarations carry the stored parameters      -> c39.rs
//! `mock.rs` is the loopback mock worker (warp server on 127.0.0.1) used by C33 and C34.

mod c30;
mod c33;
mod c34;
mod c39;
mod mock;

fn main() {
    let args = mc::parse_args();
    if std::env::var_os("VERIF_LOUD_PANICS").is_none() {
        mc::quiet_panics();
    }
    match args.prop.as_str() {
        "C30" => c30::run(args),
        "C33" => c33::run(args),
        "C34" => c34::run(args),
        "C39" => c39::run(args),
        other => mc::machinery_error(&format!("h_cluster serves C30, C33, C34 and C39, not {other}")),
    }
}
