//! Loopback mock worker: one warp server on 127.0.0.1 that plays every worker of every execution.
//!
//! A worker address handed to the coordinator is `http://127.0.0.1:<port>/<world>/<worker>`, so the
//! real coordinator code (`format!("{address}/api/v1/pipelines…")`) reaches
//! `/<world>/<worker>/api/v1/pipelines…`. `<world>` is unique per execution; everything the mock
//! receives is appended to that world's log in arrival order (the coordinator code under test issues
//! its requests sequentially, so arrival order = issue order).

use serde_json::{json, Value};
use std::collections::HashMap;
use std::sync::atomic::{AtomicU64, Ordering};
use std::sync::{Arc, Mutex};
use warp::Filter;

#[derive(Clone, Debug, PartialEq)]
pub enum Rec {
    /// POST /api/v1/pipelines — a pipeline was placed on `worker`
    Deploy { worker: String, name: String, id: String },
    /// POST /api/v1/pipelines/<id>/events or /events-batch — one entry per event
    Event { worker: String, pipeline_id: String, event: Value, batch: bool },
    /// DELETE /api/v1/pipelines/<id>
    Delete { worker: String, pipeline_id: String },
    /// anything else (checkpoint, restore)
    Other { worker: String, what: String },
}

type Logs = Arc<Mutex<HashMap<String, Vec<Rec>>>>;

pub struct Mock {
    pub port: u16,
    logs: Logs,
    next_world: AtomicU64,
    _rt: tokio::runtime::Runtime,
}

impl Mock {
    pub fn start(server_threads: usize) -> Arc<Mock> {
        let rt = tokio::runtime::Builder::new_multi_thread().worker_threads(server_threads.max(1)).enable_all().build().unwrap_or_else(|e| mc::machinery_error(&format!("mock worker runtime: {e}")));
        let logs: Logs = Arc::new(Mutex::new(HashMap::new()));
        let l = logs.clone();
        let with_logs = warp::any().map(move || l.clone());
        let base = warp::path::param::<String>().and(warp::path::param::<String>()).and(warp::path("api")).and(warp::path("v1")).and(warp::path("pipelines"));

        let deploy = base.clone().and(warp::path::end()).and(warp::post()).and(warp::body::json()).and(with_logs.clone()).map(|world: String, worker: String, body: Value, logs: Logs| {
            let name = body["name"].as_str().unwrap_or("").to_string();
            let mut g = logs.lock().unwrap();
            let log = g.entry(world).or_default();
            let n = log.iter().filter(|r| matches!(r, Rec::Deploy { .. })).count();
            let id = format!("{worker}-m{n}");
            log.push(Rec::Deploy { worker, name: name.clone(), id: id.clone() });
            warp::reply::json(&json!({"id": id, "name": name, "status": "running"}))
        });
        let single = base.clone().and(warp::path::param::<String>()).and(warp::path("events")).and(warp::path::end()).and(warp::post()).and(warp::body::json()).and(with_logs.clone()).map(|world: String, worker: String, id: String, body: Value, logs: Logs| {
            logs.lock().unwrap().entry(world).or_default().push(Rec::Event { worker, pipeline_id: id, event: body, batch: false });
            warp::reply::json(&json!({"accepted": true, "output_events": []}))
        });
        let batch = base.clone().and(warp::path::param::<String>()).and(warp::path("events-batch")).and(warp::path::end()).and(warp::post()).and(warp::body::json()).and(with_logs.clone()).map(|world: String, worker: String, id: String, body: Value, logs: Logs| {
            let evs = body["events"].as_array().cloned().unwrap_or_default();
            let n = evs.len();
            let mut g = logs.lock().unwrap();
            let log = g.entry(world).or_default();
            for e in evs {
                log.push(Rec::Event { worker: worker.clone(), pipeline_id: id.clone(), event: e, batch: true });
            }
            warp::reply::json(&json!({"accepted": n, "output_events": []}))
        });
        let delete = base.clone().and(warp::path::param::<String>()).and(warp::path::end()).and(warp::delete()).and(with_logs.clone()).map(|world: String, worker: String, id: String, logs: Logs| {
            logs.lock().unwrap().entry(world).or_default().push(Rec::Delete { worker, pipeline_id: id });
            warp::reply::json(&json!({"deleted": true}))
        });
        // checkpoint: answered with 404 (the coordinator treats a missing checkpoint as "none"); restore: 200
        let other = base.and(warp::path::param::<String>()).and(warp::path::param::<String>()).and(warp::path::end()).and(warp::post()).and(with_logs).map(|world: String, worker: String, _id: String, what: String, logs: Logs| {
            let status = if what == "checkpoint" { warp::http::StatusCode::NOT_FOUND } else { warp::http::StatusCode::OK };
            logs.lock().unwrap().entry(world).or_default().push(Rec::Other { worker, what });
            warp::reply::with_status(warp::reply::json(&json!({})), status)
        });
        let routes = deploy.or(single).or(batch).or(delete).or(other);
        let (addr, server) = {
            let _g = rt.enter();
            warp::serve(routes).try_bind_ephemeral(([127, 0, 0, 1], 0)).unwrap_or_else(|e| mc::machinery_error(&format!("mock worker cannot bind a loopback port: {e}")))
        };
        rt.spawn(server);
        Arc::new(Mock { port: addr.port(), logs, next_world: AtomicU64::new(0), _rt: rt })
    }

    /// A fresh namespace for one execution.
    pub fn new_world(&self) -> String {
        format!("x{}", self.next_world.fetch_add(1, Ordering::Relaxed))
    }

    pub fn address(&self, world: &str, worker: &str) -> String {
        format!("http://127.0.0.1:{}/{}/{}", self.port, world, worker)
    }

    /// Everything received for `world` so far, removed from the mock.
    pub fn take(&self, world: &str) -> Vec<Rec> {
        self.logs.lock().unwrap().remove(world).unwrap_or_default()
    }

    /// Number of records received for `world` so far.
    #[allow(dead_code)]
    pub fn len(&self, world: &str) -> usize {
        self.logs.lock().unwrap().get(world).map(|v| v.len()).unwrap_or(0)
    }
}
