//! C33 — pipelines are only placed on available workers and failures are detected.
//!
//! E2: breadth-first search over operation histories on the real `Coordinator` (fresh object per
//! history, replay from scratch), states deduplicated by a canonical projection. Virtual clock =
//! back-dating the pub field `WorkerNode.last_heartbeat` (the real `elapsed() > timeout` decides).
//!
//! Operations: advance 5 s · health_sweep · heartbeat(w) · set draining(w) · deregister(w) ·
//! deploy a pipeline pinned to w / unpinned (the deploy handler's phases plan → worker outcome →
//! commit) · manual migrate to w (the real HTTP handler through `cluster_routes`) ·
//! handle_worker_failure(w) · drain_worker(w) · rebalance. Every worker call made by the coordinator
//! goes to the loopback mock worker, which records on which worker a pipeline was deployed.
//!
//! Oracle (property text only):
//!  * placement: a worker chosen by a deploy plan, or receiving a deploy during migrate / failover /
//!    drain / rebalance, is registered and neither unhealthy nor draining at that moment; a pinned
//!    pipeline goes to its pin whenever the pin is available;
//!  * health automaton: a Ready worker turns Unhealthy exactly at the first sweep with heartbeat age
//!    > timeout (age == timeout ± real-time noise is a don't-care), never through any other
//!    operation; a heartbeat makes an Unhealthy worker Ready again.
//!
//! `std::collections::HashMap` (RandomState) makes some choices of the real code differ between two
//! replays of one history (which of several available workers an unpinned pipeline gets, failover
//! tie-breaks, rebalance order). Such an operation is checked where it occurs (any choice must
//! satisfy the oracle) and the history is not extended beyond it, so every *expanded* state is a
//! deterministic function of its history.

use crate::mock::{Mock, Rec};
use mc::{Acc, Args, Report};
use serde_json::{json, Value};
use std::cell::RefCell;
use std::sync::atomic::{AtomicU64, Ordering};
use std::sync::{Arc, Mutex};
use std::time::{Duration, Instant};
use varpulis_cluster::api::{cluster_routes, SharedCoordinator};
use varpulis_cluster::coordinator::{Coordinator, DeployResponse, DeployTaskResult};
use varpulis_cluster::pipeline_group::{PipelineGroupSpec, PipelinePlacement};
use varpulis_cluster::rbac::RbacConfig;
use varpulis_cluster::worker::{HeartbeatRequest, WorkerId, WorkerNode, WorkerStatus};

const STEP_S: u64 = 5;
const MAX_DEPLOYS: usize = 2;

#[derive(Clone, Copy, Debug, PartialEq, Eq)]
enum St {
    Ready,
    Unhealthy,
    Draining,
    Registering,
    Gone,
}
impl St {
    fn name(self) -> &'static str {
        match self {
            St::Ready => "ready",
            St::Unhealthy => "unhealthy",
            St::Draining => "draining",
            St::Registering => "registering",
            St::Gone => "deregistered",
        }
    }
}

/// Reference automaton state of one worker.
#[derive(Clone, Copy, Debug, PartialEq, Eq)]
struct MW {
    st: St,
    /// virtual seconds since registration / last heartbeat
    age: u64,
}

#[derive(Clone, Copy, Debug, PartialEq, Eq)]
enum Op {
    Adv,
    Sweep,
    Hb(usize),
    SetDraining(usize),
    Dereg(usize),
    DeployPinned(usize),
    DeployUnpinned,
    Migrate(usize),
    Failover(usize),
    Drain(usize),
    Rebalance,
}

impl Op {
    fn kind(self) -> &'static str {
        match self {
            Op::Adv => "advance",
            Op::Sweep => "sweep",
            Op::Hb(_) => "heartbeat",
            Op::SetDraining(_) => "set_draining",
            Op::Dereg(_) => "deregister",
            Op::DeployPinned(_) => "deploy_pinned",
            Op::DeployUnpinned => "deploy_unpinned",
            Op::Migrate(_) => "manual_migrate",
            Op::Failover(_) => "failover",
            Op::Drain(_) => "drain",
            Op::Rebalance => "rebalance",
        }
    }
    fn text(self) -> String {
        match self {
            Op::Adv => format!("advance {STEP_S} s"),
            Op::Sweep => "health_sweep".into(),
            Op::Hb(w) => format!("heartbeat(w{w})"),
            Op::SetDraining(w) => format!("set w{w} draining"),
            Op::Dereg(w) => format!("deregister(w{w})"),
            Op::DeployPinned(w) => format!("deploy pipeline pinned to w{w}"),
            Op::DeployUnpinned => "deploy unpinned pipeline".into(),
            Op::Migrate(w) => format!("manual migrate to w{w}"),
            Op::Failover(w) => format!("handle_worker_failure(w{w})"),
            Op::Drain(w) => format!("drain_worker(w{w})"),
            Op::Rebalance => "rebalance".into(),
        }
    }
}

/// simplest first: clock and health operations, then status changes, then placements
fn alphabet(n: usize) -> Vec<Op> {
    let mut v = vec![Op::Adv, Op::Sweep];
    v.extend((0..n).map(Op::Hb));
    v.extend((0..n).map(Op::Migrate));
    v.extend((0..n).map(Op::SetDraining));
    v.extend((0..n).map(Op::Dereg));
    v.extend((0..n).map(Op::DeployPinned));
    v.push(Op::DeployUnpinned);
    v.extend((0..n).map(Op::Failover));
    v.extend((0..n).map(Op::Drain));
    v.push(Op::Rebalance);
    v
}

#[derive(Clone, Copy, Debug, PartialEq, Eq)]
struct Cfg {
    n: usize,
    timeout_s: u64,
    /// 0: all workers registered, nothing deployed; 1: w0 registered, group g0 = {a pinned to w0,
    /// b, c unpinned} deployed on it, then the other workers register; 2: as 1, and worker i sent its
    /// last heartbeat 5·i s ago (staggered ages, so that stale workers are met after few operations)
    setup: usize,
}

fn wid(i: usize) -> WorkerId {
    WorkerId(format!("w{i}"))
}
fn widx(id: &str) -> Option<usize> {
    id.strip_prefix('w').and_then(|s| s.parse().ok())
}

// ---------------------------------------------------------------------------------------------
// Reference automaton (health) — the only "model" in this check.

/// expected status after a sweep; None = don't-care (age equals the timeout up to real-time noise)
fn model_sweep(w: MW, timeout_s: u64) -> Option<St> {
    match w.st {
        St::Ready if w.age > timeout_s => Some(St::Unhealthy),
        St::Ready if w.age == timeout_s => None,
        s => Some(s),
    }
}
/// expected status after a heartbeat; None = the text is silent (registering worker).
/// A draining worker stays draining: "a heartbeat makes it available again" speaks about the worker
/// a sweep marked unhealthy, and a worker somebody put into draining must not become a placement
/// target again just because its process is still alive (found missing by seeded change C33).
fn model_heartbeat(w: MW) -> Option<St> {
    match w.st {
        St::Unhealthy => Some(St::Ready),
        St::Draining => Some(St::Draining),
        St::Registering => None,
        s => Some(s),
    }
}

fn self_test() {
    let r = |age| MW { st: St::Ready, age };
    assert_eq!(model_sweep(r(10), 15), Some(St::Ready));
    assert_eq!(model_sweep(r(15), 15), None);
    assert_eq!(model_sweep(r(20), 15), Some(St::Unhealthy));
    assert_eq!(model_sweep(r(10), 12), Some(St::Ready));
    assert_eq!(model_sweep(r(15), 12), Some(St::Unhealthy));
    assert_eq!(model_sweep(MW { st: St::Draining, age: 60 }, 15), Some(St::Draining));
    assert_eq!(model_sweep(MW { st: St::Unhealthy, age: 60 }, 15), Some(St::Unhealthy));
    assert_eq!(model_heartbeat(MW { st: St::Unhealthy, age: 60 }), Some(St::Ready));
    assert_eq!(model_heartbeat(r(60)), Some(St::Ready));
    assert_eq!(model_heartbeat(MW { st: St::Draining, age: 0 }), Some(St::Draining));
    assert_eq!(alphabet(2).len(), 18);
}

// ---------------------------------------------------------------------------------------------

struct Finding {
    sig: String,
    desc: String,
    /// added to the case size, so that the more telling of two equally short cases is kept
    penalty: usize,
}

#[derive(PartialEq, Eq, Debug, Clone, Copy)]
enum Applied {
    Disabled,
    /// the state reached is a function of the history
    Det,
    /// checked, but the state reached depends on hash-map iteration order: not extended
    Leaf,
}

struct World {
    cfg: Cfg,
    shared: SharedCoordinator,
    ns: String,
    model: Vec<MW>,
    deploys: usize,
    /// (group name, pipeline name) that manual migration moves
    subject: Option<(String, String)>,
}

thread_local! { static RT: RefCell<Option<tokio::runtime::Runtime>> = const { RefCell::new(None) }; }

fn block_on<F: std::future::Future>(f: F) -> F::Output {
    RT.with(|r| {
        let mut r = r.borrow_mut();
        if r.is_none() {
            *r = Some(tokio::runtime::Builder::new_current_thread().enable_all().build().unwrap_or_else(|e| mc::machinery_error(&format!("runtime: {e}"))));
        }
        r.as_ref().unwrap().block_on(f)
    })
}

fn real_status(c: &Coordinator, i: usize) -> St {
    match c.workers.get(&wid(i)) {
        None => St::Gone,
        Some(w) => match w.status {
            WorkerStatus::Ready => St::Ready,
            WorkerStatus::Unhealthy => St::Unhealthy,
            WorkerStatus::Draining => St::Draining,
            WorkerStatus::Registering => St::Registering,
        },
    }
}

fn register(c: &mut Coordinator, mock: &Mock, ns: &str, i: usize) {
    let mut n = WorkerNode::new(wid(i), mock.address(ns, &format!("w{i}")), "key".into());
    n.capacity.cpu_cores = 1;
    n.capacity.max_pipelines = 100;
    c.register_worker(n);
}

fn spec_of(group: &str, pipes: &[(&str, Option<usize>)]) -> PipelineGroupSpec {
    PipelineGroupSpec {
        name: group.into(),
        pipelines: pipes.iter().map(|(p, pin)| PipelinePlacement { name: p.to_string(), source: "stream S = A\n".into(), worker_affinity: pin.map(|i| format!("w{i}")), replicas: 1, partition_key: None }).collect(),
        routes: vec![],
    }
}

/// commit phase of the deploy handler with the worker outcome "success"
fn commit(c: &mut Coordinator, plan: varpulis_cluster::coordinator::DeployGroupPlan) {
    let results: Vec<DeployTaskResult> = plan
        .tasks
        .iter()
        .map(|t| DeployTaskResult {
            replica_name: t.replica_name.clone(),
            pipeline_name: t.pipeline_name.clone(),
            worker_id: t.worker_id.clone(),
            worker_address: t.worker_address.clone(),
            worker_api_key: t.worker_api_key.clone(),
            replica_count: t.replica_count,
            outcome: Ok(DeployResponse { id: format!("{}-{}", plan.spec.name, t.replica_name), name: t.replica_name.clone(), status: "running".into() }),
        })
        .collect();
    let _ = c.commit_deploy_group(plan, results);
}

fn new_world(cfg: Cfg, mock: &Mock) -> World {
    let ns = mock.new_world();
    let mut c = Coordinator::new();
    c.heartbeat_timeout = Duration::from_secs(cfg.timeout_s);
    let mut subject = None;
    if cfg.setup >= 1 {
        register(&mut c, mock, &ns, 0);
        let spec = spec_of("g0", &[("a", Some(0)), ("b", None), ("c", None)]);
        let plan = c.plan_deploy_group(&spec).unwrap_or_else(|e| mc::machinery_error(&format!("C33 setup: {e}")));
        if plan.tasks.iter().any(|t| t.worker_id != wid(0)) {
            mc::machinery_error("C33 setup: with one registered worker a pipeline was planned elsewhere");
        }
        commit(&mut c, plan);
        subject = Some(("g0".to_string(), "a".to_string()));
        for i in 1..cfg.n {
            register(&mut c, mock, &ns, i);
        }
    } else {
        for i in 0..cfg.n {
            register(&mut c, mock, &ns, i);
        }
    }
    let mut model = vec![MW { st: St::Ready, age: 0 }; cfg.n];
    if cfg.setup == 2 {
        for i in 0..cfg.n {
            let back = STEP_S * i as u64;
            if let Some(node) = c.workers.get_mut(&wid(i)) {
                node.last_heartbeat = node.last_heartbeat.checked_sub(Duration::from_secs(back)).unwrap_or_else(|| mc::machinery_error("C33: monotonic clock too young for back-dating"));
            }
            model[i].age = back;
        }
    }
    World { cfg, shared: Arc::new(tokio::sync::RwLock::new(c)), ns, model, deploys: 0, subject }
}

fn group_id(c: &Coordinator, name: &str) -> Option<String> {
    c.pipeline_groups.iter().find(|(_, g)| g.name == name).map(|(id, _)| id.clone())
}

fn deploys_in(log: &[Rec]) -> Vec<(usize, String)> {
    log.iter().filter_map(|r| if let Rec::Deploy { worker, name, .. } = r { widx(worker).map(|i| (i, name.clone())) } else { None }).collect()
}

/// Apply one operation to the real coordinator and to the reference automaton; returns how the
/// operation went and what the oracle found.
fn apply(w: &mut World, op: Op, mock: &Mock) -> (Applied, Vec<Finding>) {
    let n = w.cfg.n;
    let pre = w.model.clone();
    let mut findings: Vec<Finding> = Vec::new();
    // expected status per worker after the op; None = don't care
    let mut expected: Vec<Option<St>> = pre.iter().map(|m| Some(m.st)).collect();
    let mut applied = Applied::Det;
    let available: Vec<usize> = (0..n).filter(|i| pre[*i].st == St::Ready).collect();
    let target_finding = |findings: &mut Vec<Finding>, kind: &str, j: usize, what: String| {
        if j >= n || pre[j].st != St::Ready {
            let st = if j >= n { "unknown" } else { pre[j].st.name() };
            findings.push(Finding { sig: format!("C33:{kind}:target_{st}"), desc: format!("{what} was deployed on w{j}, which is {st} at that moment"), penalty: 0 });
        }
    };
    let mut c = w.shared.try_write().unwrap_or_else(|_| mc::machinery_error("C33: coordinator lock held"));
    match op {
        Op::Adv => {
            for node in c.workers.values_mut() {
                node.last_heartbeat = node.last_heartbeat.checked_sub(Duration::from_secs(STEP_S)).unwrap_or_else(|| mc::machinery_error("C33: monotonic clock too young for back-dating"));
            }
            for m in w.model.iter_mut() {
                if m.st != St::Gone {
                    m.age += STEP_S;
                }
            }
        }
        Op::Sweep => {
            c.health_sweep();
            for i in 0..n {
                expected[i] = model_sweep(pre[i], w.cfg.timeout_s);
            }
        }
        Op::Hb(i) => {
            if pre[i].st == St::Gone {
                return (Applied::Disabled, findings);
            }
            let running = c.workers.get(&wid(i)).map(|x| x.assigned_pipelines.len()).unwrap_or(0);
            let _ = c.heartbeat(&wid(i), &HeartbeatRequest { events_processed: 0, pipelines_running: running, pipeline_metrics: vec![] });
            expected[i] = model_heartbeat(pre[i]);
            w.model[i].age = 0;
        }
        Op::SetDraining(i) => {
            if pre[i].st == St::Gone || pre[i].st == St::Draining {
                return (Applied::Disabled, findings);
            }
            if let Some(node) = c.workers.get_mut(&wid(i)) {
                node.status = WorkerStatus::Draining;
            }
            expected[i] = Some(St::Draining);
        }
        Op::Dereg(i) => {
            if pre[i].st == St::Gone {
                return (Applied::Disabled, findings);
            }
            let _ = c.deregister_worker(&wid(i));
            expected[i] = Some(St::Gone);
        }
        Op::DeployPinned(_) | Op::DeployUnpinned => {
            if w.deploys >= MAX_DEPLOYS {
                return (Applied::Disabled, findings);
            }
            let pin = if let Op::DeployPinned(i) = op { Some(i) } else { None };
            let gname = format!("d{}", w.deploys);
            let spec = spec_of(&gname, &[("p", pin)]);
            let pin_available = pin.map(|i| pre[i].st == St::Ready).unwrap_or(false);
            match c.plan_deploy_group(&spec) {
                Ok(plan) => {
                    for t in &plan.tasks {
                        let j = widx(&t.worker_id.0).unwrap_or(usize::MAX);
                        target_finding(&mut findings, op.kind(), j, format!("pipeline {}", t.replica_name));
                        if pin_available && Some(j) != pin {
                            findings.push(Finding { sig: "C33:deploy_pinned:available_pin_not_used".into(), desc: format!("pipeline pinned to w{} was planned on w{j} although w{} is ready", pin.unwrap(), pin.unwrap()), penalty: 0 });
                        }
                    }
                    if pin_available || available.len() == 1 {
                        commit(&mut c, plan);
                        w.deploys += 1;
                        if w.subject.is_none() {
                            w.subject = Some((gname, "p".into()));
                        }
                    } else {
                        applied = Applied::Leaf;
                    }
                }
                Err(e) => {
                    if pin_available {
                        findings.push(Finding { sig: "C33:deploy_pinned:available_pin_not_used".into(), desc: format!("pipeline pinned to the ready worker w{} was refused: {e}", pin.unwrap()), penalty: 0 });
                    }
                }
            }
        }
        Op::Migrate(t) => {
            let Some((gname, pname)) = w.subject.clone() else { return (Applied::Disabled, findings) };
            let Some(gid) = group_id(&c, &gname) else { return (Applied::Disabled, findings) };
            let before = c.pipeline_groups[&gid].placements.get(&pname).map(|d| (d.worker_id.0.clone(), d.epoch));
            drop(c);
            let _ = mock.take(&w.ns);
            let routes = cluster_routes(w.shared.clone(), Arc::new(RbacConfig::disabled()), None);
            let resp = block_on(warp::test::request().method("POST").path(&format!("/api/v1/cluster/pipelines/{gid}/{pname}/migrate")).json(&json!({"target_worker_id": format!("w{t}")})).reply(&routes));
            let log = mock.take(&w.ns);
            c = w.shared.try_write().unwrap_or_else(|_| mc::machinery_error("C33: coordinator lock held after the migrate handler"));
            let after = c.pipeline_groups.get(&gid).and_then(|g| g.placements.get(&pname)).map(|d| (d.worker_id.0.clone(), d.epoch));
            let deployed_on_target = deploys_in(&log).iter().any(|(j, _)| *j == t) || (after != before && after.as_ref().map(|a| a.0 == format!("w{t}")).unwrap_or(false));
            if deployed_on_target && pre[t].st != St::Ready {
                findings.push(Finding {
                    sig: format!("C33:manual_migrate:target_availability_not_checked:{}", pre[t].st.name()),
                    desc: format!("manual migration of {gname}/{pname} to w{t}, which is {} at that moment, was accepted (HTTP {}) and the pipeline was deployed there (placement (worker, epoch) {:?} -> {:?})", pre[t].st.name(), resp.status().as_u16(), before, after),
                    // a migration onto the worker the pipeline already runs on is the less telling case
                    penalty: if before.as_ref().map(|b| b.0 == format!("w{t}")).unwrap_or(false) { 25 } else { 0 },
                });
            }
        }
        Op::Failover(i) | Op::Drain(i) => {
            if pre[i].st == St::Gone {
                return (Applied::Disabled, findings);
            }
            let affected = c.pipeline_groups.values().flat_map(|g| g.placements.values()).filter(|d| d.worker_id == wid(i)).count();
            let candidates = available.iter().filter(|j| **j != i).count();
            let _ = mock.take(&w.ns);
            let is_drain = matches!(op, Op::Drain(_));
            if is_drain {
                let _ = block_on(c.drain_worker(&wid(i), None));
                expected[i] = None; // the text does not say what draining does to the worker itself
            } else {
                let _ = block_on(c.handle_worker_failure(&wid(i)));
            }
            let log = mock.take(&w.ns);
            for (j, name) in deploys_in(&log) {
                target_finding(&mut findings, op.kind(), j, format!("pipeline {name}"));
                if j == i {
                    findings.push(Finding { sig: format!("C33:{}:target_is_the_worker_itself", op.kind()), desc: format!("pipeline {name} was re-deployed on w{i}, the worker being {}", if is_drain { "drained" } else { "failed over" }), penalty: 0 });
                }
            }
            if affected > 0 && candidates >= 2 {
                applied = Applied::Leaf;
            }
        }
        Op::Rebalance => {
            let _ = mock.take(&w.ns);
            let _ = block_on(c.rebalance());
            let log = mock.take(&w.ns);
            let d = deploys_in(&log);
            for (j, name) in &d {
                target_finding(&mut findings, op.kind(), *j, format!("pipeline {name}"));
            }
            if !d.is_empty() {
                applied = Applied::Leaf;
            }
        }
    }
    // health automaton: compare, then adopt the real status where the text is silent
    for i in 0..n {
        let real = real_status(&c, i);
        match expected[i] {
            Some(e) if e != real => {
                let shape = match (op, pre[i].st, e) {
                    (Op::Sweep, St::Ready, St::Unhealthy) => "stale_ready_worker_not_marked_unhealthy".to_string(),
                    (Op::Sweep, St::Ready, St::Ready) => "fresh_ready_worker_not_left_ready".to_string(),
                    (Op::Hb(_), St::Unhealthy, St::Ready) => "unhealthy_worker_not_recovered".to_string(),
                    _ => format!("{}_worker_changed", pre[i].st.name()),
                };
                findings.push(Finding {
                    sig: format!("C33:health:{}:{shape}", op.kind()),
                    desc: format!("after `{}` worker w{i} (was {}, heartbeat age {} s, timeout {} s) is {} but must be {}", op.text(), pre[i].st.name(), pre[i].age, w.cfg.timeout_s, real.name(), e.name()),
                    penalty: 0,
                });
            }
            _ => {}
        }
        w.model[i].st = real;
        if real == St::Gone {
            w.model[i].age = 0;
        }
    }
    (applied, findings)
}

/// Canonical projection. Kept: per worker registration, status, heartbeat age in steps (only while
/// Ready — the only status for which the sweep reads it — capped just above the timeout),
/// pipelines_running, assigned pipelines; per group (by name) every placement's worker and status;
/// number of deploys made and the migration subject. Dropped: uuids, addresses, metrics, migration
/// records, pending_rebalance (not read by any operation of the alphabet).
fn canon(w: &World) -> String {
    let c = w.shared.try_read().unwrap_or_else(|_| mc::machinery_error("C33: coordinator lock held"));
    let cap = w.cfg.timeout_s / STEP_S + 2;
    let mut s = String::new();
    for i in 0..w.cfg.n {
        match c.workers.get(&wid(i)) {
            None => s.push_str("gone|"),
            Some(node) => {
                let mut a = node.assigned_pipelines.clone();
                a.sort();
                let age = if node.status == WorkerStatus::Ready { (w.model[i].age / STEP_S).min(cap) as i64 } else { -1 };
                s.push_str(&format!("{:?},{age},{},{a:?}|", node.status, node.capacity.pipelines_running));
            }
        }
    }
    let mut gs: Vec<String> = c
        .pipeline_groups
        .values()
        .map(|g| {
            let mut p: Vec<String> = g.placements.iter().map(|(k, d)| format!("{k}@{}:{:?}", d.worker_id.0, d.status)).collect();
            p.sort();
            format!("{}{p:?}", g.name)
        })
        .collect();
    gs.sort();
    s.push_str(&format!("{gs:?}|{}|{:?}", w.deploys, w.subject));
    s
}

fn case_json(cfg: Cfg, hist: &[usize], alpha: &[Op]) -> Value {
    json!({"kind":"history","workers":cfg.n,"timeout_s":cfg.timeout_s,"setup":cfg.setup,"ops":hist,"readable":hist.iter().map(|i| alpha[*i].text()).collect::<Vec<_>>()})
}

struct Run {
    /// None = history not enabled
    last: Option<Applied>,
    findings: Vec<Finding>,
    key: String,
    elapsed: Duration,
}

/// Execute one history from scratch. Findings are those of the *last* operation (every proper
/// prefix is itself an explored history).
fn run_history(cfg: Cfg, alpha: &[Op], hist: &[usize], mock: &Mock) -> Run {
    for attempt in 0..5 {
        let start = Instant::now();
        let mut w = new_world(cfg, mock);
        let mut last = Some(Applied::Det);
        let mut findings = Vec::new();
        for (k, oi) in hist.iter().enumerate() {
            let (a, f) = apply(&mut w, alpha[*oi], mock);
            if a == Applied::Disabled || (a == Applied::Leaf && k + 1 < hist.len()) || (!f.is_empty() && k + 1 < hist.len()) {
                // prefixes that are disabled, nondeterministic or violating are never extended
                last = None;
                break;
            }
            last = Some(a);
            findings = f;
        }
        let key = canon(&w);
        let _ = mock.take(&w.ns);
        let elapsed = start.elapsed();
        // every age carries the real time elapsed; decisions are ≥ 2 s away from it except the
        // declared don't-care, so anything below 1 s is harmless
        if elapsed < Duration::from_secs(1) || attempt == 4 {
            if elapsed >= Duration::from_secs(1) {
                mc::machinery_error("C33: one execution took more than 1 s of real time five times in a row; the virtual clock is not trustworthy on this machine right now");
            }
            return Run { last, findings, key, elapsed };
        }
    }
    unreachable!()
}

fn configs(tier: mc::Tier) -> Vec<(Cfg, usize)> {
    // (configuration, history depth)
    let mut v = Vec::new();
    let plan: &[(usize, usize, usize)] = match tier {
        // (workers, depth for timeout 15 s, depth for timeout 12 s)
        mc::Tier::Quick => &[(1, 6, 6), (2, 5, 4), (3, 3, 3)],
        mc::Tier::Thorough => &[(1, 8, 8), (2, 7, 7), (3, 5, 5), (4, 4, 4)],
    };
    for &(n, d15, d12) in plan {
        // staggered ages need ≥ 2 workers; the quick tier drops setup 1, which setup 2 refines
        let setups: &[usize] = match (n, tier) {
            (1, _) => &[1, 0],
            (_, mc::Tier::Quick) => &[2, 0],
            _ => &[2, 1, 0],
        };
        for &setup in setups {
            v.push((Cfg { n, timeout_s: 15, setup }, d15));
            v.push((Cfg { n, timeout_s: 12, setup }, d12));
        }
    }
    v
}

pub fn run(args: Args) -> ! {
    self_test();
    let mut rep = Report::new(&args, "model_checking");
    if Instant::now().checked_sub(Duration::from_secs(120)).is_none() {
        mc::machinery_error("monotonic clock younger than 120 s: back-dating cannot represent the virtual time range");
    }
    let mock = Mock::start(4);

    if let Some(path) = &args.replay {
        let case = mc::load_replay(path);
        let cfg = Cfg { n: (case["workers"].as_u64().unwrap_or(2) as usize).clamp(1, 4), timeout_s: case["timeout_s"].as_u64().unwrap_or(15), setup: case["setup"].as_u64().unwrap_or(0) as usize };
        let alpha = alphabet(cfg.n);
        let hist: Vec<usize> = case["ops"].as_array().map(|a| a.iter().map(|v| v.as_u64().unwrap_or(0) as usize).collect()).unwrap_or_default();
        if hist.iter().any(|i| *i >= alpha.len()) {
            mc::machinery_error("replay file: operation index out of range");
        }
        let r = run_history(cfg, &alpha, &hist, &mock);
        println!("replay: {cfg:?} {:?} -> {:?}; state {}", hist.iter().map(|i| alpha[*i].text()).collect::<Vec<_>>(), r.last, r.key);
        let mut acc = Acc::default();
        acc.evaluations = 1;
        for f in r.findings {
            acc.viol.add(f.sig, f.desc, case_json(cfg, &hist, &alpha), hist.len() + f.penalty);
        }
        rep.absorb(acc);
        rep.finish();
    }

    let cfgs = configs(args.tier);
    // Determinism gate: a few histories per configuration, twice each, must reach the same canonical
    // state with the same findings.
    for (cfg, _) in &cfgs {
        let alpha = alphabet(cfg.n);
        let pos = |op: Op| alpha.iter().position(|o| *o == op).unwrap();
        let last_w = cfg.n - 1;
        let hs: Vec<Vec<usize>> = vec![
            vec![],
            vec![pos(Op::Adv), pos(Op::Adv), pos(Op::Adv), pos(Op::Adv), pos(Op::Sweep), pos(Op::Hb(last_w))],
            vec![pos(Op::DeployPinned(last_w)), pos(Op::Migrate(0)), pos(Op::SetDraining(0)), pos(Op::Migrate(0)), pos(Op::Drain(last_w))],
            vec![pos(Op::Rebalance)],
        ];
        for h in hs {
            let a = run_history(*cfg, &alpha, &h, &mock);
            let b = run_history(*cfg, &alpha, &h, &mock);
            let det = a.last != Some(Applied::Leaf);
            if a.last != b.last || (det && a.key != b.key) || a.findings.iter().map(|f| &f.sig).ne(b.findings.iter().map(|f| &f.sig)) {
                mc::machinery_error(&format!("C33: two executions of the same history differ ({cfg:?}, {:?}): {} vs {}", h.iter().map(|i| alpha[*i].text()).collect::<Vec<_>>(), a.key, b.key));
            }
        }
    }

    let deadline = mc::Deadline::after(Duration::from_secs(args.tier.pick(36, 1120)));
    let executions = AtomicU64::new(0);
    let leaves = AtomicU64::new(0);
    let max_us = AtomicU64::new(0);
    let shared_acc = Mutex::new(Acc::default());
    let mut per_cfg = Vec::new();
    for (cfg, depth) in &cfgs {
        let alpha = alphabet(cfg.n);
        let stats = mc::bfs_histories(alpha.len(), *depth, args.threads, &deadline, |hist: &[usize]| -> Option<String> {
            let r = run_history(*cfg, &alpha, hist, &mock);
            let last = r.last?;
            executions.fetch_add(1, Ordering::Relaxed);
            max_us.fetch_max(r.elapsed.as_micros() as u64, Ordering::Relaxed);
            let mut acc = shared_acc.lock().unwrap();
            acc.evaluations += 1;
            let op = hist.last().map(|i| alpha[*i]);
            if matches!(op, Some(Op::Sweep | Op::Hb(_) | Op::DeployPinned(_) | Op::DeployUnpinned | Op::Migrate(_) | Op::Failover(_) | Op::Drain(_) | Op::Rebalance)) {
                acc.nontrivial += 1;
            }
            if let Some(o) = op {
                acc.count(&format!("op_{}", o.kind()), 1);
            }
            acc.outcome(&(cfg.n, cfg.timeout_s, cfg.setup, &r.key, last == Applied::Leaf));
            let violating = !r.findings.is_empty();
            for f in r.findings {
                acc.viol.add(f.sig, f.desc, case_json(*cfg, hist, &alpha), hist.len() * 30 + cfg.n + f.penalty);
            }
            if last == Applied::Leaf {
                leaves.fetch_add(1, Ordering::Relaxed);
                return None;
            }
            if violating {
                return None; // violating states are reported, not expanded
            }
            Some(r.key)
        });
        if !stats.complete {
            rep.cap_hit(&format!("wall cap during BFS for {cfg:?} (depth bound {depth}, completed depth {})", stats.max_depth));
        }
        rep.states += stats.states;
        rep.transitions += stats.transitions;
        per_cfg.push(json!({"workers":cfg.n,"timeout_s":cfg.timeout_s,"setup":cfg.setup,"depth":depth,"states":stats.states,"transitions":stats.transitions,"max_depth_reached":stats.max_depth,"complete":stats.complete}));
        if deadline.was_hit() {
            break;
        }
    }
    let acc = shared_acc.into_inner().unwrap();
    rep.transitions += leaves.load(Ordering::Relaxed);
    rep.traces = executions.load(Ordering::Relaxed);
    rep.absorb(acc);
    rep.set("per_configuration", json!(per_cfg));
    rep.set("nondeterministic_operations_checked_as_leaves", json!(leaves.load(Ordering::Relaxed)));
    rep.set("max_real_elapsed_per_history_us", json!(max_us.load(Ordering::Relaxed)));
    rep.sample(json!({"workers":2,"timeout_s":15,"setup":1,"history":["advance 5 s","advance 5 s","advance 5 s","advance 5 s","health_sweep","manual migrate to w1","heartbeat(w1)"]}));
    rep.rule = "Breadth-first search over histories of {advance 5 s, health_sweep, heartbeat(w), set draining(w), deregister(w), deploy pinned to w, deploy unpinned, manual migrate to w (real HTTP handler), handle_worker_failure(w), drain_worker(w), rebalance} on a fresh real Coordinator per history, for 1–4 workers × heartbeat timeout {15 s, 12 s} × {nothing deployed, three pipelines (one pinned) on w0, the same with heartbeat ages staggered by 5 s per worker}; depth bound per configuration in per_configuration; states deduplicated by (worker status, heartbeat age in steps while Ready, load, assigned pipelines, placements by group name). At most 2 deploy operations per history. Non-trivial = the last operation is a sweep, heartbeat, placement or migration operation (an oracle clause applies to it).".into();
    rep.assume("virtual time = back-dating WorkerNode.last_heartbeat in steps of 5 s; the real time elapsed during one execution (measured, < 1 s enforced) is added to every age, so a sweep at age == timeout (15 s configuration, third step) is a don't-care and every other decision is ≥ 2 s away from the noise; the 12 s configuration has no such tie");
    rep.assume("available = registered and Ready; capacity (max_pipelines = 100) is never reached in the explored space, the text does not mention it");
    rep.assume("the Draining status is set directly on the pub field (in a single coordinator it is otherwise only visible inside drain_worker; with Raft it arrives through sync_from_raft)");
    rep.assume("operations whose result depends on std HashMap iteration order (unpinned placement among ≥ 2 available workers, failover/drain with ≥ 2 candidate targets, a rebalance that moves something) are checked for every choice the real code makes but their successor states are not expanded");
    rep.assume("deploys use the handler's phases plan_deploy_group → (worker outcome: success) → commit_deploy_group; manual migration runs the real warp handler; failover, drain and rebalance run the monolithic coordinator methods; every worker call goes to the loopback mock worker");
    rep.finish()
}
