//! C39 — injected connector declarations carry exactly the stored parameters.
//!
//! E1: every parameter value from a small string grammar × connector type × parameter position ×
//! pipeline source goes through the real `validate_connector`, `inject_connectors`
//! (→ `to_vpl_declaration`), the real `varpulis_parser::parse` and the real `Engine::load`; the
//! connector configuration the engine ends up with (`connector_configs()`) is compared, string by
//! string, with the stored parameters. The comparison is made on the string the connector finally
//! receives, so `1883` → Int(1883) → "1883" is fine while `007` → 7 is not.
//!
//! Oracle clauses (each is a `shape` in the signature):
//!   injected_source_unparseable   the injected source does not parse
//!   injected_source_does_not_load the injected source parses but `Engine::load` refuses it
//!   connector_not_declared        the program/engine has no (or more than one) declaration of it
//!   value_changed                 a stored parameter reaches the connector as a different string
//!   params_added_or_missing       the set of parameters differs
//!   rest_of_program_changed       the non-connector statements differ from the original program's
//! Signature = `C39:value=<class of the stored string>:<clause>`; the class is computed from the
//! stored string alone.

use mc::{Acc, Args, Report};
use serde_json::{json, Value};
use std::collections::{BTreeMap, HashMap};
use varpulis_cluster::connector_config::{inject_connectors, validate_connector, ClusterConnector};
use varpulis_core::ast::Stmt;

/// (connector type, name of its required parameter)
const TYPES: [(&str, Option<&str>); 5] = [("mqtt", Some("host")), ("kafka", Some("brokers")), ("nats", Some("servers")), ("http", Some("url")), ("console", None)];

/// Pipeline sources that reference the cluster connector `c1` without declaring it.
const SOURCES: [&str; 3] = [
    "stream S = A.from(c1, topic: \"t\")\n    .emit(id: id)\n",
    "event A:\n    id: int\n    v: str\n\nstream S = A.from(c1, topic: \"t\")\n    .where(id > 1 and v == \"x\\\"y\")\n    .emit(id: id, w: v)\n\nstream T = B\n    .where(k == \"q\")\n    .emit(k: k)\n",
    "connector other = console(prefix: \"p\")\n\nstream S = A.from(other)\n    .where(v > 1.5)\n    .emit(v: v)\n\nstream U = C.from(c1, topic: \"u\")\n    .emit(z: z)\n",
];

#[derive(Clone, Copy, Debug, PartialEq, Eq)]
enum Pos {
    /// the value under test is the connector type's required parameter (→ `ConnectorConfig.url`)
    Required,
    /// the value under test is an additional parameter `opt` (→ `ConnectorConfig.properties`)
    Extra,
}

fn value_class(v: &str) -> &'static str {
    if v.is_empty() {
        return "empty";
    }
    if v.contains('"') {
        return "contains_quote";
    }
    if v.contains('\\') {
        return "contains_backslash";
    }
    if v.contains('\n') || v.contains('\r') {
        return "contains_newline";
    }
    if let Ok(f) = v.parse::<f64>() {
        // "looks numeric" = the standard decimal / exponent / inf / nan float syntax
        let lower = v.to_ascii_lowercase();
        let signed = v.starts_with(['+', '-']);
        let body = lower.trim_start_matches(['+', '-']);
        if body == "inf" || body == "infinity" || body == "nan" {
            return if signed { "signed_float_keyword" } else { "float_keyword" };
        }
        if signed {
            return "signed_number";
        }
        if let Ok(i) = v.parse::<i64>() {
            return if i.to_string() == v { "int_canonical" } else { "int_leading_zeros" };
        }
        if lower.contains('e') {
            return "number_with_exponent";
        }
        if !v.contains('.') {
            return "int_beyond_i64";
        }
        return if format!("{f}") == v { "decimal_canonical" } else { "decimal_noncanonical" };
    }
    if v.starts_with(' ') || v.ends_with(' ') {
        return "outer_whitespace";
    }
    if !v.is_ascii() {
        return "non_ascii";
    }
    "plain"
}

fn self_test() {
    for (v, c) in [
        ("", "empty"),
        ("a\"b", "contains_quote"),
        ("c:\\d", "contains_backslash"),
        ("1883", "int_canonical"),
        ("0", "int_canonical"),
        ("-7", "signed_number"),
        ("+1", "signed_number"),
        ("-1.5", "signed_number"),
        ("007", "int_leading_zeros"),
        ("99999999999999999999", "int_beyond_i64"),
        ("1e5", "number_with_exponent"),
        ("1.5", "decimal_canonical"),
        ("1.50", "decimal_noncanonical"),
        ("7.0", "decimal_noncanonical"),
        (".5", "decimal_noncanonical"),
        ("5.", "decimal_noncanonical"),
        ("inf", "float_keyword"),
        ("NaN", "float_keyword"),
        ("-inf", "signed_float_keyword"),
        ("7-7", "plain"),
        ("e7", "plain"),
        (" a", "outer_whitespace"),
        ("é", "non_ascii"),
        ("localhost", "plain"),
    ] {
        assert_eq!(value_class(v), c, "value_class({v:?})");
    }
}

fn values(max_len: usize, alphabet: &[char]) -> Vec<String> {
    let mut out: Vec<String> = vec![String::new()];
    let mut layer: Vec<String> = vec![String::new()];
    for _ in 0..max_len {
        let mut next = Vec::with_capacity(layer.len() * alphabet.len());
        for s in &layer {
            for c in alphabet {
                let mut t = s.clone();
                t.push(*c);
                next.push(t);
            }
        }
        out.extend(next.iter().cloned());
        layer = next;
    }
    out
}

const ALPHABET: [char; 10] = ['a', '0', '7', '.', 'e', '-', ' ', 'é', '"', '\\'];
const EXTRA_ALPHABET: [char; 8] = ['1', '+', 'E', '_', 'n', 'i', 'f', '\''];
const SEEDS: [&str; 20] = [
    "localhost", "1883", "007", "1e5", "inf", "nan", "a\"b", "c:\\d", "-1", "1.50", "true", "tcp://h:1", "NaN", "Infinity", "-inf", "1e400", "1.5e3", "9223372036854775808", "5s", "a, b: 1",
];

/// stmt.node without positions (spans move when a preamble is prepended)
fn stmt_repr(s: &Stmt) -> String {
    format!("{s:?}")
}

struct Outcome {
    clause: Option<(&'static str, String)>,
    /// for the evidence: how the value travelled (quoted / bare number / bare identifier)
    rendering: &'static str,
}

fn connector_for(ti: usize, pos: Pos, value: &str) -> Option<ClusterConnector> {
    let (ctype, req) = TYPES[ti];
    let mut params: HashMap<String, String> = HashMap::new();
    match (pos, req) {
        (Pos::Required, Some(r)) => {
            params.insert(r.to_string(), value.to_string());
            params.insert("opt".to_string(), "plain".to_string());
        }
        (Pos::Required, None) => return None,
        (Pos::Extra, r) => {
            if let Some(r) = r {
                params.insert(r.to_string(), "h1".to_string());
            }
            params.insert("opt".to_string(), value.to_string());
        }
    }
    Some(ClusterConnector { name: "c1".into(), connector_type: ctype.into(), params, description: None })
}

/// What the engine's connector is expected to hold, derived from the stored connector alone.
fn expected_config(c: &ClusterConnector) -> (String, Option<String>, BTreeMap<String, String>) {
    let mut url = String::new();
    let mut topic = None;
    let mut props = BTreeMap::new();
    for (k, v) in &c.params {
        match k.as_str() {
            "url" | "host" | "brokers" | "servers" => url = v.clone(),
            "topic" => topic = Some(v.clone()),
            _ => {
                props.insert(k.clone(), v.clone());
            }
        }
    }
    (url, topic, props)
}

fn evaluate(c: &ClusterConnector, under_test: &str, si: usize, original: &[String]) -> Outcome {
    let mut map = HashMap::new();
    map.insert(c.name.clone(), c.clone());
    let (injected, _lines) = inject_connectors(SOURCES[si], &map);
    let decl = c.to_vpl_declaration();
    let rendering = if decl.contains(&format!(": \"{under_test}\"")) { "quoted" } else { "bare" };
    let program = match varpulis_parser::parse(&injected) {
        Ok(p) => p,
        Err(e) => return Outcome { clause: Some(("injected_source_unparseable", format!("parse error: {}", e.to_string().lines().next().unwrap_or("")))), rendering },
    };
    // the declaration as the parser sees it
    let decls: Vec<&Stmt> = program.statements.iter().map(|s| &s.node).filter(|s| matches!(s, Stmt::ConnectorDecl { name, .. } if name == "c1")).collect();
    if decls.len() != 1 {
        return Outcome { clause: Some(("connector_not_declared", format!("{} declarations of c1 in the parsed program", decls.len()))), rendering };
    }
    // rest of the program
    let rest: Vec<String> = program.statements.iter().map(|s| &s.node).filter(|s| !matches!(s, Stmt::ConnectorDecl { name, .. } if name == "c1")).map(stmt_repr).collect();
    if rest != original {
        return Outcome { clause: Some(("rest_of_program_changed", format!("{} statements besides the declaration, the original program has {}", rest.len(), original.len()))), rendering };
    }
    let (tx, _rx) = tokio::sync::mpsc::channel(8);
    let mut engine = varpulis_runtime::engine::Engine::new(tx);
    if let Err(e) = engine.load(&program) {
        return Outcome { clause: Some(("injected_source_does_not_load", format!("load error: {e}"))), rendering };
    }
    let Some(cfg) = engine.connector_configs().get("c1") else {
        return Outcome { clause: Some(("connector_not_declared", "engine has no connector c1 after load".into())), rendering };
    };
    let (url, topic, props) = expected_config(c);
    let got_props: BTreeMap<String, String> = cfg.properties.iter().map(|(k, v)| (k.clone(), v.clone())).collect();
    if cfg.connector_type != c.connector_type {
        return Outcome { clause: Some(("value_changed", format!("connector type {:?} instead of {:?}", cfg.connector_type, c.connector_type))), rendering };
    }
    if got_props.keys().ne(props.keys()) || cfg.topic.is_some() != topic.is_some() {
        return Outcome { clause: Some(("params_added_or_missing", format!("connector has properties {:?}, stored {:?}", got_props.keys().collect::<Vec<_>>(), props.keys().collect::<Vec<_>>()))), rendering };
    }
    if cfg.url != url {
        return Outcome { clause: Some(("value_changed", format!("address parameter reaches the connector as {:?}", cfg.url))), rendering };
    }
    for (k, v) in &props {
        if got_props[k] != *v {
            return Outcome { clause: Some(("value_changed", format!("parameter {k} reaches the connector as {:?}", got_props[k]))), rendering };
        }
    }
    Outcome { clause: None, rendering }
}

fn case_json(ti: usize, pos: Pos, value: &str, si: usize) -> Value {
    json!({"kind":"connector","type":TYPES[ti].0,"position":if pos == Pos::Required {"required"} else {"extra"},"value":value,"source_index":si})
}

fn check_case(ti: usize, pos: Pos, value: &str, si: usize, originals: &[Vec<String>], acc: &mut Acc) {
    let Some(c) = connector_for(ti, pos, value) else { return };
    if validate_connector(&c).is_err() {
        acc.count("rejected_by_validation", 1);
        return;
    }
    acc.evaluations += 1;
    let class = value_class(value);
    if class != "plain" {
        acc.nontrivial += 1;
    }
    let out = mc::catch(|| evaluate(&c, value, si, &originals[si]));
    match out {
        Err(msg) => {
            acc.outcome(&("panic", class));
            acc.viol.add(format!("C39:value={class}:panic"), format!("panic while injecting/parsing/loading connector {} with stored value {value:?}: {msg} at {}", c.to_vpl_declaration(), mc::last_panic_location()), case_json(ti, pos, value, si), value.chars().count());
        }
        Ok(o) => {
            acc.outcome(&(o.clause.as_ref().map(|c| c.0), class, o.rendering));
            acc.count(&format!("rendered_{}", o.rendering), 1);
            if let Some((clause, detail)) = o.clause {
                acc.viol.add(
                    format!("C39:value={class}:{clause}"),
                    format!("stored {} parameter value {value:?} of a {} connector, injected as `{}` into pipeline source #{si}: {detail}", if pos == Pos::Required { "required" } else { "additional" }, TYPES[ti].0, c.to_vpl_declaration()),
                    case_json(ti, pos, value, si),
                    value.chars().count() * 16 + ti * 3 + si,
                );
            }
        }
    }
}

const PARAM_NAMES: [&str; 11] = ["opt2", "topic", "a-b", "a b", "a.b", "1a", "", "é", "stream", "true", "type"];

fn name_class(n: &str) -> &'static str {
    let ident = !n.is_empty() && n.chars().all(|c| c.is_ascii_alphanumeric() || c == '_') && !n.chars().next().unwrap().is_ascii_digit();
    if !ident {
        return "not_an_identifier";
    }
    if ["stream", "true", "false", "type", "event", "connector", "from", "as", "in", "and", "or", "not"].contains(&n) {
        return "word_of_the_language";
    }
    "identifier"
}

/// A connector whose additional parameter is called `pname` (value "v1"); validation does not look
/// at parameter names, so every such connector is inside the property's quantifier.
fn check_name_case(ti: usize, pname: &str, si: usize, originals: &[Vec<String>], acc: &mut Acc) {
    let (ctype, req) = TYPES[ti];
    let mut params: HashMap<String, String> = HashMap::new();
    if let Some(r) = req {
        params.insert(r.to_string(), "h1".to_string());
    }
    params.insert(pname.to_string(), "v1".to_string());
    let c = ClusterConnector { name: "c1".into(), connector_type: ctype.into(), params, description: None };
    if validate_connector(&c).is_err() {
        acc.count("rejected_by_validation", 1);
        return;
    }
    acc.evaluations += 1;
    let class = name_class(pname);
    if class != "identifier" {
        acc.nontrivial += 1;
    }
    let case = json!({"kind":"param_name","type":ctype,"name":pname,"source_index":si});
    match mc::catch(|| evaluate(&c, "v1", si, &originals[si])) {
        Err(msg) => acc.viol.add(format!("C39:param_name={class}:panic"), format!("panic for a {ctype} connector with a parameter named {pname:?}: {msg}"), case, pname.len()),
        Ok(o) => {
            acc.outcome(&(o.clause.as_ref().map(|c| c.0), class, "name"));
            if let Some((clause, detail)) = o.clause {
                acc.viol.add(format!("C39:param_name={class}:{clause}"), format!("{ctype} connector accepted by validation with a parameter named {pname:?}, injected as `{}` into pipeline source #{si}: {detail}", c.to_vpl_declaration()), case, pname.chars().count() * 16 + ti * 3 + si);
            }
        }
    }
}

/// leave and remove the scratch working directory, then write the evidence and exit
fn finish_and_clean(rep: Report, scratch: &std::path::Path) -> ! {
    let _ = std::env::set_current_dir("/");
    let _ = std::fs::remove_dir_all(scratch);
    rep.finish()
}

pub fn run(args: Args) -> ! {
    self_test();
    let mut rep = Report::new(&args, "exploration");
    // Engine::load may open files relative to the working directory (dead-letter queue of sinks)
    let scratch = mc::scratch_dir("C39");
    let _ = std::env::set_current_dir(&scratch);

    // The original programs (without injection) must parse; their statements are the reference for
    // "injection never changes the rest of the pipeline".
    let originals: Vec<Vec<String>> = SOURCES
        .iter()
        .map(|s| match varpulis_parser::parse(s) {
            Ok(p) => p.statements.iter().map(|s| stmt_repr(&s.node)).collect(),
            Err(e) => mc::machinery_error(&format!("C39: base pipeline source does not parse: {e}\n{s}")),
        })
        .collect();
    // Machinery gate: a plain value must satisfy every clause for every type, position and source,
    // otherwise the driver (not the subject) is broken.
    for ti in 0..TYPES.len() {
        for pos in [Pos::Required, Pos::Extra] {
            for si in 0..SOURCES.len() {
                for v in ["localhost", "1883"] {
                    let Some(c) = connector_for(ti, pos, v) else { continue };
                    if let Err(e) = validate_connector(&c) {
                        mc::machinery_error(&format!("C39: the driver's plain connector is rejected by validation: {e}"));
                    }
                    match mc::catch(|| evaluate(&c, v, si, &originals[si])) {
                        Ok(Outcome { clause: None, .. }) => {}
                        Ok(Outcome { clause: Some((cl, d)), .. }) => mc::machinery_error(&format!("C39: plain value {v:?} fails clause {cl} in the driver's base configuration ({} / source #{si}): {d}", c.to_vpl_declaration())),
                        Err(m) => mc::machinery_error(&format!("C39: plain value {v:?} panics in the driver's base configuration: {m} at {}", mc::last_panic_location())),
                    }
                }
            }
        }
    }

    if let Some(path) = &args.replay {
        let case = mc::load_replay(path);
        let ti = TYPES.iter().position(|t| Some(t.0) == case["type"].as_str()).unwrap_or(0);
        if case["kind"].as_str() == Some("param_name") {
            let mut acc = Acc::default();
            let si = (case["source_index"].as_u64().unwrap_or(0) as usize).min(SOURCES.len() - 1);
            check_name_case(ti, case["name"].as_str().unwrap_or(""), si, &originals, &mut acc);
            rep.absorb(acc);
            rep.evaluations = rep.evaluations.max(1);
            finish_and_clean(rep, &scratch);
        }
        let pos = if case["position"].as_str() == Some("required") { Pos::Required } else { Pos::Extra };
        let value = case["value"].as_str().unwrap_or("").to_string();
        let si = (case["source_index"].as_u64().unwrap_or(0) as usize).min(SOURCES.len() - 1);
        let mut acc = Acc::default();
        if let Some(c) = connector_for(ti, pos, &value) {
            let mut m = HashMap::new();
            m.insert("c1".to_string(), c);
            println!("replay: injected source:\n{}", inject_connectors(SOURCES[si], &m).0);
        }
        check_case(ti, pos, &value, si, &originals, &mut acc);
        rep.absorb(acc);
        rep.evaluations = rep.evaluations.max(1);
        finish_and_clean(rep, &scratch);
    }

    // ---- the enumerated space -----------------------------------------------------------------
    // `parse` costs milliseconds (it runs on a fresh 16 MB-stack thread per call, and that cost does
    // not parallelise), so the full cross product value × type × position × source is kept for the
    // short strings and the seeds; longer strings take `per_value` combinations each, assigned by
    // rotating through the 27 combinations (deterministic, every combination is used equally often).
    let mut combos: Vec<(usize, Pos, usize)> = Vec::new();
    for si in 0..SOURCES.len() {
        for pos in [Pos::Extra, Pos::Required] {
            for ti in 0..TYPES.len() {
                if pos == Pos::Extra || TYPES[ti].1.is_some() {
                    combos.push((ti, pos, si));
                }
            }
        }
    }
    let max_len = args.tier.pick(3usize, 4usize);
    let full_len = args.tier.pick(1usize, 2usize);
    let per_value = args.tier.pick(1usize, 3usize);
    let mut vals = values(max_len, &ALPHABET);
    let n_main = vals.len();
    let mut n_wide = 0usize;
    if args.tier == mc::Tier::Thorough {
        let wide: Vec<char> = ALPHABET.iter().chain(EXTRA_ALPHABET.iter()).copied().collect();
        for v in values(3, &wide) {
            if v.chars().any(|c| EXTRA_ALPHABET.contains(&c)) {
                vals.push(v);
                n_wide += 1;
            }
        }
    }
    let mut cases: Vec<(usize, usize)> = Vec::new(); // (value index, combination index)
    let mut rot = 0usize;
    for (vi, v) in vals.iter().enumerate() {
        if v.chars().count() <= full_len {
            cases.extend((0..combos.len()).map(|ci| (vi, ci)));
        } else {
            for k in 0..per_value {
                // k-th pick of this value: spread over the three sources, then over type/position
                cases.push((vi, (rot + k * (combos.len() / 3)) % combos.len()));
            }
            rot += 1;
        }
    }
    for s in SEEDS {
        let vi = match vals.iter().position(|v| v == s) {
            Some(vi) if vals[vi].chars().count() <= full_len => continue,
            Some(vi) => vi,
            None => {
                vals.push(s.to_string());
                vals.len() - 1
            }
        };
        cases.retain(|(v, _)| *v != vi);
        cases.extend((0..combos.len()).map(|ci| (vi, ci)));
    }
    // short values first so that the smallest failing case of every signature is met early
    cases.sort_by_key(|(vi, ci)| (vals[*vi].chars().count(), *vi, *ci));
    let total = cases.len() as u64;
    let deadline = mc::Deadline::after(std::time::Duration::from_secs(args.tier.pick(36, 1100)));
    let (acc, done) = mc::par_indices(total, args.threads, 8, |i, acc| {
        if deadline.expired() {
            return false;
        }
        let (vi, ci) = cases[i as usize];
        let (ti, pos, si) = combos[ci];
        check_case(ti, pos, &vals[vi], si, &originals, acc);
        true
    });
    if !done {
        rep.cap_hit("wall cap during the value sweep");
    }
    rep.absorb(acc);
    // parameter names (validation does not constrain them)
    {
        let mut acc = Acc::default();
        for pname in PARAM_NAMES {
            for ti in 0..TYPES.len() {
                if deadline.expired() {
                    rep.cap_hit("wall cap during the parameter-name sweep");
                    break;
                }
                check_name_case(ti, pname, (ti + pname.len()) % SOURCES.len(), &originals, &mut acc);
            }
        }
        rep.absorb(acc);
    }
    rep.set("values", json!(vals.len()));
    rep.set("values_main_alphabet", json!(n_main));
    rep.set("values_widened_alphabet", json!(n_wide));
    rep.set("value_cases", json!(total));
    rep.set("combinations_type_position_source", json!(combos.len()));
    rep.set("parameter_names", json!(PARAM_NAMES));
    rep.sample(json!({"type":"mqtt","position":"required","value":"007","source":SOURCES[0]}));
    rep.sample(json!({"type":"http","position":"extra","value":"a\"b","source":SOURCES[2]}));
    rep.rule = format!("Parameter values: every string of length ≤ {max_len} over {{a,0,7,.,e,-,space,é,\",\\}} ({n_main} strings){} plus {} seeds. Each value is stored as the required parameter or as an additional parameter of one of the 5 accepted connector types and injected into one of 3 pipeline sources (27 combinations): strings of length ≤ {full_len} and all seeds take all 27 combinations, every longer string takes {per_value} of them assigned by rotation ({total} cases). Parameter names: {} names × 5 types. Each case runs validate_connector → inject_connectors → parse → Engine::load → connector_configs(). Non-trivial = the stored string is not a plain ASCII word (class ≠ plain) / the name is not a plain identifier.", if args.tier == mc::Tier::Thorough { format!(", every string of length ≤ 3 over that alphabet widened by {{1,+,E,_,n,i,f,'}} that uses a widening character ({n_wide} strings)") } else { String::new() }, SEEDS.len(), PARAM_NAMES.len());
    rep.assume("the value is compared as the string the connector finally receives (ConnectorConfig.url / .topic / .properties after Engine::load): a stored \"1883\" that travels as the integer 1883 and arrives as \"1883\" satisfies the property, and so does inf travelling as a bare identifier");
    rep.assume("connector names (validated to be identifiers) and the parameter client_id_mode (which deliberately rewrites .from() calls) are outside the enumerated space");
    rep.assume("\"rest of the pipeline unchanged\" = the parsed non-connector statements of the injected source equal those of the original source (positions ignored)");
    rep.assume("varpulis_parser::parse costs milliseconds per call on this machine and does not parallelise, which is why strings longer than the full-product length take a rotating subset of the 27 combinations instead of all of them");
    finish_and_clean(rep, &scratch)
}
