//! C09 — a filter accepts the same events in `.where(φ)` and as the filter of a sequence step.
//!
//! Differential oracle (no hand-written expectation): for every filter φ of the grammar and every
//! event e of the alphabet,
//!   accepted_where(φ, e)  := `stream F = E.where(φ).emit(ok: 1)` emits on the stream  [e]
//!   accepted_step (φ, e)  := the one-match pattern emits on the stream [Z, e], φ being the filter
//!                            of the *second* step, in two surface forms:
//!                            arrow:    `Z as z -> E where φ as e`
//!                            sequence: `sequence(z: Z, e: E where φ)`
//! must be equal. Three real executions per (φ, e).
//!
//! Signatures are computed from the case only: surface form, filter shape, operator class, kind of
//! right operand, type classes of the operands in the event, and whether the parser kept the same
//! filter expression in the step as in `.where` — never from which side accepted.

use crate::common::{self, type_class};
use mc::{Acc, Args, Deadline, Report, Tier};
use serde_json::{json, Value as J};
use std::time::Duration;
use std::sync::Mutex;
use varpulis_core::ast::{BinOp, Expr, Program, Stmt, StreamOp, StreamSource, UnaryOp};
use varpulis_core::Value;
use varpulis_runtime::Event;

// ------------------------------------------------------------------------------------------------
// Filter grammar

const OPS: [&str; 6] = ["==", "!=", "<", ">", "<=", ">="];
const FIELDS: [&str; 3] = ["x", "y", "z"];

#[derive(Clone, Debug, PartialEq)]
enum Lit {
    Int(i64),
    Float(f64),
    Str(&'static str),
    Bool(bool),
}
fn literals() -> Vec<Lit> {
    vec![Lit::Int(1), Lit::Float(1.0), Lit::Float(1.5), Lit::Str("a"), Lit::Bool(true)]
}
impl Lit {
    fn src(&self) -> String {
        match self {
            Lit::Int(i) => format!("{i}"),
            Lit::Float(f) => format!("{f:?}"),
            Lit::Str(s) => format!("\"{s}\""),
            Lit::Bool(b) => format!("{b}"),
        }
    }
    fn value(&self) -> Value {
        match self {
            Lit::Int(i) => Value::Int(*i),
            Lit::Float(f) => Value::Float(*f),
            Lit::Str(s) => Value::str(s),
            Lit::Bool(b) => Value::Bool(*b),
        }
    }
}

#[derive(Clone, Debug, PartialEq)]
enum Rhs {
    Lit(Lit),
    Field(usize),
}

#[derive(Clone, Debug, PartialEq)]
enum Phi {
    Cmp { field: usize, op: usize, rhs: Rhs },
    Not(Box<Phi>),
    And(Box<Phi>, Box<Phi>),
    Or(Box<Phi>, Box<Phi>),
}

impl Phi {
    fn src(&self, top: bool) -> String {
        match self {
            Phi::Cmp { field, op, rhs } => {
                let r = match rhs {
                    Rhs::Lit(l) => l.src(),
                    Rhs::Field(f) => FIELDS[*f].to_string(),
                };
                format!("{} {} {}", FIELDS[*field], OPS[*op], r)
            }
            Phi::Not(p) => format!("not ({})", p.src(true)),
            Phi::And(a, b) => paren(format!("{} and {}", a.src(false), b.src(false)), top),
            Phi::Or(a, b) => paren(format!("{} or {}", a.src(false), b.src(false)), top),
        }
    }
    fn nodes(&self) -> usize {
        match self {
            Phi::Cmp { .. } => 1,
            Phi::Not(p) => 1 + p.nodes(),
            Phi::And(a, b) | Phi::Or(a, b) => 1 + a.nodes() + b.nodes(),
        }
    }
    fn fields(&self, out: &mut [bool; 3]) {
        match self {
            Phi::Cmp { field, rhs, .. } => {
                out[*field] = true;
                if let Rhs::Field(f) = rhs {
                    out[*f] = true;
                }
            }
            Phi::Not(p) => p.fields(out),
            Phi::And(a, b) | Phi::Or(a, b) => {
                a.fields(out);
                b.fields(out);
            }
        }
    }
    fn atoms<'a>(&'a self, out: &mut Vec<&'a Phi>) {
        match self {
            Phi::Cmp { .. } => out.push(self),
            Phi::Not(p) => p.atoms(out),
            Phi::And(a, b) | Phi::Or(a, b) => {
                a.atoms(out);
                b.atoms(out);
            }
        }
    }
    /// shape name: connective skeleton without operands, e.g. `atom`, `not`, `and`, `or`, `not(and)`, `and(not,_)`
    fn shape(&self) -> String {
        fn sk(p: &Phi) -> String {
            match p {
                Phi::Cmp { .. } => "_".into(),
                Phi::Not(q) => format!("not({})", sk(q)),
                Phi::And(a, b) => format!("and({},{})", sk(a), sk(b)),
                Phi::Or(a, b) => format!("or({},{})", sk(a), sk(b)),
            }
        }
        match self {
            Phi::Cmp { .. } => "atom".into(),
            Phi::Not(q) if matches!(**q, Phi::Cmp { .. }) => "not".into(),
            Phi::And(a, b) if matches!((&**a, &**b), (Phi::Cmp { .. }, Phi::Cmp { .. })) => "and".into(),
            Phi::Or(a, b) if matches!((&**a, &**b), (Phi::Cmp { .. }, Phi::Cmp { .. })) => "or".into(),
            other => sk(other),
        }
    }
    fn to_json(&self) -> J {
        match self {
            Phi::Cmp { field, op, rhs } => json!({"cmp": {"field": field, "op": op, "rhs": match rhs {
                Rhs::Lit(l) => common::value_to_json(&Some(l.value())),
                Rhs::Field(f) => json!({"field": f}),
            }}}),
            Phi::Not(p) => json!({"not": p.to_json()}),
            Phi::And(a, b) => json!({"and": [a.to_json(), b.to_json()]}),
            Phi::Or(a, b) => json!({"or": [a.to_json(), b.to_json()]}),
        }
    }
    fn from_json(j: &J) -> Phi {
        if let Some(c) = j.get("cmp") {
            let rhs = match c["rhs"].get("field").and_then(|f| f.as_u64()) {
                Some(f) => Rhs::Field(f as usize),
                None => Rhs::Lit(match common::value_from_json(&c["rhs"]) {
                    Some(Value::Int(i)) => Lit::Int(i),
                    Some(Value::Float(f)) => Lit::Float(f),
                    Some(Value::Bool(b)) => Lit::Bool(b),
                    Some(Value::Str(s)) => Lit::Str(if &*s == "a" { "a" } else { "b" }),
                    _ => mc::machinery_error("replay: bad literal"),
                }),
            };
            Phi::Cmp { field: c["field"].as_u64().unwrap_or(0) as usize, op: c["op"].as_u64().unwrap_or(0) as usize, rhs }
        } else if let Some(p) = j.get("not") {
            Phi::Not(Box::new(Phi::from_json(p)))
        } else if let Some(a) = j.get("and").and_then(|a| a.as_array()) {
            Phi::And(Box::new(Phi::from_json(&a[0])), Box::new(Phi::from_json(&a[1])))
        } else if let Some(a) = j.get("or").and_then(|a| a.as_array()) {
            Phi::Or(Box::new(Phi::from_json(&a[0])), Box::new(Phi::from_json(&a[1])))
        } else {
            mc::machinery_error(&format!("replay: unreadable filter {j}"))
        }
    }
}
fn paren(s: String, top: bool) -> String {
    if top {
        s
    } else {
        format!("({s})")
    }
}

/// atoms with `field` on the left: 6 ops × (5 literals + the other field)
fn atoms_on(field: usize, other: usize) -> Vec<Phi> {
    let mut v = Vec::new();
    for op in 0..OPS.len() {
        for l in literals() {
            v.push(Phi::Cmp { field, op, rhs: Rhs::Lit(l) });
        }
        v.push(Phi::Cmp { field, op, rhs: Rhs::Field(other) });
    }
    v
}

fn b(p: &Phi) -> Box<Phi> {
    Box::new(p.clone())
}

fn filters(tier: Tier) -> Vec<Phi> {
    let ax = atoms_on(0, 1);
    let ay = atoms_on(1, 0);
    let all: Vec<Phi> = ax.iter().chain(ay.iter()).cloned().collect();
    let mut out: Vec<Phi> = Vec::new();
    // depth 1 and `not`
    out.extend(all.iter().cloned());
    out.extend(all.iter().map(|a| Phi::Not(b(a))));
    // depth 2: quick = left operand over x, right operand over x or y; thorough = all ordered pairs
    let lefts: &[Phi] = if tier == Tier::Quick { &ax } else { &all };
    for l in lefts {
        for r in &all {
            out.push(Phi::And(b(l), b(r)));
            out.push(Phi::Or(b(l), b(r)));
        }
    }
    // depth 3 over a base of atoms (quick: 4 atoms, thorough: 8)
    let lit = |field: usize, op: &str, l: Lit| Phi::Cmp { field, op: OPS.iter().position(|o| *o == op).unwrap(), rhs: Rhs::Lit(l) };
    let mut base = vec![lit(0, "==", Lit::Int(1)), lit(0, ">", Lit::Int(1)), lit(1, "==", Lit::Str("a")), lit(0, "!=", Lit::Float(1.5))];
    if tier == Tier::Thorough {
        base.extend([
            lit(0, "<=", Lit::Float(1.5)),
            lit(1, "<", Lit::Float(1.5)),
            lit(1, "==", Lit::Bool(true)),
            Phi::Cmp { field: 0, op: 0, rhs: Rhs::Field(1) },
        ]);
    }
    for p in &base {
        out.push(Phi::Not(Box::new(Phi::Not(b(p)))));
        for q in &base {
            out.push(Phi::Not(Box::new(Phi::And(b(p), b(q)))));
            out.push(Phi::Not(Box::new(Phi::Or(b(p), b(q)))));
            out.push(Phi::And(Box::new(Phi::Not(b(p))), b(q)));
            out.push(Phi::Or(b(p), Box::new(Phi::Not(b(q)))));
            if tier == Tier::Thorough {
                for r in &base {
                    out.push(Phi::Or(Box::new(Phi::And(b(p), b(q))), b(r)));
                    out.push(Phi::And(b(p), Box::new(Phi::Or(b(q), b(r)))));
                }
            }
        }
    }
    // three fields
    let bz = [lit(2, "==", Lit::Int(1)), lit(2, ">", Lit::Int(1)), lit(2, "!=", Lit::Str("a")), Phi::Cmp { field: 0, op: 2, rhs: Rhs::Field(2) }];
    let bx = [lit(0, "==", Lit::Int(1)), lit(0, ">=", Lit::Float(1.5))];
    let by = [lit(1, "==", Lit::Str("a")), lit(1, "<", Lit::Float(1.5))];
    let (bx, by, bz): (&[Phi], &[Phi], &[Phi]) = if tier == Tier::Quick { (&bx[..1], &by[..1], &bz[..2]) } else { (&bx, &by, &bz) };
    for p in bx {
        for q in by {
            for r in bz {
                out.push(Phi::And(Box::new(Phi::And(b(p), b(q))), b(r)));
                out.push(Phi::Or(Box::new(Phi::Or(b(p), b(q))), b(r)));
                out.push(Phi::And(b(p), Box::new(Phi::Or(b(q), b(r)))));
            }
        }
    }
    out
}

// ------------------------------------------------------------------------------------------------
// Events

fn field_values() -> Vec<Option<Value>> {
    vec![
        Some(Value::Int(1)),
        Some(Value::Int(2)),
        Some(Value::Float(1.0)),
        Some(Value::Float(1.5)),
        Some(Value::str("a")),
        Some(Value::str("b")),
        Some(Value::Bool(true)),
        None,
    ]
}

fn make_event(ty: &str, pos: usize, vals: &[Option<Value>; 3]) -> Event {
    let mut e = common::event_at(ty, pos);
    for (i, v) in vals.iter().enumerate() {
        if let Some(v) = v {
            e.data.insert(FIELDS[i].into(), v.clone());
        }
    }
    e
}

// ------------------------------------------------------------------------------------------------
// Classification of a case (attributes only)

fn op_class(op: usize) -> &'static str {
    match OPS[op] {
        "==" | "!=" => "eq",
        "<" | ">" => "ord_strict",
        _ => "ord_incl",
    }
}

/// type-pair class of the two operands of an atom in an event
fn pair_class(l: &Option<Value>, r: &Option<Value>) -> &'static str {
    match (type_class(l), type_class(r)) {
        ("missing", _) | (_, "missing") => "missing",
        ("int", "int") => "int_int",
        ("float", "float") => "float_float",
        ("int", "float") | ("float", "int") => "int_vs_float",
        ("str", "str") => "str_str",
        ("bool", "bool") => "bool_bool",
        _ => "type_mismatch",
    }
}

fn atom_operands(p: &Phi, vals: &[Option<Value>; 3]) -> (usize, &'static str, Option<Value>, Option<Value>) {
    match p {
        Phi::Cmp { field, op, rhs } => {
            let (kind, r) = match rhs {
                Rhs::Lit(l) => ("lit", Some(l.value())),
                Rhs::Field(f) => ("field", vals[*f].clone()),
            };
            (*op, kind, vals[*field].clone(), r)
        }
        _ => unreachable!("atom_operands on a non-atom"),
    }
}

/// Coarse marker of an atom inside a compound filter.
/// `plain`: both operands present and of the same type, with an operator defined on that type
/// (any comparison of int/int or float/float, equality of strings or bools);
/// `int_vs_float`: one int and one float operand; `odd`: a missing operand, operands of different
/// non-numeric types, or an ordering comparison of strings or bools.
fn coarse_class(p: &Phi, vals: &[Option<Value>; 3]) -> &'static str {
    let (op, _, l, r) = atom_operands(p, vals);
    match (pair_class(&l, &r), op_class(op)) {
        ("int_int", _) | ("float_float", _) | ("str_str", "eq") | ("bool_bool", "eq") => "plain",
        ("int_vs_float", _) => "int_vs_float",
        _ => "odd",
    }
}

fn top_name(phi: &Phi) -> &'static str {
    match phi {
        Phi::Cmp { .. } => "atom",
        Phi::Not(_) => "not",
        Phi::And(..) => "and",
        Phi::Or(..) => "or",
    }
}

/// `written` = the filter of the source text; `eff_where` / `eff_step` = the filter found in the
/// parsed `.where` program and in the parsed step (None = not expressible in the harness grammar).
fn signature(form: &str, written: &Phi, eff_where: &Option<Phi>, eff_step: &Option<Phi>, vals: &[Option<Value>; 3]) -> String {
    let (Some(w), Some(s)) = (eff_where, eff_step) else {
        return format!("C09:{form}:parsed_filter_outside_grammar:{}", top_name(written));
    };
    if w != s {
        // the two programs the engine received do not contain the same filter: parser-level scope
        return format!("C09:{form}:parser_changed_step_filter:{}", top_name(written));
    }
    // both programs contain the filter `w` (which the parser may have changed in the same way in
    // both); the signature describes what the evaluators were given
    let detail = |a: &Phi| {
        let (op, kind, l, r) = atom_operands(a, vals);
        format!("{}:{}:{}", op_class(op), kind, pair_class(&l, &r))
    };
    match w {
        Phi::Cmp { .. } => format!("C09:{form}:atom:{}", detail(w)),
        Phi::Not(q) if matches!(**q, Phi::Cmp { .. }) => format!("C09:{form}:not:{}", detail(q)),
        _ => {
            let mut atoms = Vec::new();
            w.atoms(&mut atoms);
            let mut classes: Vec<&str> = atoms.iter().map(|a| coarse_class(a, vals)).filter(|c| *c != "plain").collect();
            classes.sort();
            classes.dedup();
            let markers = if classes.is_empty() { "plain".to_string() } else { classes.join("+") };
            format!("C09:{form}:{}:operands={markers}", top_name(w))
        }
    }
}

// ------------------------------------------------------------------------------------------------
// Programs

struct Step {
    form: &'static str,
    src: String,
    prog: Result<Program, String>,
    eff: Option<Phi>,
}

struct Compiled {
    phi: Phi,
    where_src: String,
    where_prog: Program,
    eff_where: Option<Phi>,
    steps: Vec<Step>,
    /// printed ASTs of the three filters (identity of what the engine is given)
    key: String,
}

fn where_filter(p: &Program) -> Option<Expr> {
    for s in &p.statements {
        if let Stmt::StreamDecl { ops, .. } = &s.node {
            for op in ops {
                if let StreamOp::Where(e) = op {
                    return Some(e.clone());
                }
            }
        }
    }
    None
}

fn step_filter(p: &Program) -> Option<Expr> {
    for s in &p.statements {
        if let Stmt::StreamDecl { source, ops, .. } = &s.node {
            if let StreamSource::Sequence(decl) = source {
                return decl.steps.get(1).and_then(|st| st.filter.clone());
            }
            for op in ops {
                if let StreamOp::FollowedBy(c) = op {
                    return c.filter.clone();
                }
            }
        }
    }
    None
}

/// Read a parsed filter back into the harness grammar.
fn phi_from_expr(e: &Expr) -> Option<Phi> {
    let field_of = |e: &Expr| match e {
        Expr::Ident(n) => FIELDS.iter().position(|f| f == n),
        _ => None,
    };
    match e {
        Expr::Binary { op, left, right } => {
            let cmp = match op {
                BinOp::Eq => "==",
                BinOp::NotEq => "!=",
                BinOp::Lt => "<",
                BinOp::Gt => ">",
                BinOp::Le => "<=",
                BinOp::Ge => ">=",
                BinOp::And => return Some(Phi::And(Box::new(phi_from_expr(left)?), Box::new(phi_from_expr(right)?))),
                BinOp::Or => return Some(Phi::Or(Box::new(phi_from_expr(left)?), Box::new(phi_from_expr(right)?))),
                _ => return None,
            };
            let rhs = match &**right {
                Expr::Int(i) => Rhs::Lit(Lit::Int(*i)),
                Expr::Float(f) => Rhs::Lit(Lit::Float(*f)),
                Expr::Bool(b) => Rhs::Lit(Lit::Bool(*b)),
                Expr::Str(s) if s == "a" => Rhs::Lit(Lit::Str("a")),
                other => Rhs::Field(field_of(other)?),
            };
            Some(Phi::Cmp { field: field_of(left)?, op: OPS.iter().position(|o| *o == cmp)?, rhs })
        }
        Expr::Unary { op: UnaryOp::Not, expr } => Some(Phi::Not(Box::new(phi_from_expr(expr)?))),
        _ => None,
    }
}

/// One real parse of the three stream declarations together (the parser spawns a thread per call),
/// split into three one-statement programs; if the combined text does not parse, each form is
/// parsed on its own so that a form-specific parse error is attributed to that form.
fn compile(phi: &Phi) -> Result<Compiled, String> {
    let f = phi.src(true);
    let where_src = format!("stream F = E\n    .where({f})\n    .emit(ok: 1)\n");
    let step_srcs = [
        ("arrow", format!("stream S = Z as z -> E where {f} as e\n    .emit(ok: 1)\n")),
        ("sequence", format!("stream S = sequence(z: Z, e: E where {f})\n    .emit(ok: 1)\n")),
    ];
    let combined = format!("{where_src}\n{}\n{}", step_srcs[0].1, step_srcs[1].1);
    let mut parsed: Vec<Result<Program, String>> = match common::parse(&combined) {
        Ok(p) if p.statements.len() == 3 => p.statements.into_iter().map(|st| Ok(Program { statements: vec![st] })).collect(),
        _ => std::iter::once(&where_src).chain(step_srcs.iter().map(|s| &s.1)).map(|src| common::parse(src)).collect(),
    };
    let step_progs = parsed.split_off(1);
    let where_prog = parsed.pop().unwrap().map_err(|e| format!("`.where` form does not parse: {e}"))?;
    let wf = where_filter(&where_prog);
    let mut key = format!("{wf:?}");
    let mut steps = Vec::new();
    for ((form, src), prog) in step_srcs.into_iter().zip(step_progs) {
        let sf = prog.as_ref().ok().and_then(step_filter);
        key.push_str(&format!(" | {form}: {:?} {sf:?}", prog.as_ref().err()));
        steps.push(Step { form, src, eff: sf.as_ref().and_then(phi_from_expr), prog });
    }
    Ok(Compiled { phi: phi.clone(), where_src, where_prog, eff_where: wf.as_ref().and_then(phi_from_expr), steps, key })
}

// ------------------------------------------------------------------------------------------------

fn show_value(v: &Value) -> String {
    match v {
        Value::Float(f) => format!("{f:?}"),
        other => format!("{other}"),
    }
}

fn check_filter(c: &Compiled, acc: &mut Acc) {
    let mut used = [false; 3];
    c.phi.fields(&mut used);
    let fv = field_values();
    let n = fv.len();
    let dims: Vec<usize> = (0..3).filter(|i| used[*i]).collect();
    let total = n.pow(dims.len() as u32);
    for idx in 0..total {
        let mut vals: [Option<Value>; 3] = [None, None, None];
        let mut k = idx;
        for d in &dims {
            vals[*d] = fv[k % n].clone();
            k /= n;
        }
        check_case(c, &vals, acc);
    }
}

fn accepted(r: &Result<Vec<common::Out>, String>) -> Result<bool, String> {
    r.as_ref().map(|o| !o.is_empty()).map_err(|e| e.clone())
}

fn check_case(c: &Compiled, vals: &[Option<Value>; 3], acc: &mut Acc) {
    let phi = &c.phi;
    let e = make_event("E", 1, vals);
    let z = make_event("Z", 0, &[None, None, None]);
    let w = accepted(&common::run_engine(&c.where_prog, std::slice::from_ref(&e)));
    acc.evaluations += 1;
    let present = vals.iter().filter(|v| v.is_some()).count();
    let size = phi.nodes() * 8 + present;
    let vals_json = || json!(vals.iter().map(common::value_to_json).collect::<Vec<_>>());
    let show_vals = || {
        let v: Vec<String> = vals.iter().enumerate().filter(|(_, v)| v.is_some()).map(|(i, v)| format!("{}={}", FIELDS[i], show_value(v.as_ref().unwrap()))).collect();
        format!("E{{{}}}", v.join(","))
    };
    for st in &c.steps {
        let form = st.form;
        let case = || json!({"phi": phi.to_json(), "phi_src": phi.src(true), "form": form, "values": vals_json(), "where_program": c.where_src, "step_program": st.src});
        let prog = match &st.prog {
            Ok(p) => p,
            Err(e) => {
                // the filter cannot be written in this position at all: counted, reported once per shape
                acc.count("step_form_parse_errors", 1);
                acc.viol.add(format!("C09:{form}:step_form_unparsable:{}", phi.shape()), format!("`{}` parses in .where but not as a step filter ({form} form): {e}", phi.src(true)), case(), size);
                continue;
            }
        };
        let s = accepted(&common::run_engine(prog, &[z.clone(), e.clone()]));
        acc.evaluations += 1;
        let sig = signature(form, phi, &c.eff_where, &st.eff, vals);
        acc.outcome(&(&w, &s, &sig));
        match (&w, &s) {
            (Ok(wa), Ok(sa)) => {
                if *wa || *sa {
                    acc.nontrivial += 1;
                    if phi.nodes() >= 3 && *wa && *sa {
                        acc.sample(|| json!({"filter": phi.src(true), "form": form, "event": show_vals(), "accepted_where": wa, "accepted_step": sa}));
                    }
                }
                if wa != sa {
                    let verdict = |b: bool| if b { "accepts" } else { "rejects" };
                    let mut note = String::new();
                    if c.eff_where != st.eff {
                        note = format!(" — the parser turned the step filter into `{}`", st.eff.as_ref().map(|p| p.src(true)).unwrap_or_else(|| "?".into()));
                    } else if c.eff_where.as_ref() != Some(phi) {
                        note = format!(" — in both programs the parser turned the filter into `{}`", st.eff.as_ref().map(|p| p.src(true)).unwrap_or_else(|| "?".into()));
                    }
                    acc.viol.add(
                        sig,
                        format!("filter `{}` on {}: `.where` {} it, the sequence step ({form} form) {} it{note}", phi.src(true), show_vals(), verdict(*wa), verdict(*sa)),
                        case(),
                        size,
                    );
                }
            }
            (Err(e), _) | (_, Err(e)) => {
                acc.viol.add(format!("C09:{form}:error:{}", phi.shape()), format!("filter `{}` on {}: {e}", phi.src(true), show_vals()), case(), size);
            }
        }
    }
}

pub fn run(args: &Args) -> ! {
    let mut rep = Report::new(args, "exploration");
    self_test();
    if let Some(path) = &args.replay {
        let case = mc::load_replay(path);
        let mut acc = Acc::default();
        replay(&case, &mut acc);
        rep.absorb(acc);
        rep.evaluations = rep.evaluations.max(1);
        rep.finish();
    }
    let phis = filters(args.tier);
    // pass 1: parse the three programs of every filter with the real parser
    let slots: Vec<Mutex<Option<Result<Compiled, String>>>> = phis.iter().map(|_| Mutex::new(None)).collect();
    mc::par_indices(phis.len() as u64, args.threads, 8, |i, _| {
        *slots[i as usize].lock().unwrap() = Some(compile(&phis[i as usize]));
        true
    });
    // filters whose three parsed forms coincide with those of an earlier filter give the engine
    // nothing new and are not re-executed
    let mut seen = std::collections::HashSet::new();
    let mut todo: Vec<Compiled> = Vec::new();
    let (mut dup, mut changed_where, mut changed_step) = (0u64, 0u64, 0u64);
    let mut changed_examples: Vec<J> = Vec::new();
    let mut pre = Acc::default();
    for (i, s) in slots.into_iter().enumerate() {
        match s.into_inner().unwrap().expect("every filter compiled") {
            Ok(c) => {
                if c.eff_where.as_ref() != Some(&c.phi) {
                    changed_where += 1;
                    if changed_examples.len() < 3 {
                        changed_examples.push(json!({"written": c.phi.src(true), "parsed_in_where": c.eff_where.as_ref().map(|p| p.src(true))}));
                    }
                }
                if c.steps.iter().any(|st| st.eff != c.eff_where) {
                    changed_step += 1;
                }
                if seen.insert(c.key.clone()) {
                    todo.push(c);
                } else {
                    dup += 1;
                }
            }
            Err(e) => {
                pre.viol.add("C09:harness:where_form_unparsable", format!("{}: {e}", phis[i].src(true)), json!({"phi": phis[i].to_json()}), phis[i].nodes());
            }
        }
    }
    rep.absorb(pre);
    // pass 2: every (filter, event)
    let spent = rep.elapsed().as_secs();
    let deadline = Deadline::after(Duration::from_secs(args.tier.pick(38u64, 1150u64).saturating_sub(spent).max(5)));
    let (acc, done) = mc::par_indices(todo.len() as u64, args.threads, 4, |i, acc| {
        if deadline.expired() {
            return false;
        }
        check_filter(&todo[i as usize], acc);
        true
    });
    if !done {
        rep.cap_hit("wall cap during the filter sweep");
    }
    rep.absorb(acc);
    rep.set("filters_written", json!(phis.len()));
    rep.set("filters_executed", json!(todo.len()));
    rep.set("filters_not_reexecuted_same_parse_as_an_earlier_filter", json!(dup));
    rep.set("filters_whose_where_parse_differs_from_the_text", json!(changed_where));
    rep.set("filters_whose_step_parse_differs_from_the_where_parse", json!(changed_step));
    rep.set("examples_of_where_parse_differing_from_the_text", json!(changed_examples));
    rep.set("field_values", json!(field_values().iter().map(|v| v.as_ref().map(show_value).unwrap_or_else(|| "missing".into())).collect::<Vec<_>>()));
    rep.rule = "Filters: every atom `f OP lit` / `f OP g` (6 operators; literals 1, 1.0, 1.5, \"a\", true; f,g ∈ {x,y}), `not (atom)` for every atom, `atom and atom` / `atom or atom` over ordered atom pairs (quick: left operand over x; thorough: all pairs), depth-3 combinations (not(and), not(or), and(not,_), or(_,not), not(not), thorough also or(and,_), and(_,or)) over a base of atoms, and 3-field conjunction/disjunction chains over x,y,z. All three programs of a filter are parsed with the real parser; a filter whose three parsed filters equal those of an earlier filter is not executed again. Events: every assignment of {1, 2, 1.0, 1.5, \"a\", \"b\", true, missing} to the fields the filter mentions (other fields absent). Each (filter, event) is executed in `.where` and in the second step of a two-step pattern in both surface forms (arrow, sequence(...)); evaluations = engine executions. Non-trivial = (filter, form, event) where at least one side accepts the event.".into();
    rep.assume("acceptance is observed as: `.where` stream emits on [E]; the pattern emits a match on [Z, E] with the filter on the second step");
    rep.assume("the signature of a disagreement describes the filter the parser handed to the engine (recovered from the parsed programs), so a construct the parser drops in every position (on the unchanged tree: `not`) is classified by what is left of it; such parse changes are counted in the evidence but are not themselves C09 violations when both positions change alike");
    rep.assume("events carry no fields beyond those the filter mentions; values outside the alphabet (NaN, large ints, null, nested values) are not covered");
    rep.finish()
}

fn replay(case: &J, acc: &mut Acc) {
    let phi = Phi::from_json(&case["phi"]);
    let mut c = compile(&phi).unwrap_or_else(|e| mc::machinery_error(&format!("replay: {e}")));
    println!("replay: filter as written: `{}`", phi.src(true));
    println!("replay: .where filter as parsed: {:?}", where_filter(&c.where_prog));
    for st in &c.steps {
        if let Ok(p) = &st.prog {
            println!("replay: {} step filter as parsed: {:?}", st.form, step_filter(p));
        }
    }
    let vals_v: Vec<Option<Value>> = case["values"].as_array().map(|a| a.iter().map(common::value_from_json).collect()).unwrap_or_default();
    if vals_v.len() != 3 {
        // no event recorded (parse-level case): sweep all events of the filter
        check_filter(&c, acc);
        return;
    }
    let vals: [Option<Value>; 3] = [vals_v[0].clone(), vals_v[1].clone(), vals_v[2].clone()];
    let form = case["form"].as_str().unwrap_or("");
    c.steps.retain(|s| form.is_empty() || s.form == form);
    check_case(&c, &vals, acc);
}

/// The classification helpers, the source printer and the AST reader are exercised on hand-written cases.
fn self_test() {
    let a = Phi::Cmp { field: 0, op: 0, rhs: Rhs::Lit(Lit::Int(1)) };
    let bb = Phi::Cmp { field: 1, op: 3, rhs: Rhs::Field(0) };
    assert_eq!(a.src(true), "x == 1");
    assert_eq!(Phi::Not(b(&a)).src(true), "not (x == 1)");
    assert_eq!(Phi::Or(b(&a), b(&bb)).src(true), "x == 1 or y > x");
    assert_eq!(Phi::Not(Box::new(Phi::And(b(&a), b(&bb)))).src(true), "not (x == 1 and y > x)");
    assert_eq!(Phi::And(b(&a), Box::new(Phi::Or(b(&a), b(&bb)))).src(true), "x == 1 and (x == 1 or y > x)");
    assert_eq!(Phi::Cmp { field: 0, op: 0, rhs: Rhs::Lit(Lit::Float(1.0)) }.src(true), "x == 1.0");
    assert_eq!(pair_class(&Some(Value::Int(1)), &Some(Value::Float(1.0))), "int_vs_float");
    assert_eq!(pair_class(&None, &Some(Value::Float(1.0))), "missing");
    assert_eq!(pair_class(&Some(Value::str("a")), &Some(Value::Bool(true))), "type_mismatch");
    let vals = [Some(Value::Float(1.0)), None, None];
    let s = |p: &Phi| Some(p.clone());
    assert_eq!(signature("arrow", &a, &s(&a), &s(&a), &vals), "C09:arrow:atom:eq:lit:int_vs_float");
    let nb = Phi::Not(b(&bb));
    assert_eq!(signature("arrow", &nb, &s(&nb), &s(&nb), &vals), "C09:arrow:not:ord_strict:field:missing");
    // a `not` the parser dropped in both positions is classified by what is left
    assert_eq!(signature("arrow", &nb, &s(&bb), &s(&bb), &vals), "C09:arrow:atom:ord_strict:field:missing");
    let or = Phi::Or(b(&a), b(&bb));
    assert_eq!(signature("sequence", &or, &s(&or), &s(&or), &vals), "C09:sequence:or:operands=int_vs_float+odd");
    assert_eq!(signature("sequence", &or, &s(&or), &s(&a), &vals), "C09:sequence:parser_changed_step_filter:or");
    let ints = [Some(Value::Int(1)), Some(Value::Int(2)), None];
    assert_eq!(signature("arrow", &or, &s(&or), &s(&or), &ints), "C09:arrow:or:operands=plain");
    assert_eq!(Phi::from_json(&Phi::Or(b(&a), Box::new(Phi::Not(b(&bb)))).to_json()), Phi::Or(b(&a), Box::new(Phi::Not(b(&bb)))));
    // the AST reader inverts the printer on a plain atom in all three surface forms
    let c = compile(&a).expect("x == 1 must parse");
    assert!(c.steps.iter().all(|s| s.prog.is_ok()), "atom must parse as a step filter");
    assert_eq!(c.eff_where, Some(a.clone()), "`.where(x == 1)` must read back as written");
    assert!(c.steps.iter().all(|s| s.eff == Some(a.clone())), "atom filter must be found unchanged in both step forms");
    let e = Expr::Unary { op: UnaryOp::Not, expr: Box::new(Expr::Binary { op: BinOp::Gt, left: Box::new(Expr::Ident("y".into())), right: Box::new(Expr::Ident("x".into())) }) };
    assert_eq!(phi_from_expr(&e), Some(nb));
}
