//! Shared driver for the h_pattern2 harnesses: parse VPL source once, run a fresh real `Engine`
//! per execution on a current-thread tokio runtime, drain the output channel, project outputs to
//! `(event_type, sorted data without wall-clock fields)`.

use serde_json::{json, Value as J};
use std::cell::RefCell;
use varpulis_core::ast::Program;
use varpulis_core::Value;
use varpulis_runtime::{Engine, Event};

/// Fixed time origin; event k of a stream carries `T0 + k·1s`.
pub const T0_MS: i64 = 1_700_000_000_000;

/// Output fields that carry wall-clock values (projected away before any comparison).
const WALL_CLOCK_FIELDS: [&str; 1] = ["match_duration_ms"];

pub fn ts_at(pos: usize) -> chrono::DateTime<chrono::Utc> {
    chrono::DateTime::from_timestamp_millis(T0_MS + pos as i64 * 1000).expect("timestamp in range")
}

pub fn event_at(ty: &str, pos: usize) -> Event {
    Event::new_at(ty.to_string(), ts_at(pos))
}

pub fn parse(src: &str) -> Result<Program, String> {
    varpulis_parser::parse(src).map_err(|e| e.to_string())
}

pub fn parse_or_die(src: &str) -> Program {
    parse(src).unwrap_or_else(|e| mc::machinery_error(&format!("harness program does not parse: {e}\n{src}")))
}

thread_local! {
    static RT: tokio::runtime::Runtime = tokio::runtime::Builder::new_current_thread()
        .build()
        .unwrap_or_else(|e| mc::machinery_error(&format!("tokio runtime: {e}")));
    static LAST_LOAD_ERR: RefCell<String> = const { RefCell::new(String::new()) };
}

/// One projected output event.
#[derive(Clone, Debug, PartialEq, Eq, PartialOrd, Ord, Hash)]
pub struct Out {
    pub event_type: String,
    /// `(field, printed value)` sorted by field; wall-clock fields removed
    pub data: Vec<(String, String)>,
    /// number of input events processed before this output became visible (1-based position of
    /// the input event whose processing produced it)
    pub after: usize,
}

impl Out {
    pub fn get(&self, k: &str) -> Option<&str> {
        self.data.iter().find(|(f, _)| f == k).map(|(_, v)| v.as_str())
    }
    /// `(type, data)` without the position (for multiset comparison of whole runs)
    pub fn content(&self) -> (String, Vec<(String, String)>) {
        (self.event_type.clone(), self.data.clone())
    }
    pub fn show(&self) -> String {
        let d: Vec<String> = self.data.iter().map(|(k, v)| format!("{k}={v}")).collect();
        format!("{}{{{}}}", self.event_type, d.join(","))
    }
}

pub fn show_outs(o: &[Out]) -> String {
    let v: Vec<String> = o.iter().map(|x| x.show()).collect();
    format!("[{}]", v.join(", "))
}

fn project(e: &Event, after: usize) -> Out {
    let mut data: Vec<(String, String)> = e
        .data
        .iter()
        .filter(|(k, _)| !WALL_CLOCK_FIELDS.contains(&&***k))
        .map(|(k, v)| (k.to_string(), format!("{v}")))
        .collect();
    data.sort();
    Out { event_type: e.event_type.to_string(), data, after }
}

/// Run a fresh engine over `events`, draining outputs after every event.
/// `Err` = load error, processing error or panic (message says which).
pub fn run_engine(program: &Program, events: &[Event]) -> Result<Vec<Out>, String> {
    let r = mc::catch(|| {
        RT.with(|rt| {
            rt.block_on(async {
                let (tx, mut rx) = tokio::sync::mpsc::channel(1 << 16);
                let mut eng = Engine::new(tx);
                eng.load(program).map_err(|e| format!("load: {e}"))?;
                let mut outs = Vec::new();
                for (i, ev) in events.iter().enumerate() {
                    eng.process(ev.clone()).await.map_err(|e| format!("process event {i}: {e}"))?;
                    while let Ok(o) = rx.try_recv() {
                        outs.push(project(&o, i + 1));
                    }
                }
                Ok::<_, String>(outs)
            })
        })
    });
    match r {
        Ok(x) => x,
        Err(p) => Err(format!("panic: {p} at {}", mc::last_panic_location())),
    }
}

/// Multiset of `(type, data)` of a run.
pub fn content_multiset(outs: &[Out]) -> mc::Multiset<(String, Vec<(String, String)>)> {
    mc::multiset(outs.iter().map(|o| o.content()))
}

// ------------------------------------------------------------------------------------------------
// JSON <-> engine values (replay files)

pub fn value_to_json(v: &Option<Value>) -> J {
    match v {
        None => json!({"missing": true}),
        Some(Value::Int(i)) => json!({"int": i}),
        Some(Value::Float(f)) => json!({"float": f}),
        Some(Value::Str(s)) => json!({"str": &**s}),
        Some(Value::Bool(b)) => json!({"bool": b}),
        Some(other) => json!({"other": format!("{other}")}),
    }
}

pub fn value_from_json(j: &J) -> Option<Value> {
    if let Some(i) = j.get("int").and_then(|x| x.as_i64()) {
        Some(Value::Int(i))
    } else if let Some(f) = j.get("float").and_then(|x| x.as_f64()) {
        Some(Value::Float(f))
    } else if let Some(s) = j.get("str").and_then(|x| x.as_str()) {
        Some(Value::str(s))
    } else if let Some(b) = j.get("bool").and_then(|x| x.as_bool()) {
        Some(Value::Bool(b))
    } else if j.get("missing").is_some() {
        None
    } else {
        mc::machinery_error(&format!("replay: unreadable value {j}"))
    }
}

pub fn type_class(v: &Option<Value>) -> &'static str {
    match v {
        None => "missing",
        Some(Value::Int(_)) => "int",
        Some(Value::Float(_)) => "float",
        Some(Value::Str(_)) => "str",
        Some(Value::Bool(_)) => "bool",
        Some(Value::Null) => "null",
        Some(_) => "other",
    }
}
