//! C25 — trend-aggregation counts vs. brute force, and sharing invariance.
//!
//! Counting half (reference model): for every query of the pool and every stream over the event
//! types up to the length bound, every value the engine reports for `count_trends()` after input
//! event i must equal the number of trends of the query among events 0..=i, and if the stream
//! contains a trend the last reported value must be the total. A trend of `T1 -> all T2 -> T3` is
//! a set of stream positions whose events, in stream order, spell `T1 T2+ T3` (skip-till-any-match,
//! as in docs/reference/trend-aggregation.md: `E+` over n events has 2^n − 1 trends). The model
//! enumerates all 2^n position sets.
//!
//! Sharing half (differential, no expected value): the reports of a query's stream when the
//! program contains 1–3 further trend-aggregation queries with overlapping Kleene sub-patterns
//! must be the reports of the same query loaded alone, on every stream.

use crate::common::{self, Out};
use mc::{Acc, Args, Deadline, Report};
use serde_json::{json, Value as J};
use std::time::Duration;
use std::sync::Arc;
use varpulis_core::ast::Program;
use varpulis_runtime::greta::{GretaAggregate, GretaExecutor, GretaQuery};
use varpulis_runtime::hamlet::template::TemplateBuilder;
use varpulis_runtime::hamlet::{HamletAggregator, HamletConfig, QueryRegistration};
use varpulis_runtime::Event;

// ------------------------------------------------------------------------------------------------
// Queries

#[derive(Clone, Debug, PartialEq, Eq)]
pub struct Query {
    /// e.g. "AB+C"
    name: &'static str,
    /// (event type letter, Kleene)
    steps: Vec<(u8, bool)>,
}

fn q(name: &'static str) -> Query {
    let mut steps: Vec<(u8, bool)> = Vec::new();
    for c in name.bytes() {
        if c == b'+' {
            steps.last_mut().expect("+ follows a type").1 = true;
        } else {
            steps.push((c, false));
        }
    }
    Query { name, steps }
}

impl Query {
    fn stream_name(&self) -> String {
        format!("T_{}", self.name.replace('+', "p"))
    }
    fn src(&self) -> String {
        let mut s = format!("stream {} = ", self.stream_name());
        for (i, (t, k)) in self.steps.iter().enumerate() {
            let t = *t as char;
            let alias = format!("s{i}");
            if i == 0 {
                s.push_str(&format!("{t} as {alias}"));
            } else {
                s.push_str(&format!(" -> {}{t} as {alias}", if *k { "all " } else { "" }));
            }
        }
        s.push_str("\n    .within(60s)\n    .trend_aggregate(n: count_trends())\n    .emit(n: n)\n");
        s
    }
    /// the pattern with its type letters renamed X, Y, Z, W in order of first occurrence
    /// (`AB+`, `CB+`, `BC+` are all `XY+`)
    fn shape(&self) -> String {
        let mut seen: Vec<u8> = Vec::new();
        let mut out = String::new();
        for (t, k) in &self.steps {
            let i = seen.iter().position(|x| x == t).unwrap_or_else(|| {
                seen.push(*t);
                seen.len() - 1
            });
            out.push(b"XYZW"[i] as char);
            if *k {
                out.push('+');
            }
        }
        out
    }
    fn kleene_types(&self) -> Vec<u8> {
        self.steps.iter().filter(|s| s.1).map(|s| s.0).collect()
    }
}

struct Config {
    name: &'static str,
    types: &'static [u8],
    pool: Vec<Query>,
    /// (quick, thorough) maximal stream length
    len: (usize, usize),
}

fn configs() -> Vec<Config> {
    vec![
        Config { name: "abc", types: b"ABC", pool: vec![q("AB+"), q("AB+C"), q("CB+"), q("AB+C+"), q("BC+"), q("CA+B+")], len: (8, 10) },
        Config { name: "abcd", types: b"ABCD", pool: vec![q("AB+C+D"), q("AB+D"), q("BC+D"), q("DB+C+")], len: (6, 8) },
    ]
}

// ------------------------------------------------------------------------------------------------
// Reference model: brute-force trend enumeration

/// does the event-type word `w` spell the pattern (each step one event, Kleene steps one or more)?
fn spells(steps: &[(u8, bool)], w: &[u8]) -> bool {
    fn go(steps: &[(u8, bool)], k: usize, w: &[u8], p: usize) -> bool {
        if k == steps.len() {
            return p == w.len();
        }
        if p >= w.len() || w[p] != steps[k].0 {
            return false;
        }
        go(steps, k + 1, w, p + 1) || (steps[k].1 && go(steps, k, w, p + 1))
    }
    go(steps, 0, w, 0)
}

/// `out[i]` = number of trends among the first i events (i = 0..=n): all non-empty position sets
/// are enumerated; a set is a trend iff its events in stream order spell the pattern.
fn brute_prefix_counts(steps: &[(u8, bool)], stream: &[u8]) -> Vec<u64> {
    let n = stream.len();
    let mut ending_at = vec![0u64; n];
    let mut word = Vec::with_capacity(n);
    for mask in 1u32..(1u32 << n) {
        word.clear();
        let mut last = 0;
        for (i, t) in stream.iter().enumerate() {
            if mask >> i & 1 == 1 {
                word.push(*t);
                last = i;
            }
        }
        if spells(steps, &word) {
            ending_at[last] += 1;
        }
    }
    let mut out = vec![0u64; n + 1];
    for i in 0..n {
        out[i + 1] = out[i] + ending_at[i];
    }
    out
}

// ------------------------------------------------------------------------------------------------
// Driving the engine

fn events_of(stream: &[u8]) -> Vec<Event> {
    stream
        .iter()
        .enumerate()
        .map(|(i, t)| {
            let mut e = common::event_at(&(*t as char).to_string(), i);
            e.data.insert("id".into(), varpulis_core::Value::Int(i as i64));
            e
        })
        .collect()
}

/// One report of a stream: (number of input events processed, reported count or None when the
/// output carries no integer `n`)
type Reports = Vec<(usize, Option<i64>)>;

fn reports_of(outs: &[Out], stream_name: &str) -> Reports {
    outs.iter().filter(|o| o.event_type == stream_name).map(|o| (o.after, o.get("n").and_then(|v| v.parse::<i64>().ok()))).collect()
}

fn show_reports(r: &Reports) -> String {
    if r.is_empty() {
        return "nothing".into();
    }
    let v: Vec<String> = r.iter().map(|(a, n)| format!("{}@{a}", n.map(|n| n.to_string()).unwrap_or_else(|| "?".into()))).collect();
    v.join(" ")
}

fn show_stream(s: &[u8]) -> String {
    String::from_utf8_lossy(s).to_string()
}

// ------------------------------------------------------------------------------------------------
// Driving the library types directly (the engine builds exactly these objects)

/// `HamletAggregator` over the given queries, built the way `Engine::load` (one query) and the
/// crate's own multi-query tests (several queries: one state range per query, Kleene self-loop at
/// `first state of the query + position of the step`) build it; `incremental: false`, all events
/// processed, then `flush()`: the final value per query (None = no result for the query).
fn hamlet_direct(queries: &[&Query], stream: &[u8]) -> Result<Vec<Option<u64>>, String> {
    mc::catch(|| {
        let mut agg = hamlet_build(queries, false);
        for e in events_of(stream) {
            agg.process(Arc::new(e));
        }
        let res = agg.flush();
        (0..queries.len()).map(|qid| res.iter().find(|r| r.query_id == qid as u32).map(|r| r.value)).collect()
    })
    .map_err(|p| format!("panic: {p} at {}", mc::last_panic_location()))
}

/// Everything one window reports: per event the `(query, value)` pairs `process()` returns, then those
/// of `flush()`.
type WindowOut = Vec<Vec<(u32, u64)>>;

fn window_out(agg: &mut HamletAggregator, stream: &[u8]) -> WindowOut {
    let pairs = |rs: Vec<varpulis_runtime::hamlet::aggregator::AggregationResult>| {
        let mut v: Vec<(u32, u64)> = rs.iter().map(|r| (r.query_id, r.value)).collect();
        v.sort();
        v
    };
    let mut out: WindowOut = events_of(stream).into_iter().map(|e| pairs(agg.process(Arc::new(e)))).collect();
    out.push(pairs(agg.flush()));
    out
}

/// Window `second` on a fresh aggregator vs. on an aggregator that already processed and flushed window
/// `first`: `flush()` ends a window, so the reports of the next one must not depend on the previous
/// one (added after seeded change C25: state surviving in the pooled graphlets).
fn hamlet_reuse(queries: &[&Query], first: &[u8], second: &[u8], incremental: bool) -> Result<(WindowOut, WindowOut), String> {
    mc::catch(|| {
        let mut fresh = hamlet_build(queries, incremental);
        let want = window_out(&mut fresh, second);
        let mut reused = hamlet_build(queries, incremental);
        let _ = window_out(&mut reused, first);
        let got = window_out(&mut reused, second);
        (want, got)
    })
    .map_err(|p| format!("panic: {p} at {}", mc::last_panic_location()))
}

fn hamlet_build(queries: &[&Query], incremental: bool) -> HamletAggregator {
    {
        let mut builder = TemplateBuilder::new();
        let mut base = 0u16;
        for (qid, query) in queries.iter().enumerate() {
            let names: Vec<String> = query.steps.iter().map(|s| (s.0 as char).to_string()).collect();
            let name_refs: Vec<&str> = names.iter().map(|s| s.as_str()).collect();
            builder.add_sequence(qid as u32, &name_refs);
            for (pos, (t, k)) in query.steps.iter().enumerate() {
                if *k {
                    builder.add_kleene(qid as u32, &(*t as char).to_string(), base + pos as u16);
                }
            }
            base += query.steps.len() as u16 + 1;
        }
        let template = builder.build();
        let regs: Vec<QueryRegistration> = queries
            .iter()
            .enumerate()
            .map(|(qid, query)| {
                let idx = |t: u8| template.type_index(&(t as char).to_string()).expect("type registered by add_sequence");
                QueryRegistration {
                    id: qid as u32,
                    event_types: query.steps.iter().map(|s| idx(s.0)).collect(),
                    kleene_types: query.steps.iter().filter(|s| s.1).map(|s| idx(s.0)).collect(),
                    aggregate: GretaAggregate::CountTrends,
                }
            })
            .collect();
        let mut agg = HamletAggregator::new(HamletConfig { incremental, ..HamletConfig::default() }, template);
        for r in regs {
            agg.register_query(r);
        }
        agg
    }
}

/// `GretaExecutor` with one query: running count after every event (None = no result), as the
/// crate's tests drive it.
fn greta_direct(query: &Query, types: &[u8], stream: &[u8]) -> Result<Vec<Option<u64>>, String> {
    mc::catch(|| {
        let mut ex = GretaExecutor::new();
        let idx: Vec<(u8, u16)> = types.iter().map(|t| (*t, ex.register_type(Arc::from((*t as char).to_string())))).collect();
        let of = |t: u8| idx.iter().find(|x| x.0 == t).expect("type of the alphabet").1;
        ex.register_query(GretaQuery {
            id: 0,
            pattern_id: 0,
            event_types: query.steps.iter().map(|s| of(s.0)).collect(),
            kleene_types: query.steps.iter().filter(|s| s.1).map(|s| of(s.0)).collect(),
            aggregate: GretaAggregate::CountTrends,
            window_ms: 60_000,
            slide_ms: 60_000,
        });
        events_of(stream).into_iter().map(|e| ex.process(Arc::new(e)).iter().find(|r| r.0 == 0).map(|r| r.1)).collect()
    })
    .map_err(|p| format!("panic: {p} at {}", mc::last_panic_location()))
}

/// Which findings to report: everything during a sweep; during `--replay` only those of the
/// recorded drive (engine / hamlet_direct / greta_direct) and, for sharing cases, target query.
#[derive(Default)]
struct Sel {
    drive: Option<String>,
    target: Option<String>,
}
impl Sel {
    fn wants(&self, drive: &str, target: &str) -> bool {
        self.drive.as_deref().is_none_or(|d| d == drive) && self.target.as_deref().is_none_or(|t| t.is_empty() || t == target)
    }
}

// ------------------------------------------------------------------------------------------------
// Counting half

fn count_sig(drive: &str, class: &str, query: &Query) -> String {
    format!("C25:count:{drive}:{class}:{}", query.shape())
}

fn check_count(sel: &Sel, cfg: &Config, qi: usize, program: &Program, stream: &[u8], acc: &mut Acc) -> Option<Reports> {
    let query = &cfg.pool[qi];
    let exp = brute_prefix_counts(&query.steps, stream);
    let total = exp[stream.len()];
    let class = if total >= 1 { "trend_stream" } else { "no_trend_stream" };
    let case = |drive: &str| json!({"kind": "count", "drive": drive, "config": cfg.name, "query": query.name, "stream": show_stream(stream), "program": query.src()});
    if total >= 1 {
        acc.nontrivial += 1;
    }

    // (1) library types driven directly
    acc.evaluations += 2;
    match hamlet_direct(&[query], stream) {
        Ok(v) => {
            acc.outcome(&("hamlet", query.name, v[0], total));
            if v[0].unwrap_or(0) != total && sel.wants("hamlet_direct", query.name) {
                acc.viol.add(
                    count_sig("hamlet_direct", class, query),
                    format!("HamletAggregator (query {}, stream {}): flush() gives {:?}, brute force counts {total} trend(s)", query.name, show_stream(stream), v[0]),
                    case("hamlet_direct"),
                    stream.len(),
                );
            }
        }
        Err(e) if !sel.wants("hamlet_direct", query.name) => drop(e),
        Err(e) => acc.viol.add(count_sig("hamlet_direct", "error", query), format!("HamletAggregator (query {}, stream {}): {e}", query.name, show_stream(stream)), case("hamlet_direct"), stream.len()),
    }
    match greta_direct(query, cfg.types, stream) {
        Ok(v) => {
            acc.outcome(&("greta", query.name, &v, total));
            if let Some(i) = (0..stream.len()).find(|i| v[*i].unwrap_or(0) != exp[i + 1]).filter(|_| sel.wants("greta_direct", query.name)) {
                acc.viol.add(
                    count_sig("greta_direct", class, query),
                    format!("GretaExecutor (query {}, stream {}): after {} events process() gives {:?}, brute force counts {} trend(s); all results {:?}, brute force per prefix {:?}", query.name, show_stream(stream), i + 1, v[i], exp[i + 1], v, &exp[1..]),
                    case("greta_direct"),
                    stream.len(),
                );
            }
        }
        Err(e) if !sel.wants("greta_direct", query.name) => drop(e),
        Err(e) => acc.viol.add(count_sig("greta_direct", "error", query), format!("GretaExecutor (query {}, stream {}): {e}", query.name, show_stream(stream)), case("greta_direct"), stream.len()),
    }

    // (2) the engine
    let r = common::run_engine(program, &events_of(stream));
    acc.evaluations += 1;
    let outs = match r {
        Ok(o) => o,
        Err(e) => {
            acc.outcome(&e);
            if sel.wants("engine", query.name) {
                acc.viol.add(count_sig("engine", "error", query), format!("query {} on stream {}: {e}", query.name, show_stream(stream)), case("engine"), stream.len());
            }
            return None;
        }
    };
    let reports = reports_of(&outs, &query.stream_name());
    let foreign: Vec<Out> = outs.iter().filter(|o| o.event_type != query.stream_name()).cloned().collect();
    if total >= 3 && stream.len() >= 5 {
        acc.sample(|| json!({"query": query.name, "stream": show_stream(stream), "trends_by_brute_force": total, "engine_reports(value@events_processed)": show_reports(&reports)}));
    }
    acc.outcome(&("engine", query.name, &reports.iter().map(|r| r.1).collect::<Vec<_>>(), total));
    let mut wrong: Option<String> = None;
    for (after, v) in &reports {
        if *v != Some(exp[*after] as i64) {
            wrong = Some(format!("after {} events it reports {} where {} trend(s) exist", after, v.map(|v| v.to_string()).unwrap_or_else(|| "no number".into()), exp[*after]));
            break;
        }
    }
    if wrong.is_none() && total >= 1 {
        match reports.last() {
            None => wrong = Some(format!("it never reports although the stream contains {total} trend(s)")),
            Some((after, v)) if *v != Some(total as i64) => wrong = Some(format!("its last report ({} after {} events) is not the total {total}", v.unwrap_or(-1), after)),
            _ => {}
        }
    }
    if !foreign.is_empty() && wrong.is_none() {
        wrong = Some(format!("unexpected output events {}", common::show_outs(&foreign)));
    }
    if let Some(w) = wrong.filter(|_| sel.wants("engine", query.name)) {
        acc.viol.add(
            count_sig("engine", class, query),
            format!("query {} on stream {}: {w}; brute-force counts per prefix {:?}; engine reports (value@events processed): {}", query.name, show_stream(stream), &exp[1..], show_reports(&reports)),
            case("engine"),
            stream.len(),
        );
    }
    Some(reports)
}

// ------------------------------------------------------------------------------------------------
// Sharing half

struct Group {
    members: Vec<usize>,
    program: Program,
    src: String,
}

fn groups(cfg: &Config) -> Vec<Group> {
    let n = cfg.pool.len();
    let mut out = Vec::new();
    for mask in mc::subsets(n) {
        let members = mc::bits(mask, n);
        if members.len() < 2 || members.len() > 4 {
            continue;
        }
        let src: String = members.iter().map(|m| cfg.pool[*m].src()).collect::<Vec<_>>().join("\n");
        out.push(Group { program: common::parse_or_die(&src), members, src });
    }
    // fewest queries first
    out.sort_by_key(|g| g.members.len());
    out
}

/// do the two queries have a Kleene step over the same event type?
fn share_kleene(a: &Query, b: &Query) -> bool {
    a.kleene_types().iter().any(|t| b.kleene_types().contains(t))
}

fn sharing_sig(drive: &str, cfg: &Config, g: &Group, m: usize) -> String {
    let target = &cfg.pool[m];
    let overlapping = g.members.iter().any(|o| *o != m && share_kleene(target, &cfg.pool[*o]));
    format!("C25:sharing:{drive}:{}:kleene_type_in_common={}", target.shape(), if overlapping { "yes" } else { "no" })
}

fn check_sharing(sel: &Sel, cfg: &Config, g: &Group, alone: &[Option<Reports>], alone_direct: &[Option<Option<u64>>], stream: &[u8], acc: &mut Acc) {
    let names: Vec<&str> = g.members.iter().map(|m| cfg.pool[*m].name).collect();
    let case = |drive: &str, target: &str| json!({"kind": "sharing", "drive": drive, "config": cfg.name, "queries": names, "target": target, "stream": show_stream(stream), "program": g.src});
    let others = |m: usize| g.members.iter().filter(|o| **o != m).map(|o| cfg.pool[*o].name).collect::<Vec<_>>();
    let size = stream.len() * 8 + g.members.len();

    // (1) one HamletAggregator holding all queries of the group vs one aggregator per query
    acc.evaluations += 1;
    let qs: Vec<&Query> = g.members.iter().map(|m| &cfg.pool[*m]).collect();
    match hamlet_direct(&qs, stream) {
        Ok(v) => {
            for (k, m) in g.members.iter().enumerate() {
                let Some(a) = alone_direct[*m] else { continue };
                acc.outcome(&("hamlet", cfg.pool[*m].name, v[k], a));
                if v[k] != a && sel.wants("hamlet_direct", cfg.pool[*m].name) {
                    acc.viol.add(
                        sharing_sig("hamlet_direct", cfg, g, *m),
                        format!("HamletAggregator, query {} on stream {}: registered alone flush() gives {:?}, registered together with {:?} it gives {:?}", cfg.pool[*m].name, show_stream(stream), a, others(*m), v[k]),
                        case("hamlet_direct", cfg.pool[*m].name),
                        size,
                    );
                }
            }
        }
        Err(e) => acc.viol.add(format!("C25:sharing:hamlet_direct:error:queries={}", g.members.len()), format!("HamletAggregator with queries {names:?} on stream {}: {e}", show_stream(stream)), case("hamlet_direct", ""), size),
    }

    // (2) the engine
    let r = common::run_engine(&g.program, &events_of(stream));
    acc.evaluations += 1;
    let outs = match r {
        Ok(o) => o,
        Err(e) => {
            acc.outcome(&e);
            acc.viol.add(format!("C25:sharing:engine:error:queries={}", g.members.len()), format!("queries {names:?} on stream {}: {e}", show_stream(stream)), case("engine", ""), size);
            return;
        }
    };
    for m in &g.members {
        let target = &cfg.pool[*m];
        let Some(alone_reports) = &alone[*m] else { continue };
        let shared = reports_of(&outs, &target.stream_name());
        acc.outcome(&("engine", target.name, &shared, alone_reports));
        if &shared != alone_reports && sel.wants("engine", target.name) {
            acc.viol.add(
                sharing_sig("engine", cfg, g, *m),
                format!(
                    "query {} on stream {}: alone it reports {} but loaded together with {:?} it reports {} (value@events processed)",
                    target.name,
                    show_stream(stream),
                    show_reports(alone_reports),
                    others(*m),
                    show_reports(&shared)
                ),
                case("engine", target.name),
                size,
            );
        }
    }
    let known: Vec<String> = g.members.iter().map(|m| cfg.pool[*m].stream_name()).collect();
    let foreign: Vec<Out> = outs.iter().filter(|o| !known.contains(&o.event_type)).cloned().collect();
    if !foreign.is_empty() && sel.wants("engine", "") {
        acc.viol.add(format!("C25:sharing:engine:foreign_output:queries={}", g.members.len()), format!("queries {names:?} on stream {}: outputs of no declared stream: {}", show_stream(stream), common::show_outs(&foreign)), case("engine", ""), size);
    }
}

// ------------------------------------------------------------------------------------------------

pub fn run(args: &Args) -> ! {
    let mut rep = Report::new(args, "exploration");
    self_test();
    if let Some(path) = &args.replay {
        let case = mc::load_replay(path);
        let mut acc = Acc::default();
        replay(&case, &mut acc);
        rep.absorb(acc);
        rep.evaluations = rep.evaluations.max(1);
        rep.finish();
    }
    let deadline = Deadline::after(Duration::from_secs(args.tier.pick(36, 1100)));
    let sel = Sel::default();
    let mut spaces = Vec::new();
    for cfg in configs() {
        let maxlen = args.tier.pick(cfg.len.0, cfg.len.1);
        let singles: Vec<Program> = cfg.pool.iter().map(|q| common::parse_or_die(&q.src())).collect();
        let grps = groups(&cfg);
        let space = mc::SeqSpace::new(cfg.types.len(), 1, maxlen);
        let total = space.total();
        let firsts: Vec<Vec<u8>> = {
            let sp = mc::SeqSpace::new(cfg.types.len(), 1, 2);
            (0..sp.total())
                .map(|i| {
                    let mut idx = Vec::new();
                    sp.decode(i, &mut idx);
                    idx.iter().map(|j| cfg.types[*j]).collect()
                })
                .collect()
        };
        let (acc, done) = mc::par_indices(total, args.threads, 64, |i, acc| {
            if i % 64 == 0 && deadline.expired() {
                return false;
            }
            let mut idx = Vec::new();
            space.decode(i, &mut idx);
            let stream: Vec<u8> = idx.iter().map(|j| cfg.types[*j]).collect();
            let alone: Vec<Option<Reports>> = (0..cfg.pool.len()).map(|qi| check_count(&sel, &cfg, qi, &singles[qi], &stream, acc)).collect();
            let alone_direct: Vec<Option<Option<u64>>> = cfg.pool.iter().map(|q| hamlet_direct(&[q], &stream).ok().map(|v| v[0])).collect();
            acc.evaluations += cfg.pool.len() as u64;
            for g in &grps {
                check_sharing(&sel, &cfg, g, &alone, &alone_direct, &stream, acc);
            }
            // window reuse: every previous window of length 1..=2, both emission modes, each query alone
            // and the whole pool in one aggregator
            let mut sets: Vec<Vec<&Query>> = cfg.pool.iter().map(|q| vec![q]).collect();
            if cfg.pool.len() > 1 {
                sets.push(cfg.pool.iter().collect());
            }
            for first in &firsts {
                for incremental in [false, true] {
                    for set in &sets {
                        acc.evaluations += 2;
                        check_reuse(&cfg, set, first, &stream, incremental, acc);
                    }
                }
            }
            if alone.iter().any(|r| r.as_ref().is_some_and(|r| !r.is_empty())) {
                acc.count("streams_on_which_some_query_reports_alone", 1);
            }
            true
        });
        if !done {
            rep.cap_hit(&format!("wall cap in configuration {} (streams up to length {maxlen})", cfg.name));
        }
        spaces.push(json!({
            "config": cfg.name, "event_types": show_stream(cfg.types), "max_len": maxlen, "streams": total, "completed": done,
            "queries": cfg.pool.iter().map(|q| q.name).collect::<Vec<_>>(),
            "query_groups_for_sharing": grps.len(),
        }));
        rep.absorb(acc);
    }
    rep.set("spaces", json!(spaces));
    rep.rule = "For each configuration (event types, pool of queries `T1 -> all T2 -> …` with `.within(60s).trend_aggregate(n: count_trends()).emit(n: n)`), EVERY stream over the event types up to the stated length (event i at T0+i s, all inside one 60 s window) is run (1) through each query alone — in the engine (every reported n after i events is compared with the brute-force number of trends among the first i events, all 2^i position sets enumerated, and the last report with the total), in a directly built HamletAggregator (flush() value vs. total) and in a directly built GretaExecutor (running count after every event); (2) through every group of 2–4 queries of the pool together — engine: the reports of each member's stream are compared with its reports alone; HamletAggregator: flush() value per query in one aggregator holding the group vs. in an aggregator of its own; (3) window reuse: the stream as the SECOND window of an aggregator that already processed and flushed a first window (every stream of length 1..=2), against the same stream on a fresh aggregator — per-event process() reports and flush() reports, incremental emission on and off, each query alone and the whole pool together. evaluations = executions of the engine / of a library object. Non-trivial = (query, stream) pairs whose stream contains at least one trend of the query.".into();
    rep.assume("a trend is a set of stream positions whose events in stream order spell the pattern (skip-till-any-match, docs/reference/trend-aggregation.md: E+ over n events has 2^n − 1 trends); one window: all timestamps within 60 s");
    rep.assume("the engine emits running totals (Engine::load configures HamletConfig.incremental = true); a reported value is compared with the number of trends present when it is reported, and the last reported value with the total of the stream; a stream without trends may report nothing or 0");
    rep.assume("counting and sharing are judged separately: sharing compares a query's reports alone and in company (value and position of every report), whatever the values are");
    rep.assume("direct HamletAggregator construction follows Engine::load (one query) and the crate's multi-query unit tests (several queries: Kleene self-loop at first state of the query + step position); direct GretaExecutor use follows tests/greta_coverage_tests.rs");
    rep.finish()
}

fn check_reuse(cfg: &Config, set: &[&Query], first: &[u8], stream: &[u8], incremental: bool, acc: &mut Acc) {
    let who = if set.len() == 1 { set[0].shape() } else { format!("pool_of_{}", set.len()) };
    let names: Vec<&str> = set.iter().map(|q| q.name).collect();
    let case = || json!({"kind": "reuse", "config": cfg.name, "queries": names, "first": show_stream(first), "stream": show_stream(stream), "incremental": incremental});
    let size = stream.len() * 10 + first.len();
    match hamlet_reuse(set, first, stream, incremental) {
        Ok((want, got)) if want == got => {}
        Ok((want, got)) => acc.viol.add(
            format!("C25:window_reuse:hamlet_direct:{}:{who}", if incremental { "incremental" } else { "flush_only" }),
            format!("HamletAggregator with {names:?}: window {} reports {want:?} on a fresh aggregator but {got:?} after window {} was processed and flushed (per event, then flush: (query, value))", show_stream(stream), show_stream(first)),
            case(),
            size,
        ),
        Err(e) => acc.viol.add(format!("C25:window_reuse:hamlet_direct:error:{who}"), format!("window {} after window {}: {e}", show_stream(stream), show_stream(first)), case(), size),
    }
}

fn replay(case: &J, acc: &mut Acc) {
    let cfgs = configs();
    let cfg = cfgs.iter().find(|c| Some(c.name) == case["config"].as_str()).unwrap_or_else(|| mc::machinery_error("replay: unknown config"));
    let stream: Vec<u8> = case["stream"].as_str().unwrap_or("").bytes().collect();
    let singles: Vec<Program> = cfg.pool.iter().map(|q| common::parse_or_die(&q.src())).collect();
    let sel = Sel { drive: case["drive"].as_str().map(String::from), target: case["target"].as_str().map(String::from) };
    match case["kind"].as_str() {
        Some("count") => {
            let qi = cfg.pool.iter().position(|q| Some(q.name) == case["query"].as_str()).unwrap_or_else(|| mc::machinery_error("replay: unknown query"));
            check_count(&sel, cfg, qi, &singles[qi], &stream, acc);
        }
        Some("sharing") => {
            let names: Vec<&str> = case["queries"].as_array().map(|a| a.iter().filter_map(|v| v.as_str()).collect()).unwrap_or_default();
            let grps = groups(cfg);
            let g = grps.iter().find(|g| g.members.iter().map(|m| cfg.pool[*m].name).collect::<Vec<_>>() == names).unwrap_or_else(|| mc::machinery_error("replay: unknown query group"));
            // the runs of each member alone (their own findings are not the subject of this replay)
            let mut scratch = Acc::default();
            let alone: Vec<Option<Reports>> = (0..cfg.pool.len()).map(|qi| if g.members.contains(&qi) { check_count(&Sel::default(), cfg, qi, &singles[qi], &stream, &mut scratch) } else { None }).collect();
            let alone_direct: Vec<Option<Option<u64>>> = cfg.pool.iter().map(|q| hamlet_direct(&[q], &stream).ok().map(|v| v[0])).collect();
            acc.evaluations += scratch.evaluations;
            check_sharing(&sel, cfg, g, &alone, &alone_direct, &stream, acc);
        }
        Some("reuse") => {
            let names: Vec<&str> = case["queries"].as_array().map(|a| a.iter().filter_map(|v| v.as_str()).collect()).unwrap_or_default();
            let set: Vec<&Query> = cfg.pool.iter().filter(|q| names.contains(&q.name)).collect();
            let first: Vec<u8> = case["first"].as_str().unwrap_or("").bytes().collect();
            acc.evaluations += 2;
            check_reuse(cfg, &set, &first, &stream, case["incremental"].as_bool().unwrap_or(false), acc);
        }
        _ => mc::machinery_error("replay: unknown case kind"),
    }
}

/// Hand-computed cases for the brute-force model (documented values: E+ over n events has
/// 2^n − 1 trends) and for the source printer.
fn self_test() {
    let total = |name: &'static str, s: &str| *brute_prefix_counts(&q(name).steps, s.as_bytes()).last().unwrap();
    assert_eq!(total("AB+C", "ABC"), 1);
    assert_eq!(total("AB+C", "ABBC"), 3);
    assert_eq!(total("AB+C", "ABBBC"), 7);
    assert_eq!(total("AB+C", "ABCBC"), 4); // (A0,C2):{B1}; (A0,C4): {B1},{B3},{B1,B3}
    assert_eq!(total("AB+C", "ABCABC"), 5); // A0-C2: 1, A0-C5: 3, A3-C5: 1
    assert_eq!(total("AB+C", "AABC"), 2);
    assert_eq!(total("AB+C", "ACB"), 0);
    assert_eq!(total("AB+", "AB"), 1);
    assert_eq!(total("AB+", "ABB"), 3);
    assert_eq!(total("AB+", "ABBB"), 7);
    assert_eq!(total("AB+", "AAB"), 2);
    assert_eq!(total("AB+", "ABAB"), 4); // A0: {B1},{B3},{B1,B3}; A2: {B3}
    assert_eq!(total("AB+", "BAB"), 1);
    assert_eq!(total("AB+", "BBA"), 0);
    assert_eq!(total("AB+C+", "ABC"), 1);
    assert_eq!(total("AB+C+", "ABCC"), 3);
    assert_eq!(total("AB+C+", "ABBCC"), 9); // 3 B-sets × 3 C-sets
    assert_eq!(total("AB+C+", "ABCBC"), 5); // B1C2, B1C4, B1C2C4, B3C4, B1B3C4
    assert_eq!(total("AB+C+D", "ABCD"), 1);
    assert_eq!(total("AB+C+D", "ABBCCD"), 9);
    assert_eq!(brute_prefix_counts(&q("AB+C").steps, b"ABCBC"), vec![0, 0, 0, 1, 1, 4]);
    assert_eq!(q("AB+C").src(), "stream T_ABpC = A as s0 -> all B as s1 -> C as s2\n    .within(60s)\n    .trend_aggregate(n: count_trends())\n    .emit(n: n)\n");
    assert!(share_kleene(&q("AB+C"), &q("CB+")) && !share_kleene(&q("AB+"), &q("BC+")));
    assert_eq!(q("CB+").shape(), "XY+");
    assert_eq!(q("AB+C+D").shape(), "XY+Z+W");
}
