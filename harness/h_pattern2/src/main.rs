//! h_pattern2: C04 (partition independence), C09 (filter in `.where` vs. sequence step),
//! C25 (trend-aggregation counts and sharing invariance) — see DESIGN.md §3.

mod c04;
mod c09;
mod c25;
mod common;

fn main() {
    let args = mc::parse_args();
    mc::quiet_panics();
    match args.prop.as_str() {
        "C04" => c04::run(&args),
        "C09" => c09::run(&args),
        "C25" => c25::run(&args),
        other => mc::machinery_error(&format!("h_pattern2 serves C04, C09 and C25, not {other}")),
    }
}
