//! C04 — partitioned patterns / windows / aggregates act as independent per-key runs.
//!
//! Differential oracle, no hand-written expectation: for every stream σ over the alphabet, the
//! multiset of outputs of the program on σ must equal the multiset union, over the key values κ
//! occurring in σ (events without the key field form one extra partition), of the outputs of the
//! *same* program on the sub-sequence of σ with key κ. Sub-sequences keep the original event ids,
//! timestamps and values of their events.

use crate::common::{self, Out};
use mc::{Acc, Args, Deadline, Report};
use serde_json::{json, Value as J};
use std::time::Duration;
use varpulis_core::ast::Program;
use varpulis_core::Value;
use varpulis_runtime::Event;

#[derive(Clone, Copy, Debug, PartialEq, Eq)]
enum KeyType {
    Str,
    Int,
}
impl KeyType {
    fn name(self) -> &'static str {
        match self {
            KeyType::Str => "str",
            KeyType::Int => "int",
        }
    }
}
const STR_KEYS: [&str; 6] = ["x", "y", "z", "u", "w", "q"];

/// One event of the abstract stream: its position gives id, timestamp and (for window programs) v.
#[derive(Clone, Copy, Debug, PartialEq, Eq)]
struct Sym {
    ty: u8,  // index into the program's type list
    key: u8, // 0..nkeys-1 = key value, nkeys = key field missing
    v: u8,   // 0 = "derive from position (2^pos)", otherwise the literal value
}

struct Prog {
    name: &'static str,
    src: &'static str,
    types: &'static [&'static str],
    /// values of `v` in the alphabet; empty = v is 2^pos (makes `sum(v)` name the exact set of
    /// events aggregated)
    vs: &'static [u8],
    nkeys: usize,
    /// (quick, thorough) maximal stream length
    len: (usize, usize),
}

macro_rules! concat_agg {
    ($w:expr) => {
        concat!("stream S = A\n    .partition_by(k)\n", $w, "    .aggregate(c: count(), s: sum(v))\n    .emit(c: c, s: s, p: _partition)\n")
    };
}

fn programs() -> Vec<Prog> {
    // `.partition_by(k)` precedes the window so that the partitioned window operators are built.
    vec![
        Prog { name: "seq2", src: "stream S = A as a -> B as b\n    .partition_by(k)\n    .emit(a: a.id, b: b.id)\n", types: &["A", "B"], vs: &[1], nkeys: 3, len: (6, 7) },
        Prog { name: "seq3", src: "stream S = A as a -> B as b -> A as c\n    .partition_by(k)\n    .emit(a: a.id, b: b.id, c: c.id)\n", types: &["A", "B"], vs: &[1], nkeys: 3, len: (6, 7) },
        Prog { name: "seq2_ref", src: "stream S = A as a -> B where v > a.v as b\n    .partition_by(k)\n    .emit(a: a.id, b: b.id)\n", types: &["A", "B"], vs: &[1, 2], nkeys: 2, len: (5, 6) },
        Prog { name: "seq2_not_keyed", src: "stream S = A as a -> B as b\n    .partition_by(k)\n    .not(N where k == a.k)\n    .emit(a: a.id, b: b.id)\n", types: &["A", "B", "N"], vs: &[1], nkeys: 2, len: (5, 6) },
        Prog { name: "seq_kleene", src: "stream S = A as a -> all B as b -> C as c\n    .partition_by(k)\n    .emit(a: a.id, b: b.id, c: c.id)\n", types: &["A", "B", "C"], vs: &[1], nkeys: 2, len: (5, 6) },
        Prog { name: "seq2_6keys", src: "stream S = A as a -> B as b\n    .partition_by(k)\n    .emit(a: a.id, b: b.id)\n", types: &["A", "B"], vs: &[1], nkeys: 6, len: (4, 5) },
        Prog { name: "count2", src: concat_agg!("    .window(2)\n"), types: &["A"], vs: &[], nkeys: 3, len: (8, 10) },
        Prog { name: "count3_slide1", src: concat_agg!("    .window(3, sliding: 1)\n"), types: &["A"], vs: &[], nkeys: 3, len: (8, 10) },
        Prog { name: "tumbling2s", src: concat_agg!("    .window(2s)\n"), types: &["A"], vs: &[], nkeys: 3, len: (8, 10) },
        Prog { name: "sliding4s_2s", src: concat_agg!("    .window(4s, sliding: 2s)\n"), types: &["A"], vs: &[], nkeys: 3, len: (8, 10) },
        Prog { name: "session2s", src: concat_agg!("    .window(session: 2s)\n"), types: &["A"], vs: &[], nkeys: 3, len: (8, 10) },
        Prog { name: "count2_6keys", src: concat_agg!("    .window(2)\n"), types: &["A"], vs: &[], nkeys: 6, len: (6, 7) },
        Prog { name: "tumbling2s_6keys", src: concat_agg!("    .window(2s)\n"), types: &["A"], vs: &[], nkeys: 6, len: (6, 7) },
        Prog { name: "count2_events", src: "stream S = A\n    .partition_by(k)\n    .window(2)\n    .emit(id: id, k: k)\n", types: &["A"], vs: &[], nkeys: 3, len: (8, 10) },
    ]
}


fn alphabet(p: &Prog) -> Vec<Sym> {
    // simplest first: first type, first key, present keys before the missing key
    let mut a = Vec::new();
    let vs: &[u8] = if p.vs.is_empty() { &[0] } else { p.vs };
    for key in 0..=p.nkeys as u8 {
        for &v in vs {
            for ty in 0..p.types.len() as u8 {
                a.push(Sym { ty, key, v });
            }
        }
    }
    a
}

fn key_value(kt: KeyType, key: u8) -> Value {
    match kt {
        KeyType::Str => Value::str(STR_KEYS[key as usize]),
        KeyType::Int => Value::Int(key as i64 + 1),
    }
}

fn make_event(p_types: &[&str], nkeys: usize, kt: KeyType, s: Sym, pos: usize) -> Event {
    let mut e = common::event_at(p_types[s.ty as usize], pos);
    e.data.insert("id".into(), Value::Int(pos as i64));
    if (s.key as usize) < nkeys {
        e.data.insert("k".into(), key_value(kt, s.key));
    }
    let v = if s.v == 0 { 1i64 << pos } else { s.v as i64 };
    e.data.insert("v".into(), Value::Int(v));
    e
}

fn sym_json(types: &[&str], nkeys: usize, kt: KeyType, s: Sym, pos: usize) -> J {
    let key = if (s.key as usize) < nkeys { common::value_to_json(&Some(key_value(kt, s.key))) } else { json!({"missing": true}) };
    json!({"pos": pos, "type": types[s.ty as usize], "ty": s.ty, "key_idx": s.key, "key": key, "v": s.v})
}

struct CaseResult {
    full: Result<Vec<Out>, String>,
    union: Result<Vec<Out>, String>,
    distinct_keys: usize,
    has_missing: bool,
}

fn run_case(program: &Program, types: &[&str], nkeys: usize, kt: KeyType, stream: &[Sym]) -> CaseResult {
    let events: Vec<Event> = stream.iter().enumerate().map(|(pos, s)| make_event(types, nkeys, kt, *s, pos)).collect();
    let full = common::run_engine(program, &events);
    let mut union: Result<Vec<Out>, String> = Ok(Vec::new());
    let mut distinct = 0;
    let mut has_missing = false;
    for key in 0..=nkeys as u8 {
        let sub: Vec<Event> = stream.iter().zip(events.iter()).filter(|(s, _)| s.key == key).map(|(_, e)| e.clone()).collect();
        if sub.is_empty() {
            continue;
        }
        distinct += 1;
        if key as usize == nkeys {
            has_missing = true;
        }
        match common::run_engine(program, &sub) {
            Ok(o) => {
                if let Ok(u) = union.as_mut() {
                    u.extend(o);
                }
            }
            Err(e) => union = Err(format!("sub-run for key #{key}: {e}")),
        }
    }
    CaseResult { full, union, distinct_keys: distinct, has_missing }
}

fn check_case(p: &Prog, program: &Program, kt: KeyType, stream: &[Sym], acc: &mut Acc) {
    let r = run_case(program, p.types, p.nkeys, kt, stream);
    acc.evaluations += 1 + r.distinct_keys as u64;
    let case = || {
        json!({
            "program": p.name, "src": p.src, "key_type": kt.name(), "nkeys": p.nkeys,
            "stream": stream.iter().enumerate().map(|(pos, s)| sym_json(p.types, p.nkeys, kt, *s, pos)).collect::<Vec<_>>(),
        })
    };
    let sig = |shape: &str| format!("C04:{}:keys={}{}{}", p.name, kt.name(), if r.has_missing { "+missing" } else { "" }, shape);
    match (&r.full, &r.union) {
        (Ok(full), Ok(union)) => {
            let fm = common::content_multiset(full);
            let um = common::content_multiset(union);
            if r.distinct_keys >= 2 && !full.is_empty() {
                acc.nontrivial += 1;
                if stream.len() >= 4 && r.distinct_keys >= 3 && full.len() >= 2 {
                    acc.sample(|| json!({"program": p.name, "key_type": kt.name(), "stream": show_stream(p, kt, stream), "whole_stream_output": common::show_outs(full)}));
                }
            }
            acc.outcome(&fm);
            if fm != um {
                let mut f: Vec<Out> = full.clone();
                let mut u: Vec<Out> = union.clone();
                f.sort();
                u.sort();
                acc.viol.add(
                    sig(""),
                    format!(
                        "program {} ({} keys): whole stream gives {} but the union of the per-key runs gives {}; stream = {}",
                        p.name,
                        kt.name(),
                        common::show_outs(&f),
                        common::show_outs(&u),
                        show_stream(p, kt, stream)
                    ),
                    case(),
                    stream.len(),
                );
            }
        }
        (Err(e), _) | (_, Err(e)) => {
            acc.outcome(&e);
            acc.viol.add(sig(":error"), format!("program {}: {e}; stream = {}", p.name, show_stream(p, kt, stream)), case(), stream.len());
        }
    }
}

fn show_stream(p: &Prog, kt: KeyType, stream: &[Sym]) -> String {
    let v: Vec<String> = stream
        .iter()
        .enumerate()
        .map(|(pos, s)| {
            let k = if (s.key as usize) < p.nkeys { format!("{}", key_value(kt, s.key)) } else { "-".into() };
            let v = if s.v == 0 { 1i64 << pos } else { s.v as i64 };
            format!("{}#{pos}(k={k},v={v})", p.types[s.ty as usize])
        })
        .collect();
    v.join(" ")
}

pub fn run(args: &Args) -> ! {
    let mut rep = Report::new(args, "exploration");
    if let Some(path) = &args.replay {
        let case = mc::load_replay(path);
        let mut acc = Acc::default();
        replay(&case, &mut acc);
        rep.absorb(acc);
        rep.evaluations = rep.evaluations.max(1);
        rep.finish();
    }
    controls();
    let deadline = Deadline::after(Duration::from_secs(args.tier.pick(36, 1100)));
    let progs = programs();
    let mut spaces = Vec::new();
    for p in &progs {
        let program = common::parse_or_die(p.src);
        let alpha = alphabet(p);
        for kt in [KeyType::Str, KeyType::Int] {
            // quick tier: the int-keyed twin of every program runs one event shorter
            let maxlen = args.tier.pick(p.len.0 - usize::from(kt == KeyType::Int), p.len.1);
            let space = mc::SeqSpace::new(alpha.len(), 1, maxlen);
            let total = space.total();
            let (acc, done) = mc::par_indices(total, args.threads, 512, |i, acc| {
                if i % 512 == 0 && deadline.expired() {
                    return false;
                }
                let mut idx = Vec::new();
                space.decode(i, &mut idx);
                let stream: Vec<Sym> = idx.iter().map(|j| alpha[*j]).collect();
                check_case(p, &program, kt, &stream, acc);
                true
            });
            if !done {
                rep.cap_hit(&format!("wall cap during program {} keys={} (streams up to length {maxlen})", p.name, kt.name()));
            }
            spaces.push(json!({"program": p.name, "key_type": kt.name(), "alphabet": alpha.len(), "max_len": maxlen, "streams": total, "completed": done}));
            rep.absorb(acc);
        }
    }
    rep.set("spaces", json!(spaces));
    rep.set("programs", json!(progs.len()));
    rep.set("program_sources", json!(progs.iter().map(|p| json!({"name": p.name, "src": p.src})).collect::<Vec<_>>()));
    rep.rule = "For each program (2-3 step sequences incl. a step filter referring to an earlier step, a Kleene step, `.not(N where k == a.k)`; count, sliding-count, tumbling, sliding and session windows each followed by count()/sum(v); a window without aggregate) and each key type (strings x,y,z[,u,w,q] / ints 1..), EVERY stream up to the length stated per space in `spaces` (quick tier: the int-keyed twin runs one event shorter) over (event type × key value or missing key [× v]) is run whole and once per key value present; output multisets (type, data without match_duration_ms) must coincide. Event i has id i, timestamp T0+i s, and in window programs v = 2^i, so sum(v) names the exact set of events aggregated. evaluations = engine executions (whole + per-key runs). Non-trivial = the stream has ≥ 2 distinct key values (missing counts as one) and the whole-stream output is non-empty.".into();
    rep.assume("keys of one type per run (strings or ints), never equal to the engine's placeholders \"\" and \"default\" for a missing key (as the property text states)");
    rep.assume("`.not(N)` without a key predicate is stream-global by definition (C01/C02) and is outside this alphabet; only `.not(N where k == a.k)` is enumerated");
    rep.assume("outputs are compared as multisets over the whole run; the position in the stream at which an output appears is a don't-care (not stated by the property)");
    rep.assume("timestamps in order on a 1 s grid; processing-time features are not used");
    rep.finish()
}

fn replay(case: &J, acc: &mut Acc) {
    let name = case["program"].as_str().unwrap_or("");
    let progs = programs();
    let Some(p) = progs.iter().find(|p| p.name == name) else { mc::machinery_error(&format!("replay: unknown program {name}")) };
    let kt = if case["key_type"].as_str() == Some("int") { KeyType::Int } else { KeyType::Str };
    let program = common::parse_or_die(p.src);
    let stream: Vec<Sym> = case["stream"]
        .as_array()
        .unwrap_or_else(|| mc::machinery_error("replay: no stream"))
        .iter()
        .map(|s| Sym { ty: s["ty"].as_u64().unwrap_or(0) as u8, key: s["key_idx"].as_u64().unwrap_or(0) as u8, v: s["v"].as_u64().unwrap_or(0) as u8 })
        .collect();
    let r = run_case(&program, p.types, p.nkeys, kt, &stream);
    println!("replay: program {} ({} keys), stream {}", p.name, kt.name(), show_stream(p, kt, &stream));
    println!("replay: whole stream      -> {}", r.full.as_ref().map(|o| common::show_outs(o)).unwrap_or_else(|e| e.clone()));
    println!("replay: per-key runs union -> {}", r.union.as_ref().map(|o| common::show_outs(o)).unwrap_or_else(|e| e.clone()));
    check_case(p, &program, kt, &stream, acc);
}

/// Negative controls: the same comparison on programs WITHOUT `.partition_by` must see a difference
/// on a stream that mixes two keys (otherwise the driver or the comparison is vacuous), and
/// `.not(N where k == a.k)` must really suppress a match (otherwise that program tests nothing).
fn controls() {
    let s = |ty: u8, key: u8| Sym { ty, key, v: 0 };
    let types: &[&str] = &["A", "B", "N"];
    let differs = |src: &str, stream: &[Sym]| {
        let program = common::parse_or_die(src);
        let r = run_case(&program, types, 2, KeyType::Str, stream);
        match (r.full, r.union) {
            (Ok(f), Ok(u)) => common::content_multiset(&f) != common::content_multiset(&u),
            _ => mc::machinery_error("control run failed"),
        }
    };
    if !differs("stream S = A as a -> B as b\n    .emit(a: a.id, b: b.id)\n", &[s(0, 0), s(1, 1)]) {
        mc::machinery_error("control: an unpartitioned sequence over two keys was not told apart from per-key runs");
    }
    if !differs("stream S = A\n    .window(2)\n    .aggregate(c: count(), s: sum(v))\n    .emit(c: c, s: s)\n", &[s(0, 0), s(0, 1)]) {
        mc::machinery_error("control: an unpartitioned count window over two keys was not told apart from per-key runs");
    }
    let not_src = programs().into_iter().find(|p| p.name == "seq2_not_keyed").expect("program exists").src;
    let program = common::parse_or_die(not_src);
    let outs = |stream: &[Sym]| run_case(&program, types, 2, KeyType::Str, stream).full.unwrap_or_else(|e| mc::machinery_error(&e)).len();
    if outs(&[s(0, 0), s(2, 0), s(1, 0)]) != 0 || outs(&[s(0, 0), s(2, 1), s(1, 0)]) != 1 {
        mc::machinery_error("control: `.not(N where k == a.k)` does not behave as a keyed negation (A N B same key must give no match, N of another key must not matter)");
    }
}
