//! C43 — language-server requests never crash and report valid ranges (DESIGN.md §3 C43).
//!
//! Enumerated space (E1, no sampling): documents × cursor positions.
//!   documents  = for each of 6 seed programs (17–24-line excerpts of the shipped examples): the
//!                seed itself, every single-character deletion, every single-token deletion and
//!                duplication, every insertion of one symbol of a 15-symbol alphabet (the 14 symbols
//!                of C41(a) plus 😀; contains é) at every character boundary — which puts a
//!                multi-byte character inside / before / after every identifier, string and
//!                comment —, and every substitution of one token by each entry of a 40-token
//!                dictionary.
//!   positions  = every (line, utf-16 column) with column ≤ len+1 on every line of the document
//!                (split on '\n'), plus (lines, 0) and (lines, 1) past the end of the document.
//! Real code driven per document: get_diagnostics, get_semantic_tokens, get_document_symbols; per
//! (document, position): get_hover, get_completions, get_definition, get_references.
//! get_diagnostics / get_definition / get_references re-parse the whole document on a fresh
//! 16 MiB-stack thread per call (milliseconds), so both tiers visit a deterministic, stated subset
//! of the (document, position) pairs for them (`plan`, echoed in the evidence rule); get_hover and
//! get_completions see every position of every document in the thorough tier.
//! Oracle: no panic; every reported range has line < number of lines, character ≤ utf-16 length of
//! that line, start ≤ end.
//!
//! Process structure: the parent splits the document index range into shards and runs every shard
//! in a single-threaded child process (`<exe> C43 --tier T shard LO HI`), `threads` children at a
//! time, because a stack overflow aborts the whole process. A child prints `B <doc>` before each
//! document and one `R <json>` line at the end; a child that dies is narrowed to its document, the
//! document is re-run with per-call markers (`trace`) to name the handler, and the rest of the shard
//! is re-queued.

use mc::{Args, Deadline, Report, Tier};
use serde_json::{json, Value};
use std::collections::{BTreeMap, BTreeSet, VecDeque};
use std::io::{Read, Write};
use std::sync::Mutex;
use std::time::{Duration, Instant};
use tower_lsp::lsp_types::{CompletionTextEdit, Position, Range, Url};

// ---------------------------------------------------------------------------------------------
// Seeds and the mutant space

struct SeedSpec {
    name: &'static str,
    file: &'static str,
    /// 1-based inclusive line ranges of the shipped example, concatenated
    ranges: &'static [(usize, usize)],
}

const EXAMPLES: &str = "/repo/examples";
/// Six seeds of 17–24 lines cut from the shipped examples so that together they contain connectors,
/// events, functions, pattern declarations, sequences, windows/aggregates, merge, enrich, emit, log,
/// print, comments and string literals. Kept short because every get_definition/get_references/
/// get_diagnostics call re-parses the whole document (cost ∝ documents × size).
const SEEDS: [SeedSpec; 6] = [
    SeedSpec { name: "enrich_weather", file: "enrich_weather.vpl", ranges: &[(4, 23)] },
    SeedSpec { name: "nats_streaming", file: "nats_streaming.vpl", ranges: &[(6, 11), (19, 20), (25, 37)] },
    SeedSpec { name: "functions", file: "functions.vpl", ranges: &[(18, 22), (76, 91), (105, 108)] },
    SeedSpec { name: "reusable_patterns", file: "reusable_patterns.vpl", ranges: &[(21, 32), (64, 73), (78, 79)] },
    SeedSpec { name: "hvac_quickstart", file: "hvac_quickstart.vpl", ranges: &[(90, 101), (117, 124), (129, 131)] },
    SeedSpec { name: "debugging_and_connectors", file: "debugging_and_connectors.vpl", ranges: &[(17, 22), (31, 35), (120, 132)] },
];

/// Token dictionary for substitutions (40 entries, simplest first).
const DICT: [&str; 40] = [
    "x", "1", "(", ")", "[", "]", "{", "}", ":", ",", ".", "..", "=", "==", "->", "\"", "#", "@", "\n", "    ", "\t", "é",
    "stream", "event", "pattern", "connector", "fn", "let", "if", "else", "and", "or", "not", "as", "where", "within", "all",
    "for", "in", "true",
];

/// Insertion alphabet: the 14 symbols of C41(a) plus one astral-plane character (2 utf-16 units).
const INS: [&str; 15] = ["a", "1", " ", "\n", "\t", "(", ")", "[", "]", "{", "\"", "#", ":", "é", "😀"];

struct Seed {
    name: String,
    text: String,
    /// crude tokens: runs of [A-Za-z0-9_] or one other non-white-space character
    toks: Vec<(usize, usize)>,
    /// byte offset of every character, plus text.len()
    bounds: Vec<usize>,
}

fn tokenize(s: &str) -> Vec<(usize, usize)> {
    let b = s.as_bytes();
    let mut v = Vec::new();
    let mut i = 0;
    while i < b.len() {
        let st = i;
        if b[i].is_ascii_alphanumeric() || b[i] == b'_' {
            while i < b.len() && (b[i].is_ascii_alphanumeric() || b[i] == b'_') {
                i += 1;
            }
        } else if b[i].is_ascii_whitespace() {
            // white space is not a token: spaces, tabs and newlines are covered by the
            // character-level deletions and insertions
            i += 1;
            continue;
        } else {
            i += 1;
            while i < b.len() && (b[i] & 0xC0) == 0x80 {
                i += 1;
            }
        }
        v.push((st, i));
    }
    v
}

/// Hand-written first seed: several multi-byte characters (2-byte, astral) in front of short
/// comments, strings and identifiers on the same line, so that a byte offset used as a character
/// or utf-16 index lands beyond the end of the line (the single-character insertions into the
/// shipped examples only ever shift an offset by one character). Added after seeded change C43.
const MULTIBYTE_SEED: &str = "éé😀#c\nstream Sé = A😀 # é\n    .where(x == \"é😀é\") #\nlet é😀 = \"😀😀\" # cé\n";

fn load_seeds() -> Vec<Seed> {
    let mut seeds = Vec::new();
    {
        let text = MULTIBYTE_SEED.to_string();
        let toks = tokenize(&text);
        let mut bounds: Vec<usize> = text.char_indices().map(|(i, _)| i).collect();
        bounds.push(text.len());
        seeds.push(Seed { name: "multibyte_lines".to_string(), text, toks, bounds });
    }
    seeds.extend(load_example_seeds());
    seeds
}

fn load_example_seeds() -> Vec<Seed> {
    SEEDS
        .iter()
        .map(|sp| {
            let path = format!("{EXAMPLES}/{}", sp.file);
            let full = std::fs::read_to_string(&path).unwrap_or_else(|e| mc::machinery_error(&format!("seed {path}: {e}")));
            let lines: Vec<&str> = full.split_inclusive('\n').collect();
            let mut text = String::new();
            for &(first, last) in sp.ranges {
                if lines.len() < last || first == 0 || first > last {
                    mc::machinery_error(&format!("seed {path} has {} lines, excerpt wants {first}..{last}", lines.len()));
                }
                text.push_str(&lines[first - 1..last].concat());
            }
            let toks = tokenize(&text);
            let mut bounds: Vec<usize> = text.char_indices().map(|(i, _)| i).collect();
            bounds.push(text.len());
            Seed { name: sp.name.to_string(), text, toks, bounds }
        })
        .collect()
}

#[derive(Clone, Copy, Debug, PartialEq, Eq)]
enum Edit {
    Orig,
    CharDel(usize),
    TokDel(usize),
    TokDup(usize),
    CharIns(usize, usize),
    TokSub(usize, usize),
}

struct Space {
    seeds: Vec<Seed>,
    /// first document index of each seed, plus the total
    offsets: Vec<u64>,
}

impl Seed {
    fn nchars(&self) -> u64 {
        (self.bounds.len() - 1) as u64
    }
    fn ndocs(&self) -> u64 {
        let (c, t) = (self.nchars(), self.toks.len() as u64);
        1 + c + t + t + (c + 1) * INS.len() as u64 + t * DICT.len() as u64
    }
    /// edit classes in simplest-first order
    fn decode(&self, mut i: u64) -> Edit {
        let (c, t) = (self.nchars(), self.toks.len() as u64);
        if i == 0 {
            return Edit::Orig;
        }
        i -= 1;
        if i < c {
            return Edit::CharDel(i as usize);
        }
        i -= c;
        if i < t {
            return Edit::TokDel(i as usize);
        }
        i -= t;
        if i < t {
            return Edit::TokDup(i as usize);
        }
        i -= t;
        let n_ins = (c + 1) * INS.len() as u64;
        if i < n_ins {
            return Edit::CharIns((i / INS.len() as u64) as usize, (i % INS.len() as u64) as usize);
        }
        i -= n_ins;
        Edit::TokSub((i / DICT.len() as u64) as usize, (i % DICT.len() as u64) as usize)
    }
    /// (mutated text, byte offset of the edit, human description)
    fn apply(&self, e: Edit) -> (String, usize, String) {
        let mut m = self.text.clone();
        match e {
            Edit::Orig => (m, 0, format!("seed {} unchanged", self.name)),
            Edit::CharDel(k) => {
                let (a, b) = (self.bounds[k], self.bounds[k + 1]);
                let d = format!("seed {}: delete character {:?} at byte {a}", self.name, &self.text[a..b]);
                m.replace_range(a..b, "");
                (m, a, d)
            }
            Edit::TokDel(k) => {
                let (a, b) = self.toks[k];
                let d = format!("seed {}: delete token {:?} at byte {a}", self.name, &self.text[a..b]);
                m.replace_range(a..b, "");
                (m, a, d)
            }
            Edit::TokDup(k) => {
                let (a, b) = self.toks[k];
                let d = format!("seed {}: duplicate token {:?} at byte {a}", self.name, &self.text[a..b]);
                let t = self.text[a..b].to_string();
                m.insert_str(b, &t);
                (m, b, d)
            }
            Edit::CharIns(k, s) => {
                let a = self.bounds[k];
                m.insert_str(a, INS[s]);
                (m, a, format!("seed {}: insert {:?} at byte {a}", self.name, INS[s]))
            }
            Edit::TokSub(k, s) => {
                let (a, b) = self.toks[k];
                let d = format!("seed {}: replace token {:?} at byte {a} by {:?}", self.name, &self.text[a..b], DICT[s]);
                m.replace_range(a..b, DICT[s]);
                (m, a, d)
            }
        }
    }
}

impl Space {
    fn new() -> Self {
        let seeds = load_seeds();
        let mut offsets = vec![0u64];
        for s in &seeds {
            offsets.push(offsets.last().unwrap() + s.ndocs());
        }
        Space { seeds, offsets }
    }
    fn total(&self) -> u64 {
        *self.offsets.last().unwrap()
    }
    fn doc(&self, i: u64) -> (String, usize, String, Edit) {
        let mut si = 0;
        while self.offsets[si + 1] <= i {
            si += 1;
        }
        let e = self.seeds[si].decode(i - self.offsets[si]);
        let (t, at, d) = self.seeds[si].apply(e);
        (t, at, d, e)
    }
}

// ---------------------------------------------------------------------------------------------
// Document geometry and the range oracle

struct Geom {
    /// utf-16 length of each line of text.split('\n')
    len16: Vec<u32>,
}

fn geom(text: &str) -> Geom {
    Geom { len16: text.split('\n').map(|l| l.encode_utf16().count() as u32).collect() }
}

impl Geom {
    fn lines(&self) -> u32 {
        self.len16.len() as u32
    }
    /// failure class of a position, if any
    fn pos_class(&self, p: &Position) -> Option<&'static str> {
        if p.line >= self.lines() {
            return Some("line_past_document_end");
        }
        if p.character > self.len16[p.line as usize] {
            return Some("range_past_line_end");
        }
        None
    }
    /// failure class of a range, if any (fixed precedence so the class is a function of the range)
    fn range_class(&self, r: &Range) -> Option<&'static str> {
        let (s, e) = (self.pos_class(&r.start), self.pos_class(&r.end));
        for c in ["line_past_document_end", "range_past_line_end"] {
            if s == Some(c) || e == Some(c) {
                return Some(c);
            }
        }
        if (r.start.line, r.start.character) > (r.end.line, r.end.character) {
            return Some("start_after_end");
        }
        None
    }
    /// every cursor position of the space
    fn positions(&self) -> Vec<Position> {
        let mut v = Vec::new();
        for (l, n) in self.len16.iter().enumerate() {
            for c in 0..=(n + 1) {
                v.push(Position { line: l as u32, character: c });
            }
        }
        v.push(Position { line: self.lines(), character: 0 });
        v.push(Position { line: self.lines(), character: 1 });
        v
    }
}

fn rng(r: &Range) -> String {
    format!("{}:{}-{}:{}", r.start.line, r.start.character, r.end.line, r.end.character)
}

// ---------------------------------------------------------------------------------------------
// Handlers

#[derive(Clone, Copy, Debug, PartialEq, Eq)]
enum Handler {
    Diagnostics,
    SemanticTokens,
    DocumentSymbols,
    Hover,
    Completion,
    Definition,
    References,
}
const DOC_HANDLERS: [Handler; 3] = [Handler::Diagnostics, Handler::SemanticTokens, Handler::DocumentSymbols];
const POS_HANDLERS: [Handler; 4] = [Handler::Hover, Handler::Completion, Handler::Definition, Handler::References];

impl Handler {
    fn name(self) -> &'static str {
        match self {
            Handler::Diagnostics => "diagnostics",
            Handler::SemanticTokens => "semantic_tokens",
            Handler::DocumentSymbols => "document_symbols",
            Handler::Hover => "hover",
            Handler::Completion => "completion",
            Handler::Definition => "definition",
            Handler::References => "references",
        }
    }
    fn from_name(s: &str) -> Option<Handler> {
        DOC_HANDLERS.iter().chain(POS_HANDLERS.iter()).copied().find(|h| h.name() == s)
    }
}

/// How the document parses: "ok" or the ParseError variant. An attribute of the document, used as a
/// signature component for diagnostics (each variant is converted to a range by different code).
fn parse_kind(text: &str) -> &'static str {
    use varpulis_parser::ParseError as E;
    match varpulis_parser::parse(text) {
        Ok(_) => "ok",
        Err(E::Located { .. }) => "parse_located",
        Err(E::UnexpectedToken { .. }) => "parse_unexpected_token",
        Err(E::UnexpectedEof) => "parse_unexpected_eof",
        Err(E::InvalidToken { .. }) => "parse_invalid_token",
        Err(E::InvalidNumber(_)) => "parse_invalid_number",
        Err(E::InvalidDuration(_)) => "parse_invalid_duration",
        Err(E::InvalidTimestamp(_)) => "parse_invalid_timestamp",
        Err(E::InvalidEscape(_)) => "parse_invalid_escape",
        Err(E::UnterminatedString(_)) => "parse_unterminated_string",
        Err(E::Custom { .. }) => "parse_custom",
    }
}

fn panic_class(msg: &str) -> &'static str {
    if msg.contains("is not a char boundary") {
        "slice_inside_multibyte_char"
    } else if msg.contains("out of range") || msg.contains("out of bounds") {
        "index_out_of_bounds"
    } else if msg.contains("overflow") {
        "arithmetic_overflow"
    } else if msg.contains("called `Option::unwrap()`") || msg.contains("called `Result::unwrap()`") {
        "unwrap_failed"
    } else {
        "panic"
    }
}

fn short_loc(loc: &str) -> String {
    for marker in ["/crates/", "/library/"] {
        if let Some(i) = loc.rfind(marker) {
            return loc[i + marker.len()..].to_string();
        }
    }
    loc.trim_start_matches('/').to_string()
}

/// Result of one handler call: a coarse outcome (for the distinct-outcome count) and the failures
/// as (signature, description).
struct Called {
    /// number of ranges the call reported
    ranges: usize,
    outcome: String,
    fails: Vec<(String, String)>,
}

fn call(h: Handler, text: &str, g: &Geom, pos: Position, uri: &Url) -> Called {
    // ranges reported by the call, each with a label
    let res: Result<(String, Vec<(String, Range)>), String> = mc::catch(|| match h {
        Handler::Diagnostics => {
            let ds = varpulis_lsp::diagnostics::get_diagnostics(text);
            let mut rs = Vec::new();
            for d in &ds {
                rs.push((format!("diagnostic {:?}", d.message.lines().next().unwrap_or("")), d.range));
                for ri in d.related_information.iter().flatten() {
                    rs.push(("related information".to_string(), ri.location.range));
                }
            }
            (format!("{}", ds.len()), rs)
        }
        Handler::SemanticTokens => {
            let ts = varpulis_lsp::semantic::get_semantic_tokens(text);
            let (mut line, mut ch) = (0u32, 0u32);
            let mut rs = Vec::new();
            for t in &ts {
                if t.delta_line > 0 {
                    line = line.saturating_add(t.delta_line);
                    ch = t.delta_start;
                } else {
                    ch = ch.saturating_add(t.delta_start);
                }
                let r = Range { start: Position { line, character: ch }, end: Position { line, character: ch.saturating_add(t.length) } };
                rs.push((format!("token type {}", t.token_type), r));
            }
            (format!("{}", ts.len().min(40)), rs)
        }
        Handler::DocumentSymbols => {
            let ss = varpulis_lsp::semantic::get_document_symbols(text);
            let rs = ss.iter().map(|s| (format!("symbol {:?}", s.name), s.location.range)).collect();
            (format!("{}", ss.len()), rs)
        }
        Handler::Hover => match varpulis_lsp::hover::get_hover(text, pos) {
            None => ("none".to_string(), vec![]),
            Some(hv) => {
                let title = match &hv.contents {
                    tower_lsp::lsp_types::HoverContents::Markup(m) => m.value.lines().next().unwrap_or("").to_string(),
                    _ => "other".to_string(),
                };
                (title, hv.range.iter().map(|r| ("hover range".to_string(), *r)).collect())
            }
        },
        Handler::Completion => {
            let items = varpulis_lsp::completion::get_completions(text, pos);
            let mut rs = Vec::new();
            for it in &items {
                match &it.text_edit {
                    Some(CompletionTextEdit::Edit(e)) => rs.push((format!("text edit of {:?}", it.label), e.range)),
                    Some(CompletionTextEdit::InsertAndReplace(e)) => {
                        rs.push((format!("insert range of {:?}", it.label), e.insert));
                        rs.push((format!("replace range of {:?}", it.label), e.replace));
                    }
                    None => {}
                }
                for e in it.additional_text_edits.iter().flatten() {
                    rs.push((format!("additional edit of {:?}", it.label), e.range));
                }
            }
            (format!("{}/{}", items.len(), items.first().map(|i| i.label.as_str()).unwrap_or("")), rs)
        }
        Handler::Definition => match varpulis_lsp::navigation::get_definition(text, pos, uri) {
            None => ("none".to_string(), vec![]),
            Some(l) => (format!("some/{}", l.range.end.line.saturating_sub(l.range.start.line).min(9)), vec![("definition".to_string(), l.range)]),
        },
        Handler::References => match varpulis_lsp::navigation::get_references(text, pos, uri) {
            None => ("none".to_string(), vec![]),
            Some(ls) => (format!("some/{}", ls.len().min(20)), ls.iter().map(|l| ("reference".to_string(), l.range)).collect()),
        },
    });
    match res {
        Err(msg) => {
            let class = panic_class(&msg);
            let loc = short_loc(&mc::last_panic_location());
            let sig = format!("C43:{}:{}@{}", h.name(), class, loc);
            Called { ranges: 0, outcome: format!("{}|panic {class}@{loc}", h.name()), fails: vec![(sig, format!("panicked at {loc}: {msg}"))] }
        }
        Ok((shape, ranges)) => {
            let mut fails = Vec::new();
            let mut classes = BTreeSet::new();
            let mut kind: Option<&'static str> = None;
            for (label, r) in &ranges {
                if let Some(c) = g.range_class(r) {
                    classes.insert(c);
                    // how the document parses is an attribute of the case; computed only when needed
                    // the failure class says which endpoint is outside: a start outside its line and an end
                    // that merely overshoots the end of the line are different defects
                    let c_full = match c {
                        "range_past_line_end" if g.pos_class(&r.start).is_some() => "range_past_line_end:start_outside",
                        "range_past_line_end" => "range_past_line_end:end_overshoots",
                        other => other,
                    };
                    let sig = if h == Handler::Diagnostics { format!("C43:{}:{}:{}", h.name(), c_full, *kind.get_or_insert_with(|| parse_kind(text))) } else { format!("C43:{}:{}", h.name(), c_full) };
                    let why = match c {
                        "line_past_document_end" => format!("the document has {} lines", g.lines()),
                        "range_past_line_end" => {
                            let p = if g.pos_class(&r.start).is_some() { r.start } else { r.end };
                            format!("line {} is {} utf-16 units long", p.line, g.len16[p.line as usize])
                        }
                        _ => "start lies after end".to_string(),
                    };
                    fails.push((sig, format!("{label} has range {} but {why}", rng(r))));
                }
            }
            let bad: Vec<&str> = classes.into_iter().collect();
            Called { ranges: ranges.len(), outcome: format!("{}|{shape}|{}", h.name(), bad.join(",")), fails }
        }
    }
}

// ---------------------------------------------------------------------------------------------
// Per-process accumulator (serialised from child to parent)

#[derive(Default)]
struct Local {
    evaluations: u64,
    nontrivial: u64,
    counts: BTreeMap<String, u64>,
    outcomes: BTreeSet<u64>,
    /// signature -> (failing handler calls, size, description, case)
    viol: BTreeMap<String, (u64, usize, String, Value)>,
}

impl Local {
    fn count(&mut self, k: &str, n: u64) {
        *self.counts.entry(k.to_string()).or_insert(0) += n;
    }
    fn fail(&mut self, sig: &str, size: usize, mk: impl FnOnce() -> (String, Value)) {
        match self.viol.get_mut(sig) {
            Some(e) => {
                e.0 += 1;
                if size < e.1 {
                    let (d, c) = mk();
                    *e = (e.0, size, d, c);
                }
            }
            None => {
                let (d, c) = mk();
                self.viol.insert(sig.to_string(), (1, size, d, c));
            }
        }
    }
    fn merge(&mut self, o: Local) {
        self.evaluations += o.evaluations;
        self.nontrivial += o.nontrivial;
        for (k, v) in o.counts {
            *self.counts.entry(k).or_insert(0) += v;
        }
        self.outcomes.extend(o.outcomes);
        for (sig, (n, size, d, c)) in o.viol {
            match self.viol.get_mut(&sig) {
                Some(e) => {
                    e.0 += n;
                    if size < e.1 {
                        *e = (e.0, size, d, c);
                    }
                }
                None => {
                    self.viol.insert(sig, (n, size, d, c));
                }
            }
        }
    }
    fn to_json(&self) -> Value {
        json!({
            "evaluations": self.evaluations,
            "nontrivial": self.nontrivial,
            "counts": self.counts,
            "outcomes": self.outcomes.iter().collect::<Vec<_>>(),
            "viol": self.viol.iter().map(|(s, (n, size, d, c))| json!({"sig": s, "n": n, "size": size, "desc": d, "case": c})).collect::<Vec<_>>(),
        })
    }
    fn from_json(v: &Value) -> Option<Local> {
        let mut l = Local { evaluations: v["evaluations"].as_u64()?, nontrivial: v["nontrivial"].as_u64()?, ..Default::default() };
        for (k, n) in v["counts"].as_object()? {
            l.counts.insert(k.clone(), n.as_u64()?);
        }
        for o in v["outcomes"].as_array()? {
            l.outcomes.insert(o.as_u64()?);
        }
        for e in v["viol"].as_array()? {
            l.viol.insert(e["sig"].as_str()?.to_string(), (e["n"].as_u64()?, e["size"].as_u64()? as usize, e["desc"].as_str()?.to_string(), e["case"].clone()));
        }
        Some(l)
    }
}

fn case_json(text: &str, h: Handler, pos: Option<Position>, found_as: &str) -> Value {
    json!({
        "text": text,
        "handler": h.name(),
        "position": pos.map(|p| json!({"line": p.line, "character": p.character})),
        "found_as": found_as,
    })
}

// ---------------------------------------------------------------------------------------------
// One document

/// Which positions of a document a group of position-dependent handlers is run on.
#[derive(Clone, Copy, PartialEq, Eq)]
enum Mode {
    /// every position of the document
    Full,
    /// every column (0..=len+1) of the lines within `near` lines of the edited line
    Near,
    Skip,
}

#[derive(Clone, Copy)]
struct Sel {
    /// documents with index % full_stride == 0 get Mode::Full (0 = only the unchanged seeds)
    full_stride: u64,
    /// in Mode::Full on a mutant, lines other than the edited one keep the columns with
    /// (column + doc) % col_step == 0 (1 = every column); unchanged seeds always keep everything
    col_step: u64,
    /// the remaining documents with index % near_stride == 0 get Mode::Near (0 = none)
    near_stride: u64,
    near: u32,
}

impl Sel {
    fn mode(&self, doc: u64, is_seed: bool) -> Mode {
        if is_seed || (self.full_stride > 0 && doc % self.full_stride == 0) {
            Mode::Full
        } else if self.near_stride > 0 && doc % self.near_stride == 0 {
            Mode::Near
        } else {
            Mode::Skip
        }
    }
    fn keep(&self, m: Mode, doc: u64, is_seed: bool, edit_line: u32, p: &Position) -> bool {
        match m {
            Mode::Full => is_seed || self.col_step <= 1 || p.line.abs_diff(edit_line) <= self.near || (p.character as u64 + doc) % self.col_step == 0,
            Mode::Near => p.line.abs_diff(edit_line) <= self.near,
            Mode::Skip => false,
        }
    }
    fn describe(&self) -> String {
        let near_lines = if self.near == 0 { "the edited line".to_string() } else { format!("the lines within {} of the edited line", self.near) };
        let cols = if self.col_step <= 1 { "every position".to_string() } else { format!("every column of {near_lines} and, on the other lines, the columns with (column + index) % {} == 0,", self.col_step) };
        let full = match self.full_stride {
            0 => "every position of the 6 unchanged seeds".to_string(),
            1 => format!("{cols} of every document"),
            n => format!("every position of the unchanged seeds; {cols} of the documents with index % {n} == 0"),
        };
        let near = match (self.full_stride, self.near_stride) {
            (1, _) | (_, 0) => String::new(),
            (_, 1) => format!("; on every other document every column of {near_lines}"),
            (_, n) => format!("; on the other documents with index % {n} == 0 every column of {near_lines}"),
        };
        format!("{full}{near}")
    }
}

const CHEAP_HANDLERS: [Handler; 2] = [Handler::Hover, Handler::Completion];
const NAV_HANDLERS: [Handler; 2] = [Handler::Definition, Handler::References];

fn check_doc(doc: u64, text: &str, edit_at: usize, is_seed: bool, found_as: &str, pl: &Plan, uri: &Url, loc: &mut Local, trace: bool) {
    let g = geom(text);
    let multibyte = !text.is_ascii();
    // Machinery self-test: pretend the real code aborts the process in get_definition on this document.
    let abort_hook: Option<u64> = std::env::var("VERIF_C43_SELFTEST_ABORT_DOC").ok().and_then(|s| s.parse().ok());
    loc.count("documents", 1);
    if multibyte {
        loc.count("documents_with_multibyte_char", 1);
    }
    let one = |h: Handler, pos: Option<Position>, loc: &mut Local| -> Called {
        if trace {
            let p = pos.unwrap_or_default();
            println!("T {} {} {}", h.name(), p.line, p.character);
        }
        if abort_hook == Some(doc) && h == Handler::Definition {
            std::process::abort(); // machinery self-test only (VERIF_C43_SELFTEST_ABORT_DOC)
        }
        let c = call(h, text, &g, pos.unwrap_or_default(), uri);
        loc.evaluations += 1;
        loc.outcomes.insert(mc::hash_of(&c.outcome));
        for (sig, desc) in &c.fails {
            loc.fail(sig, text.len(), || {
                let at = pos.map(|p| format!(" at position {}:{}", p.line, p.character)).unwrap_or_default();
                (format!("{}{at} on [{found_as}]: {desc}", h.name()), case_json(text, h, pos, found_as))
            });
        }
        c
    };
    for h in DOC_HANDLERS {
        if h == Handler::Diagnostics && !(is_seed || doc % pl.diag_stride == 0) {
            if multibyte {
                loc.nontrivial += 1;
            }
            continue;
        }
        let c = one(h, None, loc);
        if h == Handler::Diagnostics {
            loc.count("documents_diagnosed", 1);
            let has_diag = c.ranges > 0;
            if has_diag {
                loc.count("documents_with_diagnostics", 1);
            }
            if has_diag || multibyte {
                loc.nontrivial += 1;
            }
        }
    }
    let (mc_, mn) = (pl.cheap.mode(doc, is_seed), pl.nav.mode(doc, is_seed));
    if mc_ == Mode::Skip && mn == Mode::Skip {
        return;
    }
    let edit_line = text[..edit_at.min(text.len())].matches('\n').count() as u32;
    let (mut npos, mut ncheap, mut nnav) = (0u64, 0u64, 0u64);
    for p in g.positions() {
        let (kc, kn) = (pl.cheap.keep(mc_, doc, is_seed, edit_line, &p), pl.nav.keep(mn, doc, is_seed, edit_line, &p));
        if kc {
            ncheap += 1;
            for h in CHEAP_HANDLERS {
                one(h, Some(p), loc);
            }
        }
        if kn {
            nnav += 1;
            for h in NAV_HANDLERS {
                one(h, Some(p), loc);
            }
        }
        if kc || kn {
            npos += 1;
        }
    }
    loc.count("positions", npos);
    loc.count("positions_hover_completion", ncheap);
    loc.count("positions_definition_references", nnav);
}

// ---------------------------------------------------------------------------------------------
// Tier plans

struct Plan {
    /// get_diagnostics (one parse + validation per call) runs on the unchanged seeds and on documents
    /// with index % diag_stride == 0; get_semantic_tokens and get_document_symbols on every document
    diag_stride: u64,
    /// get_hover, get_completions
    cheap: Sel,
    /// get_definition, get_references: each call on a word re-parses and re-validates the whole
    /// document on a fresh 16 MiB-stack thread (1.5 ms of CPU on a quiet machine, 10 ms when the
    /// machine is oversubscribed; hover+completion together cost 5 µs) — this forces the thinning
    nav: Sel,
    shard: u64,
    /// wall budget of the sweep; children still running at that point are killed
    wall: u64,
    /// extra wall budget for shrinking the recorded cases afterwards
    shrink_wall: u64,
}

fn plan(tier: Tier) -> Plan {
    // strides are primes that divide neither |INS| = 15 nor |DICT| = 40, so every symbol and every
    // dictionary entry keeps occurring at every edit site class
    match tier {
        // ≈ 18 000 parses
        Tier::Quick => Plan {
            diag_stride: 17,
            cheap: Sel { full_stride: 211, col_step: 1, near_stride: 1, near: 0 },
            nav: Sel { full_stride: 0, col_step: 1, near_stride: 599, near: 0 },
            shard: 256,
            wall: 31,
            shrink_wall: 4,
        },
        // ≈ 1 100 000 parses
        Tier::Thorough => Plan {
            diag_stride: 1,
            cheap: Sel { full_stride: 1, col_step: 1, near_stride: 0, near: 0 },
            nav: Sel { full_stride: 41, col_step: 3, near_stride: 13, near: 0 },
            shard: 128,
            wall: 1080,
            shrink_wall: 60,
        },
    }
}

fn uri() -> Url {
    Url::parse("file:///doc.vpl").unwrap()
}

// ---------------------------------------------------------------------------------------------
// Child modes

fn child_shard(args: &Args) -> ! {
    let lo: u64 = args.extra.get(1).and_then(|s| s.parse().ok()).unwrap_or_else(|| mc::machinery_error("shard LO HI"));
    let hi: u64 = args.extra.get(2).and_then(|s| s.parse().ok()).unwrap_or_else(|| mc::machinery_error("shard LO HI"));
    let trace = args.extra.get(3).map(|s| s == "trace").unwrap_or(false);
    let space = Space::new();
    let pl = plan(args.tier);
    let u = uri();
    let mut loc = Local::default();
    for i in lo..hi.min(space.total()) {
        println!("B {i}");
        let (text, at, desc, e) = space.doc(i);
        check_doc(i, &text, at, e == Edit::Orig, &desc, &pl, &u, &mut loc, trace);
    }
    println!("R {}", loc.to_json());
    let _ = std::io::stdout().flush();
    std::process::exit(0)
}

/// Run exactly one recorded case (replay and shrinking use this).
fn run_case(case: &Value, loc: &mut Local) {
    let text = case["text"].as_str().unwrap_or_else(|| mc::machinery_error("case without text"));
    let h = case["handler"].as_str().and_then(Handler::from_name).unwrap_or_else(|| mc::machinery_error("case without handler"));
    let pos = case["position"].as_object().map(|p| Position { line: p["line"].as_u64().unwrap_or(0) as u32, character: p["character"].as_u64().unwrap_or(0) as u32 });
    let found_as = case["found_as"].as_str().unwrap_or("replay");
    let g = geom(text);
    println!("T {} {} {}", h.name(), pos.unwrap_or_default().line, pos.unwrap_or_default().character);
    let c = call(h, text, &g, pos.unwrap_or_default(), &uri());
    loc.evaluations += 1;
    for (sig, desc) in c.fails {
        loc.fail(&sig, text.len(), || {
            let at = pos.map(|p| format!(" at position {}:{}", p.line, p.character)).unwrap_or_default();
            (format!("{}{at} on [{found_as}]: {desc}", h.name()), case.clone())
        });
    }
}

fn read_case_file(path: &str) -> Value {
    let t = std::fs::read_to_string(path).unwrap_or_else(|e| mc::machinery_error(&format!("case file {path}: {e}")));
    serde_json::from_str(&t).unwrap_or_else(|e| mc::machinery_error(&format!("case file {path}: {e}")))
}

fn child_call(args: &Args) -> ! {
    let case = read_case_file(args.extra.get(1).map(|s| s.as_str()).unwrap_or(""));
    let mut loc = Local::default();
    run_case(&case, &mut loc);
    println!("R {}", loc.to_json());
    std::process::exit(0)
}

/// Does the single call (text, handler, pos) still fail with signature `sig`?
fn still_fails(text: &str, h: Handler, pos: Option<Position>, sig: &str, u: &Url) -> bool {
    let g = geom(text);
    call(h, text, &g, pos.unwrap_or_default(), u).fails.iter().any(|(s, _)| s == sig)
}

/// Greedy shrinking of a failing case: drop whole lines, then single characters, as long as the
/// same signature is still produced by the same handler (cursor moved along with the text).
fn child_shrink(args: &Args) -> ! {
    let input = read_case_file(args.extra.get(1).map(|s| s.as_str()).unwrap_or(""));
    let sig = input["sig"].as_str().unwrap_or("").to_string();
    let case = &input["case"];
    let mut text = case["text"].as_str().unwrap_or("").to_string();
    let h = case["handler"].as_str().and_then(Handler::from_name).unwrap_or_else(|| mc::machinery_error("shrink: handler"));
    let mut pos = case["position"].as_object().map(|p| Position { line: p["line"].as_u64().unwrap_or(0) as u32, character: p["character"].as_u64().unwrap_or(0) as u32 });
    let u = uri();
    let budget = Instant::now() + Duration::from_secs(args.extra.get(2).and_then(|s| s.parse().ok()).unwrap_or(20));
    if !still_fails(&text, h, pos, &sig, &u) {
        println!("R {}", json!({"shrunk": false}));
        std::process::exit(0);
    }
    // pass 1: lines
    let mut changed = true;
    while changed && Instant::now() < budget {
        changed = false;
        let mut l = text.split('\n').count();
        while l > 0 && Instant::now() < budget {
            l -= 1;
            let lines: Vec<&str> = text.split('\n').collect();
            if lines.len() <= 1 {
                break;
            }
            let mut np = pos;
            if let Some(p) = pos {
                if p.line as usize == l {
                    continue;
                }
                if (p.line as usize) > l {
                    np = Some(Position { line: p.line - 1, character: p.character });
                }
            }
            let cand: Vec<&str> = lines.iter().enumerate().filter(|(i, _)| *i != l).map(|(_, s)| *s).collect();
            let cand = cand.join("\n");
            if still_fails(&cand, h, np, &sig, &u) {
                text = cand;
                pos = np;
                changed = true;
            }
        }
    }
    // pass 2: characters
    changed = true;
    while changed && Instant::now() < budget {
        changed = false;
        let idx: Vec<(usize, char)> = text.char_indices().collect();
        for &(b, ch) in idx.iter().rev() {
            if Instant::now() >= budget {
                break;
            }
            if b >= text.len() || !text.is_char_boundary(b) || text[b..].chars().next() != Some(ch) {
                continue;
            }
            let line = text[..b].matches('\n').count() as u32;
            let mut np = pos;
            if let Some(p) = pos {
                if ch == '\n' {
                    if p.line > line {
                        // joining lines would move the cursor in a way not worth modelling
                        continue;
                    }
                } else if p.line == line {
                    let line_start = text[..b].rfind('\n').map(|i| i + 1).unwrap_or(0);
                    let col16 = text[line_start..b].encode_utf16().count() as u32;
                    if col16 < p.character {
                        let w = ch.len_utf16() as u32;
                        if p.character < col16 + w {
                            continue; // cursor is inside this character
                        }
                        np = Some(Position { line: p.line, character: p.character - w });
                    }
                }
            }
            let mut cand = text.clone();
            cand.replace_range(b..b + ch.len_utf8(), "");
            if still_fails(&cand, h, np, &sig, &u) {
                text = cand;
                pos = np;
                changed = true;
            }
        }
    }
    let g = geom(&text);
    let why = call(h, &text, &g, pos.unwrap_or_default(), &u).fails.into_iter().find(|(s, _)| *s == sig).map(|(_, d)| d).unwrap_or_default();
    let out = json!({"shrunk": true, "why": why, "case": case_json(&text, h, pos, &format!("shrunk from: {}", case["found_as"].as_str().unwrap_or("")))});
    println!("R {out}");
    std::process::exit(0)
}

// ---------------------------------------------------------------------------------------------
// Parent: child management

struct ChildOut {
    result: Option<Value>,
    last_b: Option<u64>,
    last_t: Option<String>,
    timed_out: bool,
    /// killed because the global wall budget ran out (nothing is concluded from it)
    capped: bool,
}

fn run_child(args: &Args, extra: &[String], timeout: Duration, deadline: Option<&Deadline>) -> ChildOut {
    let exe = std::env::current_exe().unwrap_or_else(|e| mc::machinery_error(&format!("current_exe: {e}")));
    let mut child = std::process::Command::new(exe)
        .arg(&args.prop)
        .arg("--tier")
        .arg(args.tier.name())
        .args(extra)
        .stdin(std::process::Stdio::null())
        .stdout(std::process::Stdio::piped())
        .stderr(std::process::Stdio::null())
        .spawn()
        .unwrap_or_else(|e| mc::machinery_error(&format!("spawn child: {e}")));
    let mut out = child.stdout.take().unwrap();
    let reader = std::thread::spawn(move || {
        let mut s = String::new();
        let _ = out.read_to_string(&mut s);
        s
    });
    let start = Instant::now();
    let mut timed_out = false;
    loop {
        match child.try_wait() {
            Ok(Some(_)) => break,
            Ok(None) => {
                if deadline.map(|d| d.expired()).unwrap_or(false) {
                    let _ = child.kill();
                    let _ = child.wait();
                    let _ = reader.join();
                    return ChildOut { result: None, last_b: None, last_t: None, timed_out: false, capped: true };
                }
                if start.elapsed() > timeout {
                    let _ = child.kill();
                    let _ = child.wait();
                    timed_out = true;
                    break;
                }
                std::thread::sleep(Duration::from_millis(3));
            }
            Err(e) => mc::machinery_error(&format!("wait child: {e}")),
        }
    }
    let text = reader.join().unwrap_or_default();
    let mut co = ChildOut { result: None, last_b: None, last_t: None, timed_out, capped: false };
    for line in text.lines() {
        if let Some(r) = line.strip_prefix("R ") {
            co.result = serde_json::from_str(r).ok();
        } else if let Some(b) = line.strip_prefix("B ") {
            co.last_b = b.trim().parse().ok();
        } else if let Some(t) = line.strip_prefix("T ") {
            co.last_t = Some(t.trim().to_string());
        } else if line.starts_with("MACHINERY-ERROR") {
            mc::machinery_error(&format!("child: {line}"));
        }
    }
    co
}

const SHARD_TIMEOUT_S: u64 = 600;
const DOC_TIMEOUT_S: u64 = 300;

/// A shard child died or hung on document `doc`: re-run that document alone with per-call markers.
/// If it dies or hangs again, the call it was in is reported; if it completes (the first death was
/// not caused by the document: external kill, machine overload), its result is simply merged.
fn diagnose_dead_doc(args: &Args, space: &Space, doc: u64, merged: &Mutex<Local>, deadline: &Deadline) -> bool {
    let co = run_child(args, &["shard".into(), doc.to_string(), (doc + 1).to_string(), "trace".into()], Duration::from_secs(DOC_TIMEOUT_S), Some(deadline));
    if co.capped {
        return false;
    }
    if !co.timed_out {
        if let Some(l) = co.result.as_ref().and_then(Local::from_json) {
            let mut m = merged.lock().unwrap();
            m.merge(l);
            m.count("child_deaths_not_reproduced", 1);
            return true;
        }
    }
    let (text, _, desc, _) = space.doc(doc);
    let class = if co.timed_out { "no_return_within_budget" } else { "process_abort" };
    let (hname, pos) = match &co.last_t {
        Some(t) => {
            let mut it = t.split(' ');
            let h = it.next().unwrap_or("unknown").to_string();
            let l: u32 = it.next().and_then(|s| s.parse().ok()).unwrap_or(0);
            let c: u32 = it.next().and_then(|s| s.parse().ok()).unwrap_or(0);
            (h, Some(Position { line: l, character: c }))
        }
        None => ("unknown".to_string(), None),
    };
    let h = Handler::from_name(&hname);
    let pos = if h.map(|h| POS_HANDLERS.contains(&h)).unwrap_or(false) { pos } else { None };
    let sig = format!("C43:{hname}:{class}");
    let mut m = merged.lock().unwrap();
    m.count("documents_that_killed_the_process", 1);
    m.fail(&sig, text.len(), || {
        let at = pos.map(|p| format!(" at position {}:{}", p.line, p.character)).unwrap_or_default();
        let what = if class == "process_abort" { "the process died inside the call (abort / stack overflow cannot be caught)".to_string() } else { format!("the call did not return within {DOC_TIMEOUT_S} s") };
        (
            format!("{hname}{at} on [{desc}]: {what}"),
            json!({"text": text, "handler": hname, "position": pos.map(|p| json!({"line": p.line, "character": p.character})), "found_as": desc, "dies": true}),
        )
    });
    true
}

pub fn run(args: Args) -> ! {
    mc::quiet_panics();
    self_test();
    match args.extra.first().map(|s| s.as_str()) {
        Some("shard") => child_shard(&args),
        Some("call") => child_call(&args),
        Some("shrink") => child_shrink(&args),
        Some("bench") => bench(),
        Some("range") | None => {}
        Some(other) => mc::machinery_error(&format!("unknown mode {other}")),
    }
    let mut rep = Report::new(&args, "exploration");
    let scratch = mc::scratch_dir("C43");

    if let Some(path) = &args.replay {
        let case = mc::load_replay(path);
        let f = scratch.join("replay_case.json");
        std::fs::write(&f, case.to_string()).unwrap_or_else(|e| mc::machinery_error(&format!("scratch: {e}")));
        let co = run_child(&args, &["call".into(), f.to_string_lossy().to_string()], Duration::from_secs(DOC_TIMEOUT_S), None);
        let mut loc = Local::default();
        match co.result.as_ref().and_then(Local::from_json) {
            Some(l) => loc.merge(l),
            None => {
                let hname = case["handler"].as_str().unwrap_or("unknown").to_string();
                let class = if co.timed_out { "no_return_within_budget" } else { "process_abort" };
                loc.evaluations += 1;
                loc.fail(&format!("C43:{hname}:{class}"), 0, || (format!("{hname}: the process running the call {}", if co.timed_out { "hung" } else { "died" }), case.clone()));
            }
        }
        let _ = std::fs::remove_dir_all(&scratch);
        finish(rep, loc, &args, None)
    }

    let space = Space::new();
    let pl = plan(args.tier);
    let deadline = Deadline::after(Duration::from_secs(pl.wall));
    let total = space.total();
    // development aid: `<exe> C43 --tier T range LO HI` visits only documents LO..HI (evidence then says so)
    let (first, end) = if args.extra.first().map(|s| s.as_str()) == Some("range") {
        let lo: u64 = args.extra.get(1).and_then(|s| s.parse().ok()).unwrap_or(0);
        let hi: u64 = args.extra.get(2).and_then(|s| s.parse().ok()).unwrap_or(total);
        rep.cap_hit(&format!("restricted to documents {lo}..{hi} by the command line"));
        (lo.min(total), hi.min(total))
    } else {
        (0, total)
    };
    // shards are visited in a fixed scattered order (k·p mod n, p prime not dividing n) so that a run
    // cut short by the wall cap has still seen every seed and every edit class
    let shards: Vec<(u64, u64)> = (first..end).step_by(pl.shard as usize).map(|lo| (lo, (lo + pl.shard).min(end))).collect();
    let n = shards.len().max(1);
    let p = [389usize, 397, 401, 409, 419].into_iter().find(|p| n % p != 0).unwrap_or(1);
    let queue: Mutex<VecDeque<(u64, u64)>> = Mutex::new((0..shards.len()).map(|k| shards[(k * p) % n]).collect());
    let merged = Mutex::new(Local::default());
    let skipped = Mutex::new(0u64);
    std::thread::scope(|s| {
        for _ in 0..args.threads.max(1) {
            s.spawn(|| loop {
                let Some((lo, hi)) = queue.lock().unwrap().pop_front() else { break };
                if deadline.expired() {
                    *skipped.lock().unwrap() += hi - lo;
                    continue;
                }
                let co = run_child(&args, &["shard".into(), lo.to_string(), hi.to_string()], Duration::from_secs(SHARD_TIMEOUT_S), Some(&deadline));
                if co.capped {
                    *skipped.lock().unwrap() += hi - lo;
                    continue;
                }
                match co.result.as_ref().and_then(Local::from_json) {
                    Some(l) if !co.timed_out => merged.lock().unwrap().merge(l),
                    _ => {
                        let Some(dead) = co.last_b else { mc::machinery_error(&format!("shard {lo}..{hi} produced no output")) };
                        if !diagnose_dead_doc(&args, &space, dead, &merged, &deadline) {
                            *skipped.lock().unwrap() += hi - lo;
                            continue;
                        }
                        let mut q = queue.lock().unwrap();
                        if dead > lo {
                            q.push_back((lo, dead));
                        }
                        if dead + 1 < hi {
                            q.push_back((dead + 1, hi));
                        }
                    }
                }
            });
        }
    });
    let mut loc = merged.into_inner().unwrap();
    let skipped = skipped.into_inner().unwrap();
    if skipped > 0 {
        rep.cap_hit(&format!("wall cap {} s: {skipped} of {total} documents not visited", pl.wall));
    }

    // shrink the smallest case of every signature (in a child: the shrunk text is a new input)
    let sigs: Vec<String> = loc.viol.keys().cloned().collect();
    let shrink_deadline = Deadline::after(Duration::from_secs(pl.shrink_wall + 2));
    let shrunk: Mutex<Vec<(String, Value)>> = Mutex::new(Vec::new());
    std::thread::scope(|s| {
        for (k, sig) in sigs.iter().enumerate() {
            let case = loc.viol[sig].3.clone();
            if case["dies"].as_bool().unwrap_or(false) {
                continue;
            }
            let f = scratch.join(format!("shrink_{k}.json"));
            if std::fs::write(&f, json!({"sig": sig, "case": case}).to_string()).is_err() {
                continue;
            }
            let (args, shrunk, shrink_deadline, budget) = (&args, &shrunk, &shrink_deadline, pl.shrink_wall);
            s.spawn(move || {
                // the child stops by itself after `budget` seconds and prints what it has
                let co = run_child(args, &["shrink".into(), f.to_string_lossy().to_string(), budget.to_string()], Duration::from_secs(budget + 30), Some(shrink_deadline));
                if let Some(r) = co.result {
                    if r["shrunk"].as_bool().unwrap_or(false) {
                        shrunk.lock().unwrap().push((sig.clone(), r));
                    }
                }
            });
        }
    });
    for (sig, r) in shrunk.into_inner().unwrap() {
        let e = loc.viol.get_mut(&sig).unwrap();
        let text = r["case"]["text"].as_str().unwrap_or("");
        let at = r["case"]["position"].as_object().map(|p| format!(" at position {}:{}", p["line"], p["character"])).unwrap_or_default();
        let first = e.2.split("]: ").next().unwrap_or("").rsplit(" on [").next().unwrap_or("").to_string();
        e.1 = text.len();
        e.2 = format!("{}{at} on document {text:?}: {} (shrunk from [{first}])", r["case"]["handler"].as_str().unwrap_or(""), r["why"].as_str().unwrap_or(""));
        e.3 = r["case"].clone();
    }
    let _ = std::fs::remove_dir_all(&scratch);
    finish(rep, loc, &args, Some((&space, &pl)))
}

fn finish(mut rep: Report, loc: Local, args: &Args, ctx: Option<(&Space, &Plan)>) -> ! {
    let mut acc = mc::Acc { evaluations: loc.evaluations, nontrivial: loc.nontrivial, ..Default::default() };
    acc.counts = loc.counts.clone();
    acc.outcomes = loc.outcomes.iter().copied().collect();
    for (sig, (n, size, desc, case)) in loc.viol {
        acc.viol.add(sig.clone(), desc, case, size);
        for _ in 1..n {
            acc.viol.add(sig.clone(), String::new(), Value::Null, usize::MAX);
        }
    }
    rep.absorb(acc);
    if let Some((space, pl)) = ctx {
        rep.set("seeds", json!(space.seeds.iter().map(|s| json!({"name": s.name, "source": SEEDS.iter().find(|sp| sp.name == s.name).map(|sp| format!("{}/{} lines {:?}", EXAMPLES, sp.file, sp.ranges)), "lines": s.text.lines().count(), "bytes": s.text.len(), "tokens": s.toks.len(), "documents": s.ndocs()})).collect::<Vec<_>>()));
        rep.set("documents_in_space", json!(space.total()));
        rep.set("handler_calls", json!(rep.evaluations));
        let thin = format!(
            "{} TIER POSITIONS: get_hover and get_completions on {}; get_definition and get_references on {}; get_diagnostics on {}; get_semantic_tokens and get_document_symbols on every document",
            if args.tier == Tier::Thorough { "THOROUGH" } else { "QUICK" },
            pl.cheap.describe(),
            pl.nav.describe(),
            if pl.diag_stride <= 1 { "every document".to_string() } else { format!("the unchanged seeds and the documents with index % {} == 0", pl.diag_stride) }
        );
        rep.rule = format!(
            "Every (document, position, handler) triple selected by the deterministic rule below is executed on the real code (no sampling). Documents: for a hand-written 4-line seed with several multi-byte characters in front of short comments, strings and identifiers, and for each of 6 seeds (17–24-line excerpts of shipped examples/*.vpl, line ranges in `seeds`): the seed, every single-character deletion, every single-token deletion and duplication (tokens = runs of [A-Za-z0-9_] and single other non-white-space characters; white space is edited at character level), every insertion of one of {} symbols {:?} at every character boundary (so é and 😀 occur inside, before and after every identifier, string and comment), every substitution of a token by one of {} dictionary tokens. Positions: every (line, utf-16 column ≤ len+1) of every line of text.split('\\n') plus (lines,0) and (lines,1). Per document: get_diagnostics, get_semantic_tokens (delta-decoded), get_document_symbols; per position: get_hover, get_completions, get_definition, get_references; each call under catch_unwind in a child process. {thin}. Non-trivial = documents that contain a multi-byte character or for which get_diagnostics (where run) reports at least one diagnostic (parse error or validation finding). evaluations = handler calls.",
            INS.len(),
            INS,
            DICT.len()
        );
        for i in [0u64, space.total() / 3, space.total() - 1] {
            let (_, _, d, _) = space.doc(i);
            rep.sample(json!({"document": i, "mutant": d}));
        }
    }
    rep.assume("a range lies within the document iff line < number of '\\n'-separated lines, character ≤ utf-16 length of that line, start ≤ end; whether a column counts utf-16 units, chars or bytes is not judged as long as it stays inside the line");
    rep.assume("get_document_symbols is driven although the property statement does not name it (DESIGN §3 C43 lists it); its failures carry the component `document_symbols`");
    rep.assume("content of hovers/completions and which symbol a definition resolves to are don't-cares");
    rep.assume("documents are single edits of the seeds; '\\r' line endings are not in the alphabet");
    rep.finish()
}

/// The oracle is exercised on hand-computed cases before it is trusted.
fn self_test() {
    let g = geom("ab\né😀\n");
    assert_eq!(g.len16, vec![2, 3, 0]);
    let p = |l, c| Position { line: l, character: c };
    assert_eq!(g.pos_class(&p(0, 2)), None);
    assert_eq!(g.pos_class(&p(0, 3)), Some("range_past_line_end"));
    assert_eq!(g.pos_class(&p(1, 3)), None);
    assert_eq!(g.pos_class(&p(2, 0)), None);
    assert_eq!(g.pos_class(&p(2, 1)), Some("range_past_line_end"));
    assert_eq!(g.pos_class(&p(3, 0)), Some("line_past_document_end"));
    assert_eq!(g.range_class(&Range { start: p(1, 2), end: p(1, 1) }), Some("start_after_end"));
    assert_eq!(g.range_class(&Range { start: p(0, 0), end: p(2, 0) }), None);
    assert_eq!(g.range_class(&Range { start: p(0, 0), end: p(0, 9) }), Some("range_past_line_end"));
    // positions: (2+2) + (3+2) + (0+2) + 2 past the end
    assert_eq!(g.positions().len(), 13);
    assert_eq!(geom("x").len16, vec![1]);
    assert_eq!(tokenize("ab  c.é\n"), vec![(0, 2), (4, 5), (5, 6), (6, 8)]);
    assert_eq!(panic_class("byte index 3 is not a char boundary; it is inside 'é'"), "slice_inside_multibyte_char");
    assert_eq!(short_loc("/repo/crates/varpulis-lsp/src/completion.rs:52"), "varpulis-lsp/src/completion.rs:52");
}

/// Cost probe used to choose the tier plans (`<exe> C43 bench`); not part of any check.
fn bench() -> ! {
    let space = Space::new();
    let u = uri();
    println!("documents in space: {}", space.total());
    for s in &space.seeds {
        let g = geom(&s.text);
        let ps = g.positions();
        for d in varpulis_lsp::diagnostics::get_diagnostics(&s.text) {
            println!("  seed {} diagnostic {} {:?}", s.name, rng(&d.range), d.message.lines().next());
        }
        let t = Instant::now();
        for _ in 0..100 {
            let _ = varpulis_parser::parse(&s.text);
        }
        let parse = t.elapsed().as_micros() / 100;
        let t = Instant::now();
        for _ in 0..100 {
            let _ = std::thread::Builder::new().stack_size(16 << 20).spawn(|| 1).unwrap().join();
        }
        let spawn = t.elapsed().as_micros() / 100;
        let t = Instant::now();
        for _ in 0..100 {
            let _ = call(Handler::Diagnostics, &s.text, &g, Position::default(), &u);
        }
        let diag = t.elapsed().as_micros() / 100;
        let t = Instant::now();
        for p in &ps {
            let _ = call(Handler::Hover, &s.text, &g, *p, &u);
            let _ = call(Handler::Completion, &s.text, &g, *p, &u);
        }
        let cheap = t.elapsed().as_nanos() / ps.len() as u128;
        let t = Instant::now();
        for p in ps.iter().step_by(7) {
            let _ = call(Handler::Definition, &s.text, &g, *p, &u);
            let _ = call(Handler::References, &s.text, &g, *p, &u);
        }
        let nav = t.elapsed().as_micros() / ps.iter().step_by(7).count() as u128;
        println!("{}: {} bytes {} tokens {} docs {} positions | parse {parse} us, bare 16MiB thread spawn+join {spawn} us, diagnostics {diag} us, hover+completion {cheap} ns/position, definition+references {nav} us/position", s.name, s.text.len(), s.toks.len(), s.ndocs(), ps.len());
    }
    std::process::exit(0)
}
