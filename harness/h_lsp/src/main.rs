//! h_lsp — language-server properties. One module per property.
mod c43;

fn main() {
    let args = mc::parse_args();
    match args.prop.as_str() {
        "C43" => c43::run(args),
        other => mc::machinery_error(&format!("h_lsp serves C43, not {other}")),
    }
}
