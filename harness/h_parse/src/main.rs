//! h_parse: C41 (parser terminates / never panics / error locations inside the input),
//! C42 (declaration for-loops expand like hand-written copies), C46 (both event-file readers read
//! the same events) — see DESIGN.md §3.

mod c41;
mod c42;
mod c46;

/// Wall cap of a sweep in seconds. `VERIF_CAP_S` overrides the tier's default (diagnostic use on an
/// overloaded machine; the caps of the two tiers are the defaults).
pub fn cap_secs(default: u64) -> u64 {
    std::env::var("VERIF_CAP_S").ok().and_then(|s| s.parse().ok()).unwrap_or(default)
}

fn main() {
    let args = mc::parse_args();
    match args.prop.as_str() {
        "C41" => c41::run(&args),
        "C42" => c42::run(&args),
        "C46" => c46::run(&args),
        other => mc::machinery_error(&format!("h_parse serves C41, C42 and C46, not {other}")),
    }
}
