//! C46 — the preloading reader (`EventFileParser::parse`) and the streaming reader
//! (`StreamingEventReader`) read the same events from the same bytes, or both reject.
//!
//! Differential oracle, no expected value is written by hand: every file of up to N lines over a
//! table of line forms is handed to both readers; the two outcomes must be the same event sequence
//! (event type + field values; timestamps ignored, field order ignored) or both a rejection.
//! "The streaming reader rejects" = its iterator yields an `Err` (the CLI aborts the run at the first
//! `Err`, crates/varpulis-cli/src/main.rs simulate).
//!
//! Signature of a violating file = the line-form classes of its smallest violating sub-file (lines
//! removed, order kept), so that one root cause gives one signature however many neutral lines
//! surround it. Nothing of the wrong value enters the signature.

use mc::{Acc, Args, Deadline, Report};
use serde_json::{json, Value as J};
use std::time::Duration;
use varpulis_runtime::event::Event;
use varpulis_runtime::event_file::{EventFileParser, StreamingEventReader};

pub struct Form {
    pub class: &'static str,
    pub text: &'static str,
}

/// Line forms, simplest first. The classes are the vocabulary of the signatures.
pub fn forms() -> Vec<Form> {
    let f = |class, text| Form { class, text };
    vec![
        f("plain", "A { x: 1 }"),
        f("blank", ""),
        f("comment_hash", "# c"),
        f("comment_slash", "// c"),
        f("batch_directive", "BATCH 10"),
        f("timing_prefix:s", "@0s A { x: 1 }"),
        f("timing_prefix:ms", "@10ms A { x: 1 }"),
        f("timing_prefix:bare", "@100 A { x: 1 }"),
        f("jsonl", r#"{"event_type":"A","data":{"x":1}}"#),
        f("semicolon", "A { x: 1 };"),
        f("plain", "A { x: 1.5 }"),
        f("plain", "A { x: \"s\" }"),
        f("plain", "A { x: true }"),
        f("plain", "A { x: null }"),
        f("plain", "A { x: [1] }"),
        f("plain", "B { x: 2, y: \"t\" }"),
        f("plain_padded", "  A { x: 1 }  "),
        f("positional", "A(1, \"s\")"),
        f("jsonl", r#"{"event_type":"A","data":{"x":1.5}}"#),
        f("jsonl", r#"{"event_type":"A","data":{"x":"s"}}"#),
        f("jsonl", r#"{"event_type":"A","data":{"x":true}}"#),
        f("jsonl", r#"{"event_type":"A","data":{"x":null}}"#),
        f("jsonl", r#"{"event_type":"A","data":{"x":[1]}}"#),
        f("jsonl", r#"{"event_type":"B","data":{"x":2,"y":"t"}}"#),
        // indented forms of the directive / prefix / comment / JSONL lines (added after seeded change
        // C46: a reader that stops trimming leading blanks)
        f("timing_prefix_padded", "  @0s A { x: 1 }"),
        f("batch_directive_padded", "\tBATCH 10"),
        f("comment_padded", "  # c"),
        f("jsonl_padded", "  {\"event_type\":\"A\",\"data\":{\"x\":1}}"),
        f("malformed_event", "A x"),
        f("malformed_event", "A { x }"),
        f("malformed_json", "{\"x\":"),
        f("batch_directive:bad_value", "BATCH x"),
        f("timing_prefix:bad_value", "@x A { x: 1 }"),
        f("timing_prefix:no_event", "@5s"),
        f("batch_directive_padded:bad_value", "  BATCH x"),
        f("timing_prefix_padded:bad_value", "  @x A { x: 1 }"),
    ]
}

/// Line terminator variants of a file.
#[derive(Clone, Copy, PartialEq, Eq, Debug)]
pub enum Term {
    Lf,
    LfNoFinal,
    CrLf,
}
impl Term {
    fn name(self) -> &'static str {
        match self {
            Term::Lf => "lf",
            Term::LfNoFinal => "no_final_newline",
            Term::CrLf => "crlf",
        }
    }
    fn from_name(s: &str) -> Term {
        match s {
            "no_final_newline" => Term::LfNoFinal,
            "crlf" => Term::CrLf,
            _ => Term::Lf,
        }
    }
}

fn render(lines: &[&str], term: Term) -> String {
    let mut s = String::new();
    for (i, l) in lines.iter().enumerate() {
        s.push_str(l);
        match term {
            Term::Lf => s.push('\n'),
            Term::CrLf => s.push_str("\r\n"),
            Term::LfNoFinal => {
                if i + 1 < lines.len() {
                    s.push('\n')
                }
            }
        }
    }
    s
}

/// What a reader made of a file: the projected events, a rejection, or a panic.
#[derive(Clone, Debug, PartialEq, Eq, Hash)]
enum Read {
    Events(Vec<(String, Vec<(String, String)>)>),
    Rejected,
    Panicked,
}

fn project(e: &Event) -> (String, Vec<(String, String)>) {
    let mut fields: Vec<(String, String)> = e.data.iter().map(|(k, v)| (k.to_string(), format!("{v:?}"))).collect();
    fields.sort();
    (e.event_type.to_string(), fields)
}

fn read_preload(text: &str) -> Read {
    match mc::catch(|| EventFileParser::parse(text)) {
        Err(_) => Read::Panicked,
        Ok(Err(_)) => Read::Rejected,
        Ok(Ok(evs)) => Read::Events(evs.iter().map(|t| project(&t.event)).collect()),
    }
}

fn read_streaming(text: &str) -> Read {
    let r = mc::catch(|| {
        let mut out = Vec::new();
        let reader = StreamingEventReader::new(std::io::Cursor::new(text.as_bytes()));
        for item in reader {
            match item {
                Ok(e) => out.push(project(&e)),
                Err(_) => return None, // the consumer (CLI) aborts at the first Err
            }
        }
        Some(out)
    });
    match r {
        Err(_) => Read::Panicked,
        Ok(None) => Read::Rejected,
        Ok(Some(v)) => Read::Events(v),
    }
}

fn show(r: &Read) -> String {
    match r {
        Read::Rejected => "rejects the file".into(),
        Read::Panicked => "panics".into(),
        Read::Events(v) => {
            let evs: Vec<String> = v.iter().map(|(t, f)| format!("{t}{{{}}}", f.iter().map(|(k, v)| format!("{k}: {v}")).collect::<Vec<_>>().join(", "))).collect();
            format!("reads {} event(s) [{}]", v.len(), evs.join(", "))
        }
    }
}

/// Run both readers on the text; `Some(description)` when they disagree.
fn disagree(text: &str) -> (Read, Read, Option<String>) {
    let p = read_preload(text);
    let s = read_streaming(text);
    let d = if p == s || (p == Read::Panicked && s == Read::Panicked) { None } else { Some(format!("preloading reader {}; streaming reader {}", show(&p), show(&s))) };
    (p, s, d)
}

/// Smallest violating sub-file (fewest lines, then leftmost), preferring the plain "\n" terminator.
fn minimise<'a>(lines: &[&'a str], term: Term) -> (Vec<usize>, Term) {
    let n = lines.len();
    let mut masks: Vec<u32> = (1..(1u32 << n)).collect();
    masks.sort_by_key(|m| (m.count_ones(), *m));
    for m in masks {
        let keep = mc::bits(m, n);
        let sub: Vec<&str> = keep.iter().map(|i| lines[*i]).collect();
        for t in [Term::Lf, term] {
            if disagree(&render(&sub, t)).2.is_some() {
                return (keep, t);
            }
            if term == Term::Lf {
                break;
            }
        }
    }
    ((0..n).collect(), term)
}

fn class_of(line: &str, table: &[Form]) -> &'static str {
    table.iter().find(|f| f.text == line).map(|f| f.class).unwrap_or("other")
}

fn signature(min_lines: &[&str], term: Term, table: &[Form]) -> String {
    let mut classes: Vec<&str> = min_lines.iter().map(|l| class_of(l, table)).collect();
    classes.sort();
    classes.dedup();
    let mut sig = format!("C46:{}", classes.join("+"));
    if term != Term::Lf {
        sig.push_str(&format!(":{}", term.name()));
    }
    sig
}

/// Check one file; counts and reports into `acc`.
fn check_file(lines: &[&str], term: Term, table: &[Form], acc: &mut Acc) {
    let text = render(lines, term);
    let (p, s, d) = disagree(&text);
    acc.evaluations += 1;
    acc.outcome(&(&p, &s));
    let n_events = |r: &Read| if let Read::Events(v) = r { v.len() } else { 0 };
    if n_events(&p) + n_events(&s) > 0 {
        acc.nontrivial += 1;
    }
    if matches!((&p, &s), (Read::Rejected, Read::Rejected)) {
        acc.count("files_both_reject", 1);
    }
    if let Some(desc) = d {
        let (keep, mterm) = minimise(lines, term);
        let min_lines: Vec<&str> = keep.iter().map(|i| lines[*i]).collect();
        let sig = signature(&min_lines, mterm, table);
        let min_text = render(&min_lines, mterm);
        let (_, _, md) = disagree(&min_text);
        let full = format!("file {:?}: {}", min_text, md.unwrap_or(desc));
        // the recorded case is the minimal sub-file itself (it is a member of the enumerated space)
        acc.viol.add(sig, full, json!({"lines": min_lines, "terminator": mterm.name(), "file": min_text}), min_lines.len() * 1000 + min_text.len());
    }
}

pub fn run(args: &Args) -> ! {
    mc::quiet_panics();
    let table = forms();
    self_test(&table);
    let mut rep = Report::new(args, "exploration");

    if let Some(path) = &args.replay {
        let case = mc::load_replay(path);
        let owned: Vec<String> = match case.get("lines").and_then(J::as_array) {
            Some(a) => a.iter().map(|v| v.as_str().unwrap_or("").to_string()).collect(),
            None => case["file"].as_str().unwrap_or("").lines().map(|s| s.to_string()).collect(),
        };
        let lines: Vec<&str> = owned.iter().map(|s| s.as_str()).collect();
        let term = Term::from_name(case["terminator"].as_str().unwrap_or("lf"));
        let mut acc = Acc::default();
        check_file(&lines, term, &table, &mut acc);
        println!("replayed file {:?}", render(&lines, term));
        rep.absorb(acc);
        rep.finish();
    }

    let max_len = args.tier.pick(4usize, 5usize);
    let deadline = Deadline::after(Duration::from_secs(crate::cap_secs(args.tier.pick(33, 1000))));
    let k = table.len();
    // files of 0..=max_len lines with "\n" after every line
    let space = mc::SeqSpace::new(k, 0, max_len);
    let (acc, done) = mc::par_indices(space.total(), args.threads, 2048, |i, acc| {
        if i % 2048 == 0 && deadline.expired() {
            return false;
        }
        let mut idx = Vec::new();
        space.decode(i, &mut idx);
        let lines: Vec<&str> = idx.iter().map(|j| table[*j].text).collect();
        check_file(&lines, Term::Lf, &table, acc);
        if i == 5 + k as u64 {
            acc.samples.push(json!({"file": render(&lines, Term::Lf)}));
        }
        true
    });
    if !done {
        rep.cap_hit(&format!("wall cap during files of <= {max_len} lines"));
    }
    rep.set("files_lf", json!(space.total()));
    rep.absorb(acc);
    // the other two terminator variants for files of 1..=max_len-1 lines
    let space2 = mc::SeqSpace::new(k, 1, max_len - 1);
    let (acc, done) = mc::par_indices(space2.total() * 2, args.threads, 2048, |i, acc| {
        if i % 2048 == 0 && deadline.expired() {
            return false;
        }
        let term = if i % 2 == 0 { Term::LfNoFinal } else { Term::CrLf };
        let mut idx = Vec::new();
        space2.decode(i / 2, &mut idx);
        let lines: Vec<&str> = idx.iter().map(|j| table[*j].text).collect();
        check_file(&lines, term, &table, acc);
        true
    });
    if !done {
        rep.cap_hit("wall cap during terminator variants");
    }
    rep.set("files_other_terminators", json!(space2.total() * 2));
    rep.absorb(acc);

    rep.set("line_forms", json!(table.iter().map(|f| json!({"class": f.class, "line": f.text})).collect::<Vec<_>>()));
    rep.rule = format!(
        "Exhaustive: every file of 0..={max_len} lines over the {k} line forms listed in `line_forms` (plain `T {{ f: v }}` with v in 1, 1.5, \"s\", true, null, [1] and a two-field event; `BATCH n`; `@Ns`, `@Nms`, `@N` prefixes; JSONL with the same values; `#` and `//` comments; blank; trailing `;`; positional `T(v, v)`; padded; indented `@Ns`, `BATCH n`, comment and JSONL lines; malformed event / JSON / BATCH / timing lines), each line followed by \\n; plus every file of 1..={} lines with CRLF terminators and with the final newline missing. Both readers run on the same bytes. Non-trivial = at least one reader returned at least one event.",
        max_len - 1
    );
    rep.assume("events are compared by event type and field values (name-sorted, Debug form of the value, so Int(1) and Float(1.0) differ); timestamps and time offsets are ignored as the property text says");
    rep.assume("the streaming reader is taken to reject a file when its iterator yields an Err (the CLI aborts the run there); events it yielded before that are not compared");
    rep.assume("a violating file is reported under the line-form classes of its smallest violating sub-file; the malformed BATCH/timing forms are outside the documented line forms of the property text and are reported under their own signatures");
    rep.finish()
}

fn self_test(table: &[Form]) {
    assert_eq!(render(&["a", "b"], Term::Lf), "a\nb\n");
    assert_eq!(render(&["a", "b"], Term::LfNoFinal), "a\nb");
    assert_eq!(render(&["a", "b"], Term::CrLf), "a\r\nb\r\n");
    assert_eq!(class_of("BATCH 10", table), "batch_directive");
    assert_eq!(signature(&["@0s A { x: 1 }"], Term::Lf, table), "C46:timing_prefix:s");
    assert_eq!(signature(&["# c", "A { x: 1 }"], Term::CrLf, table), "C46:comment_hash+plain:crlf");
    // both readers on a file they must agree on (sanity of the projection, not an expected value of the subject)
    let (p, s, d) = disagree("A { x: 1 }\n");
    assert!(d.is_none() && p == s);
    assert!(matches!(p, Read::Events(ref v) if v.len() == 1 && v[0].0 == "A"));
    assert_ne!(Read::Rejected, Read::Events(vec![]));
}
