//! C41 — the parser terminates, never panics, and locates its errors inside the input.
//!
//! Parent / child protocol. The parent enumerates the input spaces in shards and re-invokes its own
//! executable for each shard (`<exe> C41 --tier T child range <space> <lo> <hi>`); the child regenerates
//! the same inputs from the same deterministic generators, runs the real `varpulis_parser::parse` on
//! each and prints one result line per input (flushed), so the parent always knows which input was in
//! flight. A child that stays silent for longer than the per-input budget is killed ("hang"), a child
//! that dies is an "abort" (a stack overflow kills the process, it cannot be caught); the input in
//! flight is re-run alone in a fresh child to confirm it before it is reported.
//!
//! Oracle (per input): the call returns within the budget; no panic escapes; no panic happens on the
//! parser's own thread (`parse` converts such a panic into an `Err` whose message claims a stack
//! overflow — the panic hook of the child counts panics process-wide, so it is seen); every position
//! in a returned error lies inside the text the parser reports against, i.e. the input after the two
//! public preprocessing steps (`expand_declaration_loops`, `preprocess_indentation`).

use mc::{Acc, Args, Deadline, Report, Tier};
use serde_json::{json, Value as J};
use std::io::{BufRead, BufReader, Write};
use std::process::{Command, Stdio};
use std::sync::atomic::{AtomicU64, Ordering};
use std::sync::mpsc;
use std::sync::Mutex;
use std::time::{Duration, Instant};
use varpulis_parser::ParseError;

const BUDGET: Duration = Duration::from_secs(2);
/// extra silence the parent tolerates before it kills a child (process scheduling, pipe latency)
const GRACE: Duration = Duration::from_millis(500);
/// a child that has not said READY by then is retried (the machine may be overloaded), then given up on
const STARTUP: Duration = Duration::from_secs(60);

/// The 14-symbol alphabet of DESIGN §3 C41, simplest first, plus a no-break space: a multi-byte
/// character that `trim_start`/`is_whitespace` treat as indentation (added after seeded change C41:
/// an indentation computed with `trim_start` and used as a byte offset).
const ALPHABET: [&str; 15] = ["a", "1", " ", "\n", "\t", "(", ")", "[", "]", "{", "\"", "#", ":", "é", "\u{a0}"];

/// 40-token dictionary for substitutions (keywords, punctuation, brackets, indentation, comments,
/// non-ASCII text, the preprocessor's own in-band markers, integer extremes, a loop header).
const DICT: [&str; 40] = [
    "stream", "=", ".", "(", ")", "[", "]", "{", "}", ":", ",", "\"", "->", "as", "where", "all", "for", "in", "..", "é", "\n", "    ", "\t", "#", "1", "x", "fn", "if", "else:", "event", "and", "not", "=>", "/*", "«INDENT»", "«DEDENT»",
    "9223372036854775807", "-9223372036854775808", "😀", "for i in 0..2:",
];
/// number of edits per token in the double-edit space of seed `s`: on the smallest seed delete and
/// duplicate, on the others delete only
fn double_edits(seed: usize) -> u64 {
    if seed == 0 {
        2
    } else {
        1
    }
}

// ---------------------------------------------------------------------------------------------
// Panic accounting (process-wide: `parse` runs the parser on its own thread).

static PANICS: AtomicU64 = AtomicU64::new(0);
/// slowest parse seen by the parent (a maximum, so not kept in the summed `Acc::counts`)
static SLOWEST_MICROS: AtomicU64 = AtomicU64::new(0);
static LAST_PANIC: Mutex<String> = Mutex::new(String::new());

fn install_hook() {
    std::panic::set_hook(Box::new(|info| {
        PANICS.fetch_add(1, Ordering::SeqCst);
        let loc = info.location().map(|l| format!("{}:{}", l.file(), l.line())).unwrap_or_default();
        let msg = if let Some(s) = info.payload().downcast_ref::<&str>() {
            s.to_string()
        } else if let Some(s) = info.payload().downcast_ref::<String>() {
            s.clone()
        } else {
            String::new()
        };
        *LAST_PANIC.lock().unwrap_or_else(|e| e.into_inner()) = format!("{loc}: {msg}");
    }));
}

// ---------------------------------------------------------------------------------------------
// Seeds and input spaces (identical in parent and child).

struct Seed {
    path: String,
    text: String,
    toks: Vec<(usize, usize)>,
    /// byte offsets of char starts, plus the end offset
    cpos: Vec<usize>,
    /// byte ranges of the top-level declaration-loop blocks (header line + indented/blank lines after it)
    loops: Vec<(usize, usize)>,
}

/// Harness-side scan for declaration-loop blocks: a line at indent 0 of the form `for … .. …:` and the
/// lines after it up to the next non-blank line at indent 0 (trailing blank lines not included).
fn loop_blocks(text: &str) -> Vec<(usize, usize)> {
    let mut out = Vec::new();
    let mut off = 0;
    let mut cur: Option<(usize, usize)> = None;
    for line in text.split_inclusive('\n') {
        let body = line.trim_end_matches(['\n', '\r']);
        let top = !body.is_empty() && !body.starts_with([' ', '\t']);
        if top {
            if let Some(c) = cur.take() {
                out.push(c);
            }
            if body.starts_with("for ") && body.contains("..") && body.trim_end().ends_with(':') {
                cur = Some((off, off + line.len()));
            }
        } else if let Some(c) = cur.as_mut() {
            if !body.trim().is_empty() {
                c.1 = off + line.len();
            }
        }
        off += line.len();
    }
    if let Some(c) = cur {
        out.push(c);
    }
    out
}

/// identifier/number runs, runs of spaces, every other char on its own
fn tokens(s: &str) -> Vec<(usize, usize)> {
    let mut v = Vec::new();
    let mut it = s.char_indices().peekable();
    while let Some((i, c)) = it.next() {
        let word = |c: char| c.is_ascii_alphanumeric() || c == '_';
        if word(c) || c == ' ' {
            let mut end = i + c.len_utf8();
            while let Some(&(j, d)) = it.peek() {
                if (word(c) && word(d)) || (c == ' ' && d == ' ') {
                    end = j + d.len_utf8();
                    it.next();
                } else {
                    break;
                }
            }
            v.push((i, end));
        } else {
            v.push((i, i + c.len_utf8()));
        }
    }
    v
}

fn find_vpl(dir: &std::path::Path, out: &mut Vec<std::path::PathBuf>) {
    let Ok(rd) = std::fs::read_dir(dir) else { return };
    for e in rd.flatten() {
        let p = e.path();
        if p.is_dir() {
            find_vpl(&p, out);
        } else if p.extension().map(|x| x == "vpl").unwrap_or(false) {
            out.push(p);
        }
    }
}

/// Shipped example programs (`/repo/examples/**/*.vpl`), duplicates by content dropped, ordered by
/// (line count, path): the seeds of the mutation spaces are a prefix of this list.
fn load_seeds(only: Option<usize>) -> Vec<Seed> {
    let mut paths = Vec::new();
    find_vpl(std::path::Path::new("/repo/examples"), &mut paths);
    paths.sort();
    let mut seeds: Vec<Seed> = Vec::new();
    for p in paths {
        let Ok(text) = std::fs::read_to_string(&p) else { continue };
        if seeds.iter().any(|s| s.text == text) {
            continue;
        }
        seeds.push(Seed { path: p.to_string_lossy().to_string(), text, toks: Vec::new(), cpos: Vec::new(), loops: Vec::new() });
    }
    seeds.sort_by_key(|s| (s.text.lines().count(), s.path.clone()));
    if seeds.is_empty() {
        mc::machinery_error("no example programs under /repo/examples");
    }
    // a child only needs the tables of the seed it works on
    for (i, s) in seeds.iter_mut().enumerate() {
        if only.map(|o| o == i).unwrap_or(true) {
            s.toks = tokens(&s.text);
            s.cpos = s.text.char_indices().map(|(i, _)| i).collect();
            s.cpos.push(s.text.len());
            s.loops = loop_blocks(&s.text);
        }
    }
    seeds
}

#[derive(Clone, Debug, PartialEq)]
enum SpaceId {
    Short,
    Nest,
    Token(usize),
    Byte(usize),
    Double(usize),
    /// the members of Token(seed) / Byte(seed) whose edit lies inside a top-level declaration-loop block
    LoopToken(usize),
    LoopByte(usize),
}

impl SpaceId {
    fn spec(&self) -> String {
        match self {
            SpaceId::Short => "short".into(),
            SpaceId::Nest => "nest".into(),
            SpaceId::Token(s) => format!("token:{s}"),
            SpaceId::Byte(s) => format!("byte:{s}"),
            SpaceId::Double(s) => format!("double:{s}"),
            SpaceId::LoopToken(s) => format!("ltoken:{s}"),
            SpaceId::LoopByte(s) => format!("lbyte:{s}"),
        }
    }
    fn parse(s: &str) -> SpaceId {
        let (k, n) = s.split_once(':').unwrap_or((s, "0"));
        let n: usize = n.parse().unwrap_or_else(|_| mc::machinery_error("bad space spec"));
        match k {
            "short" => SpaceId::Short,
            "nest" => SpaceId::Nest,
            "token" => SpaceId::Token(n),
            "byte" => SpaceId::Byte(n),
            "double" => SpaceId::Double(n),
            "ltoken" => SpaceId::LoopToken(n),
            "lbyte" => SpaceId::LoopByte(n),
            _ => mc::machinery_error("bad space spec"),
        }
    }
    /// signature component
    fn component(&self) -> &'static str {
        match self {
            SpaceId::Short => "short_strings",
            SpaceId::Nest => "nesting",
            SpaceId::Token(_) | SpaceId::LoopToken(_) => "token_mutation",
            SpaceId::Byte(_) | SpaceId::LoopByte(_) => "byte_mutation",
            SpaceId::Double(_) => "double_token_mutation",
        }
    }
}

struct Gen {
    tier: Tier,
    seeds: Vec<Seed>,
    short: mc::SeqSpace,
    nest: Vec<String>,
    /// per seed: the indices of Token(seed) / Byte(seed) that edit inside a declaration-loop block
    loop_token: Vec<Vec<u64>>,
    loop_byte: Vec<Vec<u64>>,
}

fn nest_inputs(tier: Tier) -> Vec<String> {
    let prefixes = ["", "let x = ", "stream S = A\n    .where(", "fn f():\n    return "];
    let brackets: [&[(&str, &str)]; 4] = [&[("(", ")")], &[("[", "]")], &[("{", "}")], &[("(", ")"), ("[", "]"), ("{", "}")]];
    let cores = ["", "1", "a"];
    let mut depths: Vec<usize> = (1..=tier.pick(26, 32)).collect();
    if tier == Tier::Thorough {
        depths.extend([64, 256, 4096, 65536]);
    }
    let mut v = Vec::new();
    // depth-major so that the shallow (cheap) inputs of every family come first
    for d in depths {
        for p in prefixes {
            for b in brackets {
                for core in cores {
                    for closers in [0usize, d / 2, d] {
                        let mut s = String::from(p);
                        for i in 0..d {
                            s.push_str(b[i % b.len()].0);
                        }
                        s.push_str(core);
                        for i in (d - closers..d).rev() {
                            s.push_str(b[i % b.len()].1);
                        }
                        s.push('\n');
                        v.push(s);
                    }
                }
            }
        }
    }
    // block nesting by indentation: d nested block headers, one more indentation unit per level
    let mut bdepths: Vec<usize> = (1..=tier.pick(24, 48)).collect();
    if tier == Tier::Thorough {
        bdepths.extend([128, 512]);
    }
    for d in bdepths {
        for header in ["if a:", "while a:", "for x in xs:"] {
            for unit in [" ", "\t", "    "] {
                for body in ["x := 1", ""] {
                    let mut s = String::new();
                    for k in 0..d {
                        s.push_str(&unit.repeat(k));
                        s.push_str(header);
                        s.push('\n');
                    }
                    if !body.is_empty() {
                        s.push_str(&unit.repeat(d));
                        s.push_str(body);
                        s.push('\n');
                    }
                    v.push(s);
                }
            }
        }
    }
    // chains of unclosed index/call brackets below the parser's nesting limit (24): k copies of a
    // unit that opens two brackets and closes none
    let ks: Vec<usize> = if tier == Tier::Thorough { (1..=12).collect() } else { vec![2, 4, 6, 10] };
    for k in ks {
        for unit in ["s[U6[2*2", "a[b(", "f(a["] {
            if tier != Tier::Thorough && k >= 10 && unit != "s[U6[2*2" {
                continue;
            }
            v.push(format!("let x = {}\n", unit.repeat(k)));
        }
    }
    // nested declaration loops: the per-loop iteration limit (10_000) does not bound the product
    for n in [30usize, 200, 3000, 10_000] {
        v.push(format!("for i in 0..{n}:\n    for j in 0..{n}:\n        stream S{{i}}_{{j}} = A\n"));
    }
    for n in [10usize, 10_000] {
        v.push(format!("for i in 0..{n}:\n    for j in 0..{n}:\n        for k in 0..{n}:\n            stream S{{i}}_{{j}}_{{k}} = A\n"));
    }
    // literal edge values: every month 00..=99 of a timestamp literal x edge days x edge years (the
    // grammar admits any digits), time-of-day/zone suffixes on edge months, and numeric / duration
    // literals around the i64 and f64 limits
    for year in ["0000", "1970", "2024", "2262", "2263", "9999"] {
        for month in 0..100 {
            for day in ["00", "01", "28", "29", "31", "32", "99"] {
                v.push(format!("let x = @{year}-{month:02}-{day}\n"));
                if matches!(month, 0 | 1 | 2 | 12 | 13) {
                    for suffix in ["T00:00:00Z", "T99:99:99+99:99", "T23:59:59-99:00"] {
                        v.push(format!("let x = @{year}-{month:02}-{day}{suffix}\n"));
                    }
                }
            }
        }
    }
    for n in ["9223372036854775807", "9223372036854775808", "18446744073709551616", "99999999999999999999999999", "0"] {
        v.push(format!("let x = {n}\n"));
        v.push(format!("let x = -{n}\n"));
        v.push(format!("let x = {n}.0\n"));
        v.push(format!("let x = {n}e999\n"));
        for unit in ["ns", "us", "ms", "s", "m", "h", "d"] {
            v.push(format!("let x = {n}{unit}\n"));
            v.push(format!("stream S = A\n    .window({n}{unit})\n"));
        }
    }
    v.dedup();
    v
}

#[derive(Clone, Copy)]
enum Edit {
    Del,
    Dup,
    Sub(&'static str),
}

fn apply_edit(text: &mut String, tok: (usize, usize), e: Edit) {
    match e {
        Edit::Del => text.replace_range(tok.0..tok.1, ""),
        Edit::Dup => {
            let t = text[tok.0..tok.1].to_string();
            text.insert_str(tok.1, &t);
        }
        Edit::Sub(s) => text.replace_range(tok.0..tok.1, s),
    }
}
fn edit_name(e: Edit) -> String {
    match e {
        Edit::Del => "delete".into(),
        Edit::Dup => "duplicate".into(),
        Edit::Sub(s) => format!("substitute {s:?} for"),
    }
}
fn edit2(k: u64) -> Edit {
    if k == 0 {
        Edit::Del
    } else {
        Edit::Dup
    }
}

/// pair index -> (a, b) with a < b < t, row-major over a
fn decode_pair(pair: u64, t: u64) -> (u64, u64) {
    let mut a = 0u64;
    let mut rest = pair;
    while rest >= t - 1 - a {
        rest -= t - 1 - a;
        a += 1;
    }
    (a, a + 1 + rest)
}

impl Gen {
    /// `need` = the one space a child works on (the tables of the other spaces are left empty);
    /// `None` = everything (parent).
    fn new(tier: Tier, need: Option<&SpaceId>) -> Gen {
        let only_seed = match need {
            Some(SpaceId::Token(s) | SpaceId::Byte(s) | SpaceId::Double(s) | SpaceId::LoopToken(s) | SpaceId::LoopByte(s)) => Some(*s),
            Some(_) => Some(usize::MAX),
            None => None,
        };
        let seeds = load_seeds(only_seed);
        let inside = |s: &Seed, a: usize, b: usize| s.loops.iter().any(|(lo, hi)| a >= *lo && b <= *hi);
        let mut loop_token = Vec::new();
        let mut loop_byte = Vec::new();
        for s in &seeds {
            if s.loops.is_empty() {
                loop_token.push(Vec::new());
                loop_byte.push(Vec::new());
                continue;
            }
            let (t, d) = (s.toks.len() as u64, DICT.len() as u64);
            let in_tok: Vec<u64> = (0..t).filter(|k| inside(s, s.toks[*k as usize].0, s.toks[*k as usize].1)).collect();
            // same layout as Token(seed): 0 = seed itself, then deletions, duplications, substitutions
            let mut v: Vec<u64> = Vec::new();
            v.extend(in_tok.iter().map(|k| 1 + k));
            v.extend(in_tok.iter().map(|k| 1 + t + k));
            for k in &in_tok {
                v.extend((0..d).map(|j| 1 + 2 * t + k * d + j));
            }
            loop_token.push(v);
            // same layout as Byte(seed): char deletions, then insertions (position-major)
            let c = (s.cpos.len() - 1) as u64;
            let a = ALPHABET.len() as u64;
            let mut v: Vec<u64> = (0..c).filter(|k| inside(s, s.cpos[*k as usize], s.cpos[*k as usize + 1])).collect();
            for k in 0..=c {
                let pos = s.cpos[k as usize];
                if s.loops.iter().any(|(lo, hi)| pos >= *lo && pos <= *hi) {
                    v.extend((0..a).map(|j| c + k * a + j));
                }
            }
            loop_byte.push(v);
        }
        let nest = if matches!(need, None | Some(SpaceId::Nest)) { nest_inputs(tier) } else { Vec::new() };
        Gen { tier, seeds, short: mc::SeqSpace::new(ALPHABET.len(), 0, tier.pick(4, 5)), nest, loop_token, loop_byte }
    }

    fn count(&self, sp: &SpaceId) -> u64 {
        match sp {
            SpaceId::Short => self.short.total(),
            SpaceId::Nest => self.nest.len() as u64,
            SpaceId::Token(s) => {
                let t = self.seeds[*s].toks.len() as u64;
                1 + 2 * t + t * DICT.len() as u64
            }
            SpaceId::Byte(s) => {
                let c = (self.seeds[*s].cpos.len() - 1) as u64;
                c + (c + 1) * ALPHABET.len() as u64
            }
            SpaceId::Double(s) => {
                let t = self.seeds[*s].toks.len() as u64;
                t * t.saturating_sub(1) / 2 * double_edits(*s) * double_edits(*s)
            }
            SpaceId::LoopToken(s) => self.loop_token[*s].len() as u64,
            SpaceId::LoopByte(s) => self.loop_byte[*s].len() as u64,
        }
    }

    /// The `i`-th input of a space and a readable description of how it was made.
    fn input(&self, sp: &SpaceId, i: u64) -> (String, String) {
        match sp {
            SpaceId::Short => {
                let mut d = Vec::new();
                self.short.decode(i, &mut d);
                (d.iter().map(|k| ALPHABET[*k]).collect(), "string over the 15-symbol alphabet".into())
            }
            SpaceId::Nest => (self.nest[i as usize].clone(), "nesting / literal-edge family".into()),
            SpaceId::LoopToken(s) => self.input(&SpaceId::Token(*s), self.loop_token[*s][i as usize]),
            SpaceId::LoopByte(s) => self.input(&SpaceId::Byte(*s), self.loop_byte[*s][i as usize]),
            SpaceId::Token(s) => {
                let seed = &self.seeds[*s];
                let t = seed.toks.len() as u64;
                let mut text = seed.text.clone();
                if i == 0 {
                    return (text, format!("{} unchanged", seed.path));
                }
                let i = i - 1;
                let (tok, e) = if i < t {
                    (i, Edit::Del)
                } else if i < 2 * t {
                    (i - t, Edit::Dup)
                } else {
                    ((i - 2 * t) / DICT.len() as u64, Edit::Sub(DICT[((i - 2 * t) % DICT.len() as u64) as usize]))
                };
                let span = seed.toks[tok as usize];
                let what = format!("{}: {} token #{tok} {:?} at byte {}", seed.path, edit_name(e), &seed.text[span.0..span.1], span.0);
                apply_edit(&mut text, span, e);
                (text, what)
            }
            SpaceId::Byte(s) => {
                let seed = &self.seeds[*s];
                let c = (seed.cpos.len() - 1) as u64;
                let mut text = seed.text.clone();
                if i < c {
                    let (a, b) = (seed.cpos[i as usize], seed.cpos[i as usize + 1]);
                    let what = format!("{}: delete char {:?} at byte {a}", seed.path, &seed.text[a..b]);
                    text.replace_range(a..b, "");
                    (text, what)
                } else {
                    let j = i - c;
                    let (pos, sym) = (seed.cpos[(j / ALPHABET.len() as u64) as usize], ALPHABET[(j % ALPHABET.len() as u64) as usize]);
                    text.insert_str(pos, sym);
                    (text, format!("{}: insert {sym:?} at byte {pos}", seed.path))
                }
            }
            SpaceId::Double(s) => {
                let seed = &self.seeds[*s];
                let t = seed.toks.len() as u64;
                let ne = double_edits(*s);
                let (pair, e) = (i / (ne * ne), i % (ne * ne));
                let (a, b) = decode_pair(pair, t);
                let (e1, e2) = (edit2(e / ne), edit2(e % ne));
                let mut text = seed.text.clone();
                // later token first so that the earlier offsets stay valid
                apply_edit(&mut text, seed.toks[b as usize], e2);
                apply_edit(&mut text, seed.toks[a as usize], e1);
                (text, format!("{}: {} token #{a} and {} token #{b}", seed.path, edit_name(e1), edit_name(e2)))
            }
        }
    }
}

// ---------------------------------------------------------------------------------------------
// The check of one input (runs in the child).

#[derive(Debug, Default)]
struct Obs {
    /// "program" | "error"
    kind: &'static str,
    nontrivial: bool,
    outcome: u64,
    micros: u64,
    /// an error position lies beyond the length of the *original* input (statistic only)
    beyond_src: bool,
    /// (shape, description)
    viols: Vec<(String, String)>,
}

/// `Some((shape, description))` when a position of `e` lies outside `t`.
fn location_outside(e: &ParseError, t: &str) -> Option<(&'static str, String)> {
    let pieces: Vec<&str> = t.split('\n').collect();
    let pos_bad = |p: usize| if p > t.len() { Some(("location_position", format!("offset {p} in a text of {} bytes", t.len()))) } else { None };
    match e {
        ParseError::Located { line, column, position, .. } => {
            if let Some(b) = pos_bad(*position) {
                return Some(b);
            }
            if *line > pieces.len() {
                return Some(("location_line", format!("line {line} in a text of {} lines", pieces.len())));
            }
            if *line >= 1 && *column > pieces[*line - 1].len() + 1 {
                return Some(("location_column", format!("column {column} on line {line} which has {} bytes", pieces[*line - 1].len())));
            }
            None
        }
        ParseError::UnexpectedToken { position, .. } | ParseError::InvalidToken { position, .. } => pos_bad(*position),
        ParseError::UnterminatedString(p) => pos_bad(*p),
        ParseError::Custom { span, .. } => {
            if span.start > span.end {
                Some(("location_position", format!("span {}..{} is reversed", span.start, span.end)))
            } else {
                pos_bad(span.end)
            }
        }
        _ => None,
    }
}

fn max_position(e: &ParseError) -> Option<usize> {
    match e {
        ParseError::Located { position, .. } | ParseError::UnexpectedToken { position, .. } | ParseError::InvalidToken { position, .. } => Some(*position),
        ParseError::UnterminatedString(p) => Some(*p),
        ParseError::Custom { span, .. } => Some(span.end),
        _ => None,
    }
}

fn eval_input(src: &str) -> Obs {
    let mut o = Obs::default();
    let before = PANICS.load(Ordering::SeqCst);
    let t0 = Instant::now();
    let r = mc::catch(|| varpulis_parser::parse(src));
    o.micros = t0.elapsed().as_micros() as u64;
    let panics = PANICS.load(Ordering::SeqCst) - before;
    let last = || LAST_PANIC.lock().unwrap_or_else(|e| e.into_inner()).clone();
    match r {
        Err(_) => {
            o.kind = "error";
            o.viols.push(("panic_escapes".into(), format!("parse() panicked at {}", last())));
            o.outcome = mc::hash_of(&"escaped panic");
            return o;
        }
        Ok(res) => {
            if panics > 0 {
                let shown = match &res {
                    Ok(_) => "Ok(program)".to_string(),
                    Err(e) => format!("Err({e})"),
                };
                o.viols.push(("panic_in_parser_thread".into(), format!("a panic at {} on the parser thread; parse() returned {shown}", last())));
            }
            match res {
                Ok(p) => {
                    o.kind = "program";
                    o.nontrivial = !p.statements.is_empty();
                    o.outcome = mc::hash_of(&format!("{:?}", p));
                }
                Err(e) => {
                    o.kind = "error";
                    o.outcome = mc::hash_of(&e.to_string());
                    o.nontrivial = max_position(&e).map(|p| p > 0).unwrap_or(false);
                    o.beyond_src = max_position(&e).map(|p| p > src.len()).unwrap_or(false);
                    // the text the parser reports against
                    let reported = mc::catch(|| varpulis_parser::expand::expand_declaration_loops(src).ok().map(|x| varpulis_parser::indent::preprocess_indentation(&x)));
                    match reported {
                        Ok(Some(t)) => {
                            if let Some((shape, d)) = location_outside(&e, &t) {
                                o.viols.push((shape.into(), format!("error `{e}` reports {d} (the text after loop expansion and indentation preprocessing; the original input has {} bytes)", src.len())));
                            }
                        }
                        // loop expansion refused the input: the error carries position 0
                        Ok(None) => {
                            if let Some((shape, d)) = location_outside(&e, src) {
                                o.viols.push((shape.into(), format!("error `{e}` reports {d}")));
                            }
                        }
                        Err(_) => {
                            if panics == 0 {
                                o.viols.push(("panic_in_preprocessing".into(), format!("expand_declaration_loops / preprocess_indentation panicked at {}", last())));
                            }
                        }
                    }
                }
            }
        }
    }
    o
}

/// Result line: `<idx>\t<kind>\t<nontrivial 0/1>\t<beyond 0/1>\t<outcome hex>\t<micros>\t<violations json>`
fn child_main(args: &Args) -> ! {
    install_hook();
    let out = std::io::stdout();
    let mut out = out.lock();
    let mode = args.extra.get(1).map(|s| s.as_str()).unwrap_or("");
    let inputs: Box<dyn Iterator<Item = (u64, String)>> = match mode {
        "range" => {
            let sp = SpaceId::parse(&args.extra[2]);
            let gen = Gen::new(args.tier, Some(&sp));
            let (lo, hi): (u64, u64) = (args.extra[3].parse().unwrap(), args.extra[4].parse().unwrap());
            Box::new((lo..hi).map(move |i| (i, gen.input(&sp, i).0)))
        }
        "file" => {
            let text = std::fs::read_to_string(&args.extra[2]).unwrap_or_else(|e| mc::machinery_error(&format!("child input file: {e}")));
            let v: Vec<String> = serde_json::from_str(&text).unwrap_or_else(|e| mc::machinery_error(&format!("child input file: {e}")));
            Box::new(v.into_iter().enumerate().map(|(i, s)| (i as u64, s)))
        }
        "selftest" => {
            // watchdog self-test of the parent: answer input 0, then hang / overflow the stack on "input 1"
            let _ = writeln!(out, "READY\n0\terror\t0\t0\t0\t1\t[]");
            let _ = out.flush();
            match args.extra.get(2).map(|s| s.as_str()) {
                Some("hang") => loop {
                    std::thread::sleep(Duration::from_secs(3600));
                },
                _ => {
                    fn dive(n: u64) -> u64 {
                        let pad = [n; 64];
                        if n == u64::MAX {
                            return 0;
                        }
                        std::hint::black_box(dive(n + 1) + pad[(n % 64) as usize])
                    }
                    let h = std::thread::Builder::new().stack_size(64 * 1024).spawn(|| dive(0)).unwrap();
                    let _ = h.join();
                    std::process::exit(0)
                }
            }
        }
        "sizes" => {
            // diagnostic: the size of every space at this tier
            let gen = Gen::new(args.tier, None);
            println!("short {}\nnest {}", gen.count(&SpaceId::Short), gen.count(&SpaceId::Nest));
            for (i, s) in gen.seeds.iter().enumerate() {
                println!("seed {i} {} lines={} tokens={} token_space={} byte_space={} double_space={} loop_token={} loop_byte={}", s.path, s.text.lines().count(), s.toks.len(), gen.count(&SpaceId::Token(i)), gen.count(&SpaceId::Byte(i)), gen.count(&SpaceId::Double(i)), gen.count(&SpaceId::LoopToken(i)), gen.count(&SpaceId::LoopByte(i)));
            }
            std::process::exit(0)
        }
        _ => mc::machinery_error("child mode must be `range`, `file` or `sizes`"),
    };
    let _ = writeln!(out, "READY");
    let _ = out.flush();
    for (i, src) in inputs {
        let o = eval_input(&src);
        if std::env::var("C41_SHOW").is_ok() {
            // diagnostic only
            eprintln!("#{i}: {:?}", varpulis_parser::parse(&src).map(|p| p.statements.len()).map_err(|e| e.to_string()));
        }
        let v: Vec<J> = o.viols.iter().map(|(s, d)| json!([s, d])).collect();
        let _ = writeln!(out, "{i}\t{}\t{}\t{}\t{:x}\t{}\t{}", o.kind, o.nontrivial as u8, o.beyond_src as u8, o.outcome, o.micros, J::Array(v));
        let _ = out.flush();
    }
    let _ = writeln!(out, "DONE");
    let _ = out.flush();
    std::process::exit(0)
}

// ---------------------------------------------------------------------------------------------
// Parent side.

enum ChildEnd {
    Done,
    /// the wall cap of the run expired; the child was stopped (not a verdict)
    Stopped,
    /// silent for longer than the budget while input `idx` was in flight
    Hang(u64),
    /// died while input `idx` was in flight
    Died(u64, String),
}

struct Line {
    idx: u64,
    kind: String,
    nontrivial: bool,
    beyond: bool,
    outcome: u64,
    micros: u64,
    viols: Vec<(String, String)>,
}

fn parse_line(l: &str) -> Option<Line> {
    let f: Vec<&str> = l.splitn(7, '\t').collect();
    if f.len() != 7 {
        return None;
    }
    let v: J = serde_json::from_str(f[6]).ok()?;
    let viols = v.as_array()?.iter().map(|p| (p[0].as_str().unwrap_or("").to_string(), p[1].as_str().unwrap_or("").to_string())).collect();
    Some(Line { idx: f[0].parse().ok()?, kind: f[1].to_string(), nontrivial: f[2] == "1", beyond: f[3] == "1", outcome: u64::from_str_radix(f[4], 16).ok()?, micros: f[5].parse().ok()?, viols })
}

/// Run one child over `child_args`, feeding every result line to `on_line`. `first` is the index of
/// the first input the child will run (result lines arrive in increasing index order).
fn run_child(tier: Tier, child_args: &[String], first: u64, stop: Option<&Deadline>, mut on_line: impl FnMut(Line)) -> ChildEnd {
    for attempt in 0..3 {
        match run_child_once(tier, child_args, first, stop, &mut on_line) {
            Some(end) => return end,
            None => eprintln!("note: child {child_args:?} did not become ready (attempt {})", attempt + 1),
        }
    }
    mc::machinery_error("a child process did not start in three attempts")
}

/// `None` = the child never reported READY (nothing was run).
fn run_child_once(tier: Tier, child_args: &[String], first: u64, stop: Option<&Deadline>, on_line: &mut impl FnMut(Line)) -> Option<ChildEnd> {
    let exe = std::env::current_exe().unwrap_or_else(|e| mc::machinery_error(&format!("current_exe: {e}")));
    let mut child = Command::new(exe)
        .arg("C41")
        .arg("--tier")
        .arg(tier.name())
        .arg("child")
        .args(child_args)
        .stdin(Stdio::null())
        .stdout(Stdio::piped())
        .stderr(Stdio::null())
        .env_remove("C41_SHOW")
        .spawn()
        .unwrap_or_else(|e| mc::machinery_error(&format!("cannot spawn child: {e}")));
    let stdout = child.stdout.take().unwrap();
    let (tx, rx) = mpsc::channel::<String>();
    let reader = std::thread::spawn(move || {
        for l in BufReader::new(stdout).lines() {
            match l {
                Ok(l) => {
                    if tx.send(l).is_err() {
                        break;
                    }
                }
                Err(_) => break,
            }
        }
    });
    let mut next = first;
    let mut ready = false;
    let end = loop {
        if stop.map(|d| d.expired()).unwrap_or(false) {
            break ChildEnd::Stopped;
        }
        let wait = if ready { BUDGET + GRACE } else { STARTUP };
        match rx.recv_timeout(wait) {
            Ok(l) if l == "READY" => ready = true,
            Ok(l) if l == "DONE" => break ChildEnd::Done,
            Ok(l) if l.starts_with("MACHINERY-ERROR") => mc::machinery_error(&format!("child: {l}")),
            Ok(l) => match parse_line(&l) {
                Some(line) => {
                    next = line.idx + 1;
                    on_line(line);
                }
                None => mc::machinery_error(&format!("unparseable child line {l:?}")),
            },
            Err(mpsc::RecvTimeoutError::Timeout) => {
                let _ = child.kill();
                if !ready {
                    let _ = child.wait();
                    return None;
                }
                break ChildEnd::Hang(next);
            }
            Err(mpsc::RecvTimeoutError::Disconnected) => {
                let status = child.wait().ok();
                let how = match status {
                    Some(s) => {
                        use std::os::unix::process::ExitStatusExt;
                        match (s.signal(), s.code()) {
                            (Some(sig), _) => format!("killed by signal {sig}{}", match sig {
                                6 => " (SIGABRT)",
                                11 => " (SIGSEGV)",
                                9 => " (SIGKILL)",
                                _ => "",
                            }),
                            (_, Some(c)) => format!("exit code {c}"),
                            _ => "unknown status".into(),
                        }
                    }
                    None => "unknown status".into(),
                };
                if !ready {
                    eprintln!("note: child died before it was ready ({how})");
                    return None;
                }
                break ChildEnd::Died(next, how);
            }
        }
    };
    let _ = child.kill();
    let _ = child.wait();
    drop(rx);
    let _ = reader.join();
    Some(end)
}

/// Attributes of the input text that narrow a signature's scope: does it contain a top-level
/// declaration-loop header, an integer literal of >= 19 digits, non-ASCII text.
fn input_tags(input: &str) -> String {
    let mut tags = Vec::new();
    if input.lines().any(|l| l.starts_with("for ") && l.contains("..") && l.trim_end().ends_with(':')) {
        tags.push("declaration_loop");
    }
    let mut run = 0;
    let mut big = false;
    for b in input.bytes() {
        run = if b.is_ascii_digit() { run + 1 } else { 0 };
        big |= run >= 19;
    }
    if big {
        tags.push("integer_of_19_digits");
    }
    if !input.is_ascii() {
        tags.push("non_ascii");
    }
    // brackets still open at the end of a line (the grammar has no multi-line brackets outside
    // blocks, so every one of them makes pest backtrack through the enclosing alternatives)
    let mut worst = 0i32;
    for l in input.lines() {
        let mut open = 0i32;
        for b in l.bytes() {
            match b {
                b'(' | b'[' | b'{' => open += 1,
                b')' | b']' | b'}' => open -= 1,
                _ => {}
            }
        }
        worst = worst.max(open);
    }
    if worst >= 12 {
        tags.push("unclosed_brackets_12_or_more");
    }
    if tags.is_empty() {
        "plain".into()
    } else {
        tags.join("+")
    }
}

fn report_viols(acc: &mut Acc, component: &str, input: &str, how: &str, viols: &[(String, String)]) {
    for (shape, d) in viols {
        let sig = format!("C41:{component}:{shape}:{}", input_tags(input));
        acc.viol.add(sig, format!("{d}; input ({how}): {}", excerpt(input)), json!({"input": input, "component": component, "made_by": how}), input.len());
    }
}

fn excerpt(s: &str) -> String {
    if s.len() <= 160 {
        format!("{s:?}")
    } else {
        let mut end = 160;
        while !s.is_char_boundary(end) {
            end -= 1;
        }
        format!("{:?}… ({} bytes)", &s[..end], s.len())
    }
}

fn absorb_line(acc: &mut Acc, component: &str, input: impl FnOnce() -> (String, String), l: &Line) {
    acc.evaluations += 1;
    if l.nontrivial {
        acc.nontrivial += 1;
    }
    acc.outcome(&l.outcome);
    acc.count(if l.kind == "program" { "inputs_parsed_to_a_program" } else { "inputs_rejected_with_an_error" }, 1);
    if l.beyond {
        acc.count("error_positions_beyond_original_input_length", 1);
    }
    SLOWEST_MICROS.fetch_max(l.micros, Ordering::Relaxed);
    // (a parse that returned but took longer than the budget is confirmed alone by the caller)
    let viols = l.viols.clone();
    if !viols.is_empty() {
        let (text, how) = input();
        report_viols(acc, component, &text, &how, &viols);
    }
}

/// Re-run one input alone in a fresh child; returns the shapes it fails with (empty = fine alone).
/// A timeout must repeat in a second solo run to count (the machine may be busy with other work).
fn confirm_alone(tier: Tier, scratch: &std::path::Path, input: &str, tag: &str) -> Vec<(String, String)> {
    let first = confirm_once(tier, scratch, input, tag);
    if first.iter().any(|(s, _)| s == "hang") {
        let second = confirm_once(tier, scratch, input, tag);
        if !second.iter().any(|(s, _)| s == "hang") {
            return second;
        }
    }
    first
}

fn confirm_once(tier: Tier, scratch: &std::path::Path, input: &str, tag: &str) -> Vec<(String, String)> {
    let path = scratch.join(format!("confirm-{tag}.json"));
    std::fs::write(&path, serde_json::to_string(&vec![input]).unwrap()).unwrap_or_else(|e| mc::machinery_error(&format!("scratch write: {e}")));
    let mut got: Vec<(String, String)> = Vec::new();
    let end = run_child(tier, &["file".into(), path.to_string_lossy().to_string()], 0, None, |l| {
        got.extend(l.viols.clone());
        if l.micros > BUDGET.as_micros() as u64 {
            got.push(("hang".into(), format!("parse took {} ms, the per-input budget is {} ms", l.micros / 1000, BUDGET.as_millis())));
        }
    });
    let _ = std::fs::remove_file(&path);
    match end {
        ChildEnd::Done | ChildEnd::Stopped => got,
        ChildEnd::Hang(_) => vec![("hang".into(), format!("no result within {} ms (run alone in a fresh process)", (BUDGET + GRACE).as_millis()))],
        ChildEnd::Died(_, how) => vec![("abort".into(), format!("the process running the parser died: {how} (run alone in a fresh process)"))],
    }
}

/// The watchdog is exercised on every run: a child that answers one input and then stays silent must
/// be seen as a hang on input 1, a child whose parser thread overflows its stack as a death on input 1.
fn watchdog_self_test(tier: Tier) -> std::thread::JoinHandle<Result<(), String>> {
    std::thread::spawn(move || {
        let mut lines = 0;
        match run_child(tier, &["selftest".into(), "hang".into()], 0, None, |_| lines += 1) {
            ChildEnd::Hang(1) if lines == 1 => {}
            _ => return Err("a silent child was not reported as a hang on the input in flight".to_string()),
        }
        match run_child(tier, &["selftest".into(), "overflow".into()], 0, None, |_| {}) {
            ChildEnd::Died(1, how) if how.contains("signal") => Ok(()),
            ChildEnd::Died(_, how) => Err(format!("stack overflow in a child reported as: {how}")),
            _ => Err("a child that overflowed its stack was not reported as dead".to_string()),
        }
    })
}

struct Shard {
    space: SpaceId,
    lo: u64,
    hi: u64,
}

/// Returns false when the wall cap stopped the shard before its last input.
fn run_shard(gen: &Gen, scratch: &std::path::Path, sh: &Shard, stop: Option<&Deadline>, acc: &mut Acc) -> bool {
    let comp = sh.space.component();
    let mut lo = sh.lo;
    while lo < sh.hi {
        acc.count("child_processes", 1);
        let mut slow: Vec<u64> = Vec::new();
        let end = run_child(gen.tier, &["range".into(), sh.space.spec(), lo.to_string(), sh.hi.to_string()], lo, stop, |l| {
            let idx = l.idx;
            if l.micros > BUDGET.as_micros() as u64 {
                slow.push(idx);
            }
            absorb_line(acc, comp, || gen.input(&sh.space, idx), &l);
        });
        // answered, but later than the budget: a hang only if it is late again when run alone
        for k in slow {
            let (text, how) = gen.input(&sh.space, k);
            let alone = confirm_alone(gen.tier, scratch, &text, &format!("{}-{k}", sh.space.spec().replace(':', "_")));
            if alone.is_empty() {
                acc.count("timeouts_not_reproduced_alone", 1);
            } else {
                report_viols(acc, comp, &text, &how, &alone);
            }
        }
        let (k, first) = match end {
            ChildEnd::Done => break,
            ChildEnd::Stopped => return false,
            ChildEnd::Hang(k) => (k, ("hang".to_string(), format!("no result within {} ms", (BUDGET + GRACE).as_millis()))),
            ChildEnd::Died(k, how) => (k, ("abort".to_string(), format!("the process running the parser died: {how}"))),
        };
        if k >= sh.hi {
            // every input was answered; the child failed on its way out — not an input's fault
            acc.count("children_failing_after_their_last_input", 1);
            break;
        }
        // the input in flight: confirm it alone in a fresh process
        let (text, how) = gen.input(&sh.space, k);
        acc.evaluations += 1;
        let alone = confirm_alone(gen.tier, scratch, &text, &format!("{}-{k}", sh.space.spec().replace(':', "_")));
        if !alone.is_empty() {
            report_viols(acc, comp, &text, &how, &alone);
        } else if first.0 == "hang" {
            // slow only under the load of the sweep: within budget when run alone
            acc.count("timeouts_not_reproduced_alone", 1);
        } else {
            acc.viol.add(
                format!("C41:{comp}:abort_not_reproducible_alone"),
                format!("{}; it died while running input #{k} of {} after inputs {lo}..{k}, but that input passes alone; input: {}", first.1, sh.space.spec(), excerpt(&text)),
                json!({"range": {"space": sh.space.spec(), "lo": lo, "hi": k + 1}, "component": comp}),
                usize::MAX / 2,
            );
        }
        lo = k + 1;
    }
    true
}

pub fn run(args: &Args) -> ! {
    if args.extra.first().map(|s| s == "child").unwrap_or(false) {
        child_main(args);
    }
    install_hook();
    self_test();
    let mut rep = Report::new(args, "exploration");
    let scratch = mc::scratch_dir("C41");

    if let Some(path) = &args.replay {
        let case = mc::load_replay(path);
        let comp = case["component"].as_str().unwrap_or("replay").to_string();
        let mut acc = Acc::default();
        if let Some(input) = case.get("input").and_then(J::as_str) {
            acc.evaluations += 1;
            let got = confirm_alone(args.tier, &scratch, input, "replay");
            println!("replayed input {}: {}", excerpt(input), if got.is_empty() { "no violation".to_string() } else { got.iter().map(|(s, _)| s.as_str()).collect::<Vec<_>>().join(", ") });
            report_viols(&mut acc, &comp, input, case["made_by"].as_str().unwrap_or("replay"), &got);
        } else if let Some(r) = case.get("range") {
            let gen = Gen::new(args.tier, None);
            let sh = Shard { space: SpaceId::parse(r["space"].as_str().unwrap_or("")), lo: r["lo"].as_u64().unwrap_or(0), hi: r["hi"].as_u64().unwrap_or(0) };
            run_shard(&gen, &scratch, &sh, None, &mut acc);
        } else {
            mc::machinery_error("replay case has neither `input` nor `range`");
        }
        rep.absorb(acc);
        let _ = std::fs::remove_dir_all(&scratch);
        rep.finish();
    }

    let watchdog = watchdog_self_test(args.tier);
    let gen = Gen::new(args.tier, None);
    let deadline = Deadline::after(Duration::from_secs(crate::cap_secs(args.tier.pick(34, 1080))));
    // seeds (ordered by size): `small` = shipped examples of <= 60 lines, `medium` = 61..=175 lines
    let lines_of = |i: usize| gen.seeds[i].text.lines().count();
    let small: Vec<usize> = (0..gen.seeds.len()).filter(|i| lines_of(*i) <= 60).collect();
    let medium: Vec<usize> = (0..gen.seeds.len()).filter(|i| lines_of(*i) > 60 && lines_of(*i) <= 175).collect();
    // quick: token edits on the two smallest seeds, char edits on the smallest; thorough: both on all small seeds
    let token_seeds: Vec<usize> = if args.tier == Tier::Quick { small.iter().copied().take(2).collect() } else { small.clone() };
    let byte_seeds: Vec<usize> = if args.tier == Tier::Quick { small.iter().copied().take(1).collect() } else { small.clone() };
    // order = priority when the wall cap cuts the run short: cheap and structurally special spaces first
    let mut spaces: Vec<(SpaceId, u64)> = Vec::new();
    // of the smallest seed with a top-level declaration loop: the edits inside its loop blocks (the only
    // inputs that exercise expand.rs). Quick runs only these edits of that seed; thorough runs them first
    // and later all edits of the seed, which contain them.
    let loop_seed: Option<usize> = small.iter().copied().find(|s| !gen.seeds[*s].loops.is_empty());
    if let Some(s) = loop_seed {
        spaces.push((SpaceId::LoopToken(s), 500));
        spaces.push((SpaceId::LoopByte(s), 500));
    }
    spaces.push((SpaceId::Nest, 48));
    spaces.push((SpaceId::Short, 2000));
    for &s in &token_seeds {
        spaces.push((SpaceId::Token(s), 1000));
    }
    for &s in &byte_seeds {
        spaces.push((SpaceId::Byte(s), 1000));
    }
    if args.tier == Tier::Thorough {
        for &s in &medium {
            spaces.push((SpaceId::Token(s), 400));
        }
        for &s in small.iter().take(3) {
            spaces.push((SpaceId::Double(s), 4000));
        }
    }
    let mut shards: Vec<Shard> = Vec::new();
    let mut sizes = serde_json::Map::new();
    for (sp, chunk) in &spaces {
        let n = gen.count(sp);
        let label = match sp {
            SpaceId::Token(s) | SpaceId::Byte(s) | SpaceId::Double(s) => format!("{} of {}", sp.component(), gen.seeds[*s].path),
            SpaceId::LoopToken(s) | SpaceId::LoopByte(s) => format!("{} inside the declaration-loop blocks of {}", sp.component(), gen.seeds[*s].path),
            _ => sp.component().to_string(),
        };
        sizes.insert(label, json!(n));
        let mut lo = 0;
        while lo < n {
            let hi = (lo + chunk).min(n);
            shards.push(Shard { space: sp.clone(), lo, hi });
            lo = hi;
        }
    }
    let total: u64 = spaces.iter().map(|(sp, _)| gen.count(sp)).sum();
    let (acc, done) = mc::par_items(&shards, args.threads, |sh, acc| {
        if deadline.expired() {
            return false;
        }
        run_shard(&gen, &scratch, sh, Some(&deadline), acc)
    });
    if !done {
        rep.cap_hit(&format!("wall cap: {} of {total} inputs were run", acc.evaluations));
    }
    rep.set("slowest_parse_micros", json!(SLOWEST_MICROS.load(Ordering::Relaxed)));
    let _ = std::fs::remove_dir_all(&scratch);
    match watchdog.join() {
        Ok(Ok(())) => rep.set("watchdog_self_test", json!("passed: a silent child is killed after the budget and blamed on the input in flight; a child dying of a stack overflow is blamed on the input in flight")),
        Ok(Err(e)) => mc::machinery_error(&format!("watchdog self-test failed: {e}")),
        Err(_) => mc::machinery_error("watchdog self-test panicked"),
    }
    rep.sample(json!({"space": "short_strings", "input": gen.input(&SpaceId::Short, 30000).0}));
    rep.sample(json!({"space": "token_mutation", "made_by": gen.input(&SpaceId::Token(small[0]), 777).1}));
    rep.sample(json!({"space": "byte_mutation", "made_by": gen.input(&SpaceId::Byte(small[0]), 1500).1}));
    rep.sample(json!({"space": "nesting", "input": gen.nest[gen.nest.len() / 2]}));
    rep.set("inputs_per_space", J::Object(sizes));
    rep.set("inputs_total", json!(total));
    rep.set("seeds", json!(gen.seeds.iter().map(|s| json!({"path": s.path, "lines": s.text.lines().count(), "tokens": s.toks.len(), "bytes": s.text.len()})).collect::<Vec<_>>()));
    rep.set("per_input_budget_ms", json!(BUDGET.as_millis() as u64));
    rep.absorb(acc);
    let seed_names = |v: &[usize]| v.iter().map(|i| gen.seeds[*i].path.trim_start_matches("/repo/").to_string()).collect::<Vec<_>>().join(", ");
    rep.rule = format!(
        "Exhaustive, every input run by the real varpulis_parser::parse in a child process with a {} ms budget per input: (a) all strings of length <= {} over the alphabet {:?}; (b) for each seed in [{}] (shipped example programs, examples/**/*.vpl, exact duplicates dropped, smallest first): the program itself, every single-token deletion, duplication and substitution by each of the 40 dictionary tokens {:?} (tokens = identifier/number runs, runs of spaces, every other char); for each seed in [{}]: every single-char deletion and every insertion of one alphabet symbol at every char boundary{}; (c) bracket nesting: prefixes {{none, assignment, stream .where(, fn body}} x brackets {{(, [, {{, mixed}} x depth 1..={} x core {{none, 1, a}} x closers {{0, d/2, d}}, and block nesting by indentation: {{if, while, for}} headers nested 1..={} deep x unit {{space, tab, 4 spaces}} x {{with, without}} innermost statement{}; unclosed bracket chains: `let x = ` + k copies of a unit opening two brackets and closing none, units {{s[U6[2*2, a[b(, f(a[}}, k in {} (at most 24 open brackets, the parser's own nesting limit); nested declaration loops n x n for n in {{30, 200, 3000, 10000}} and n x n x n for n in {{10, 10000}}; literal edges: timestamp literals @Y-M-D for years {{0000,1970,2024,2262,2263,9999}} x every month 00..=99 x days {{00,01,28,29,31,32,99}} (plus 3 time/zone suffixes on months 00,01,02,12,13) and integer/float/duration literals around the i64/u64/f64 limits with every duration unit. Non-trivial = the parser returned a program with at least one statement, or an error located after offset 0.",
        BUDGET.as_millis(),
        gen.short.max_len,
        ALPHABET,
        seed_names(&token_seeds),
        DICT,
        seed_names(&byte_seeds),
        match loop_seed {
            Some(s) => format!("; of {}, the smallest example with top-level declaration loops, all of those token and char edits that fall inside its declaration-loop blocks (header lines and bodies){}", seed_names(&[s]), args.tier.pick("", " — run first, and contained again in the full edit spaces of that seed")),
            _ => String::new(),
        },
        args.tier.pick(26, 32),
        args.tier.pick(24, 48),
        if args.tier == Tier::Thorough {
            format!(
                " (plus bracket depths 64, 256, 4096, 65536 and block depths 128, 512); (d) the single-token edits of (b) on the examples of 61..=175 lines [{}]; (e) double token edits: on {} every pair of edits from {{delete, duplicate}} at two different tokens, on [{}] every pair of token deletions",
                seed_names(&medium),
                seed_names(&small[..1]),
                seed_names(&small[1..small.len().min(3)])
            )
        } else {
            String::new()
        },
        args.tier.pick("{2,4,6} and, for the first unit, 10", "1..=12")
    );
    rep.assume("error positions are checked against the text the parser reports against — the input after expand_declaration_loops and preprocess_indentation (both public, re-run by the harness) — as fixed in DESIGN §3 C41; `error_positions_beyond_original_input_length` counts errors whose offset exceeds the length of the original input (not judged)");
    rep.assume("only upper bounds are demanded of a location (line <= lines, column <= bytes of that line + 1, offset <= length); the parser's `line 0, column 0, offset 0` for errors without a location is accepted");
    rep.assume("a panic on the parser's own thread counts as a panic even though parse() converts it into an Err (\"Parser stack overflow…\"); it is reported under its own signature");
    rep.assume("a timeout is reported only if the input exceeds the budget again when run alone in a fresh process (the sweep keeps all cores busy)");
    rep.assume("byte-level edits keep the input valid UTF-8 (parse takes &str): multi-byte chars are deleted whole and insertions happen at char boundaries");
    rep.finish()
}

fn self_test() {
    assert_eq!(tokens("ab_1  (é\n"), vec![(0, 4), (4, 6), (6, 7), (7, 9), (9, 10)]);
    let mut s = String::from("stream X = Y");
    apply_edit(&mut s, (7, 8), Edit::Dup);
    assert_eq!(s, "stream XX = Y");
    apply_edit(&mut s, (0, 6), Edit::Sub("é"));
    assert_eq!(s, "é XX = Y");
    apply_edit(&mut s, (0, 2), Edit::Del);
    assert_eq!(s, " XX = Y");
    // location oracle on hand-made errors against the text "ab\ncd" (2 lines, 5 bytes)
    let t = "ab\ncd";
    let loc = |line, column, position| ParseError::Located { line, column, position, message: String::new(), hint: None };
    assert!(location_outside(&loc(2, 3, 5), t).is_none());
    assert!(location_outside(&loc(0, 0, 0), t).is_none());
    assert_eq!(location_outside(&loc(3, 1, 5), t).unwrap().0, "location_line");
    assert_eq!(location_outside(&loc(2, 4, 5), t).unwrap().0, "location_column");
    assert_eq!(location_outside(&loc(1, 1, 6), t).unwrap().0, "location_position");
    assert_eq!(location_outside(&ParseError::InvalidToken { position: 6, message: String::new() }, t).unwrap().0, "location_position");
    assert!(location_outside(&ParseError::UnexpectedEof, t).is_none());
    assert_eq!(loop_blocks("a\nfor i in 0..2:\n  b\n\n  c\n\nd\nfor j in 1..=2:\n\te\n"), vec![(2, 26), (29, 48)]);
    assert_eq!(input_tags("stream A = B\n"), "plain");
    assert_eq!(input_tags("for i in 0..2:\n    context c{i}\n# é\n"), "declaration_loop+non_ascii");
    assert_eq!(input_tags("x := 9223372036854775807\n"), "integer_of_19_digits");
    // double-edit pair decoding covers exactly the pairs a < b
    let pairs: Vec<(u64, u64)> = (0..6).map(|p| decode_pair(p, 4)).collect();
    assert_eq!(pairs, vec![(0, 1), (0, 2), (0, 3), (1, 2), (1, 3), (2, 3)]);
    let n = nest_inputs(Tier::Quick);
    assert!(n.iter().any(|s| s == "((1))\n") && n.iter().any(|s| s == "let x = [[\n") && n.iter().any(|s| s == "if a:\n\tif a:\n\t\tx := 1\n"));
}
