//! C42 — a top-level `for i in a..b:` block parses to the same program as its hand-written copies.
//!
//! The loop program is kept as a small tree (`Node`); the reference "hand-written copies" are
//! produced from the tree by structural recursion with an environment (no line scanning, no
//! indentation arithmetic — nothing in common with expand.rs), rendered at indent 0 and parsed with
//! the real parser; the loop program is rendered with real indentation and parsed with the real
//! parser. The two ASTs must be equal once spans are erased.

use mc::{Acc, Args, Deadline, Report, Tier};
use serde_json::{json, Value as J};
use std::time::Duration;

#[derive(Clone, Debug)]
enum Bound {
    Lit(i64),
    /// the value of an enclosing loop variable (written `{var}` in the header)
    Var(&'static str),
}

#[derive(Clone, Debug)]
enum Node {
    /// a source line relative to its block (may start with its own continuation indentation)
    Line(String),
    Blank,
    Loop { var: &'static str, start: Bound, end: Bound, inclusive: bool, body: Vec<Node> },
}

fn bound_text(b: &Bound) -> String {
    match b {
        Bound::Lit(v) => v.to_string(),
        Bound::Var(v) => format!("{{{v}}}"),
    }
}

/// The loop program as the user writes it: every nesting level indented by one `unit`.
fn render_looped(nodes: &[Node], unit: &str, depth: usize, out: &mut String) {
    for n in nodes {
        match n {
            Node::Blank => out.push('\n'),
            Node::Line(l) => {
                for _ in 0..depth {
                    out.push_str(unit);
                }
                out.push_str(l);
                out.push('\n');
            }
            Node::Loop { var, start, end, inclusive, body } => {
                for _ in 0..depth {
                    out.push_str(unit);
                }
                out.push_str(&format!("for {var} in {}{}{}:\n", bound_text(start), if *inclusive { "..=" } else { ".." }, bound_text(end)));
                render_looped(body, unit, depth + 1, out);
            }
        }
    }
}

/// Reference: the copies written by hand, in order, placeholders replaced by the loop values.
/// `{from}` -> `{to}` in every line of a body (used to build same-variable nested loops).
fn rename_placeholder(nodes: &[Node], from: &str, to: &str) -> Vec<Node> {
    nodes
        .iter()
        .map(|n| match n {
            Node::Line(l) => Node::Line(l.replace(&format!("{{{from}}}"), &format!("{{{to}}}"))),
            Node::Loop { var, start, end, inclusive, body } => Node::Loop { var, start: start.clone(), end: end.clone(), inclusive: *inclusive, body: rename_placeholder(body, from, to) },
            Node::Blank => Node::Blank,
        })
        .collect()
}

fn hand_expand(nodes: &[Node], env: &mut Vec<(&'static str, i64)>, out: &mut String) {
    for n in nodes {
        match n {
            Node::Blank => out.push('\n'),
            Node::Line(l) => {
                let mut s = l.clone();
                for (var, val) in env.iter() {
                    s = s.replace(&format!("{{{var}}}"), &val.to_string());
                }
                out.push_str(&s);
                out.push('\n');
            }
            Node::Loop { var, start, end, inclusive, body } => {
                let eval = |b: &Bound, env: &Vec<(&'static str, i64)>| match b {
                    Bound::Lit(v) => *v,
                    Bound::Var(name) => env.iter().find(|(n, _)| n == name).map(|(_, v)| *v).expect("bound variable in scope"),
                };
                let (a, b) = (eval(start, env), eval(end, env));
                let mut v = a;
                while if *inclusive { v <= b } else { v < b } {
                    env.push((var, v));
                    hand_expand(body, env, out);
                    env.pop();
                    v += 1;
                }
            }
        }
    }
}

/// Debug form of the parsed program with every `Span { start: N, end: M }` erased.
fn erase_spans(s: &str) -> String {
    let mut out = String::with_capacity(s.len());
    let mut rest = s;
    const PAT: &str = "Span { start: ";
    while let Some(p) = rest.find(PAT) {
        out.push_str(&rest[..p]);
        let after = &rest[p + PAT.len()..];
        let d1 = after.bytes().take_while(|b| b.is_ascii_digit()).count();
        let mid = &after[d1..];
        if d1 > 0 && mid.starts_with(", end: ") {
            let after2 = &mid[", end: ".len()..];
            let d2 = after2.bytes().take_while(|b| b.is_ascii_digit()).count();
            if d2 > 0 && after2[d2..].starts_with(" }") {
                out.push_str("Span");
                rest = &after2[d2 + 2..];
                continue;
            }
        }
        out.push_str(PAT);
        rest = after;
    }
    out.push_str(rest);
    out
}

fn ast(src: &str) -> Result<(String, usize), String> {
    match mc::catch(|| varpulis_parser::parse(src)) {
        Err(p) => Err(format!("PANIC {p}")),
        Ok(Err(e)) => Err(e.to_string()),
        Ok(Ok(p)) => Ok((erase_spans(&format!("{:?}", p)), p.statements.len())),
    }
}

// ---------------------------------------------------------------------------------------------
// The grammar of bodies.

fn lines(ls: &[&str]) -> Vec<Node> {
    ls.iter().map(|l| Node::Line(l.to_string())).collect()
}

/// Single-variable declarations (placeholder `{i}` in names, literals, expressions, comments).
fn decls_single() -> Vec<(&'static str, Vec<Node>)> {
    vec![
        ("context", lines(&["context c{i}"])),
        ("stream_name_expr", lines(&["stream S{i} = E{i}", "    .where(v > {i})", "    .emit(id: id, n: {i})"])),
        ("stream_expr", lines(&["stream T = A", "    .where(v == {i} * 2 + 1)", "    .emit(x: v + {i})"])),
        ("stream_literal", lines(&["stream N = A", "    .emit(s: \"lit{i}\", n: 0 - {i})"])),
        ("comment_stream", lines(&["# copy {i}", "stream C{i} = A", "    .emit(a: 1)"])),
        ("stream_no_placeholder", lines(&["stream P = A", "    .emit(k: \"x\")"])),
    ]
}

/// Two-variable declarations for nested loops (`{r}` outer, `{c}` inner).
fn decls_nested() -> Vec<(&'static str, Vec<Node>, Vec<Node>, Vec<Node>)> {
    // (name, lines before the inner loop, inner body, lines after the inner loop)
    vec![
        ("context", vec![], lines(&["context k{r}x{c}"]), vec![]),
        ("stream_both", vec![], lines(&["stream S{r}_{c} = A", "    .where(v > {c})", "    .emit(r: {r}, c: {c})"]), vec![]),
        ("stream_literal", vec![], lines(&["stream N = A", "    .emit(s: \"r{r}c{c}\", d: {r} - {c})"]), vec![]),
        ("outer_decl_before", lines(&["stream O = A", "    .emit(o: {r})"]), lines(&["stream I = A", "    .emit(r: {r}, c: {c})"]), vec![]),
        ("outer_decl_after", vec![], lines(&["stream I = A", "    .emit(r: {r}, c: {c})"]), lines(&["stream O = A", "    .emit(o: {r})"])),
    ]
}

const UNITS: [(&str, &str); 3] = [("spaces4", "    "), ("spaces2", "  "), ("tab", "\t")];

struct Case {
    /// attributes (signature + readable description)
    nest: &'static str,
    /// signature part: `exclusive` / `inclusive`, with `_empty` when the (outer) range is empty
    sig_range: String,
    range: String,
    body: String,
    indent: &'static str,
    context: &'static str,
    program: Vec<Node>,
    unit: &'static str,
}

fn len_class(len: i64) -> &'static str {
    match len {
        0 => "empty",
        1 => "one",
        _ => "many",
    }
}

fn pre() -> Vec<Node> {
    lines(&["stream Pre = A", "    .emit(p: 1)"])
}
fn post() -> Vec<Node> {
    lines(&["stream Post = A", "    .emit(z: 1)"])
}

fn wrap(ctx: &str, the_loop: Node, second: Option<Node>) -> Vec<Node> {
    let mut v = Vec::new();
    match ctx {
        "alone" => v.push(the_loop),
        "after_stmt" => {
            v.extend(pre());
            v.push(Node::Blank);
            v.push(the_loop);
        }
        "before_stmt" => {
            v.push(the_loop);
            v.extend(post());
        }
        "before_stmt_blank" => {
            v.push(the_loop);
            v.push(Node::Blank);
            v.extend(post());
        }
        "between_stmts" => {
            v.extend(pre());
            v.push(the_loop);
            v.push(Node::Blank);
            v.extend(post());
        }
        "before_second_loop" => {
            v.push(the_loop);
            v.push(second.expect("second loop"));
            v.extend(post());
        }
        _ => unreachable!(),
    }
    v
}

fn build_cases(tier: Tier) -> Vec<Case> {
    let mut cases = Vec::new();
    let singles = decls_single();
    // bodies: one declaration, or two (with / without a blank line between them)
    let mut bodies: Vec<(String, Vec<Node>)> = singles.iter().map(|(n, b)| (n.to_string(), b.clone())).collect();
    for (i1, (n1, b1)) in singles.iter().enumerate() {
        for (i2, (n2, b2)) in singles.iter().enumerate() {
            for blank in [false, true] {
                // quick: each declaration followed by the next one, blank line on alternate pairs
                if tier == Tier::Quick && !(i2 == (i1 + 1) % singles.len() && blank == (i1 % 2 == 0)) {
                    continue;
                }
                let mut b = b1.clone();
                if blank {
                    b.push(Node::Blank);
                }
                b.extend(b2.clone());
                bodies.push((format!("{n1}+{n2}{}", if blank { "+blank" } else { "" }), b));
            }
        }
    }
    let starts: &[i64] = tier.pick(&[-2, 0, 3], &[-7, -2, -1, 0, 1, 3, 10]);
    let contexts: &[&'static str] = tier.pick(&["alone", "after_stmt", "before_stmt_blank", "before_second_loop"], &["alone", "after_stmt", "before_stmt", "before_stmt_blank", "between_stmts", "before_second_loop"]);
    for (bname, body) in &bodies {
        for &start in starts {
            for len in 0..=6i64 {
                for inclusive in [false, true] {
                    for (uname, unit) in UNITS {
                        for &ctx in contexts {
                            let end = if inclusive { start + len - 1 } else { start + len };
                            let the_loop = Node::Loop { var: "i", start: Bound::Lit(start), end: Bound::Lit(end), inclusive, body: body.clone() };
                            let second = Node::Loop { var: "j", start: Bound::Lit(0), end: Bound::Lit(2), inclusive: false, body: lines(&["context second{j}"]) };
                            cases.push(Case {
                                nest: "single",
                                sig_range: format!("{}{}", if inclusive { "inclusive" } else { "exclusive" }, if len == 0 { "_empty" } else { "" }),
                                range: format!("{}_{}{}", if inclusive { "inclusive" } else { "exclusive" }, len_class(len), if start < 0 { "_negative_start" } else { "" }),
                                body: bname.clone(),
                                indent: uname,
                                context: ctx,
                                program: wrap(ctx, the_loop, Some(second)),
                                unit,
                            });
                        }
                    }
                }
            }
        }
    }
    // nested, depth 2
    let max_len: i64 = tier.pick(3, 6);
    let outer_starts: &[i64] = tier.pick(&[0, -1], &[0, 1, -1]);
    #[derive(Clone)]
    enum Inner {
        Lit(i64, i64, bool),
        Dep(&'static str, Bound, Bound, bool),
    }
    let mut inners: Vec<Inner> = Vec::new();
    for s in [0i64, 2] {
        for len in 0..=max_len {
            for inc in [false, true] {
                // quick: from start 2 only the length-2 ranges
                if tier == Tier::Quick && s == 2 && len != 2 {
                    continue;
                }
                inners.push(Inner::Lit(s, len, inc));
            }
        }
    }
    inners.push(Inner::Dep("0_to_outer", Bound::Lit(0), Bound::Var("r"), false));
    inners.push(Inner::Dep("0_through_outer", Bound::Lit(0), Bound::Var("r"), true));
    inners.push(Inner::Dep("outer_to_3", Bound::Var("r"), Bound::Lit(3), false));
    inners.push(Inner::Dep("outer_through_outer", Bound::Var("r"), Bound::Var("r"), true));
    for (bname, before, inner_body, after) in decls_nested() {
        for &os in outer_starts {
            for olen in 0..=max_len {
                for oinc in [false, true] {
                    for inner in &inners {
                        for (uname, unit) in UNITS {
                            for &ctx in tier.pick(&["before_stmt"][..], &["alone", "before_stmt"][..]) {
                                let oend = if oinc { os + olen - 1 } else { os + olen };
                                let (nest, istart, iend, iinc, idesc) = match inner {
                                    Inner::Lit(s, len, inc) => ("nested", Bound::Lit(*s), Bound::Lit(if *inc { s + len - 1 } else { s + len }), *inc, format!("inner_{}_{}", if *inc { "inclusive" } else { "exclusive" }, len_class(*len))),
                                    Inner::Dep(name, a, b, inc) => ("nested_dependent", a.clone(), b.clone(), *inc, format!("inner_{name}")),
                                };
                                // inner loop variable: its own name, or (literal inner bounds only) the SAME name
                                // as the outer loop: the outer substitution then also rewrites the inner
                                // body's placeholders (added after seeded change C42: inner-first expansion)
                                for ivar in if matches!(inner, Inner::Lit(..)) { &["c", "r"][..] } else { &["c"][..] } {
                                let inner_body_v: Vec<Node> = if *ivar == "r" { rename_placeholder(&inner_body, "c", "r") } else { inner_body.clone() };
                                let nest = if *ivar == "r" { "nested_same_variable" } else { nest };
                                let mut obody = before.clone();
                                obody.push(Node::Loop { var: ivar, start: istart.clone(), end: iend.clone(), inclusive: iinc, body: inner_body_v });
                                obody.extend(after.clone());
                                let the_loop = Node::Loop { var: "r", start: Bound::Lit(os), end: Bound::Lit(oend), inclusive: oinc, body: obody };
                                cases.push(Case {
                                    nest,
                                    sig_range: format!("{}{}", if oinc { "inclusive" } else { "exclusive" }, if olen == 0 { "_empty" } else { "" }),
                                    range: format!("outer_{}_{}{}:{idesc}", if oinc { "inclusive" } else { "exclusive" }, len_class(olen), if os < 0 { "_negative_start" } else { "" }),
                                    body: bname.to_string(),
                                    indent: uname,
                                    context: ctx,
                                    program: wrap(ctx, the_loop, None),
                                    unit,
                                });
                                }
                            }
                        }
                    }
                }
            }
        }
    }
    // Interleave the classes (single / nested / nested_dependent / nested_same_variable) round-robin,
    // so that a run cut short by the wall cap has still sampled every class evenly.
    let mut groups: std::collections::BTreeMap<&'static str, std::collections::VecDeque<Case>> = Default::default();
    for c in cases {
        groups.entry(c.nest).or_default().push_back(c);
    }
    let mut out = Vec::new();
    loop {
        let mut any = false;
        for q in groups.values_mut() {
            if let Some(c) = q.pop_front() {
                out.push(c);
                any = true;
            }
        }
        if !any {
            break;
        }
    }
    out
}

fn compare(looped: &str, hand: &str) -> (Option<String>, bool, u64) {
    let (a, b) = (ast(looped), ast(hand));
    let h = mc::hash_of(&(&a, &b));
    match (&a, &b) {
        (Ok((x, n)), Ok((y, m))) => {
            if x == y {
                (None, *n > 0, h)
            } else {
                (Some(format!("the loop program parses to {n} statement(s), the hand-written copies to {m} statement(s), and the two programs differ")), true, h)
            }
        }
        (Err(e), Ok((_, m))) => (Some(format!("the hand-written copies parse to {m} statement(s) but the loop program is rejected: {e}")), true, h),
        (Ok((_, n)), Err(e)) => (Some(format!("the loop program parses to {n} statement(s) but the hand-written copies are rejected: {e}")), true, h),
        // the copies are not a program: the property says nothing (e.g. `stream S-1 = …`)
        (Err(_), Err(_)) => (None, false, h),
    }
}

fn check(c: &Case, acc: &mut Acc) {
    let mut looped = String::new();
    render_looped(&c.program, c.unit, 0, &mut looped);
    let mut hand = String::new();
    hand_expand(&c.program, &mut Vec::new(), &mut hand);
    // does any loop of the program generate a copy? (reference expansion of the loops alone)
    let loops_only: Vec<Node> = c.program.iter().filter(|n| matches!(n, Node::Loop { .. })).cloned().collect();
    let mut generated = String::new();
    hand_expand(&loops_only, &mut Vec::new(), &mut generated);
    let copies = generated.lines().any(|l| !l.trim().is_empty());
    acc.evaluations += 1;
    let (bad, both_ok, h) = compare(&looped, &hand);
    acc.outcome(&h);
    if both_ok && copies {
        acc.nontrivial += 1;
    }
    if !both_ok && bad.is_none() {
        acc.count("cases_where_the_copies_do_not_parse_either", 1);
    }
    if let Some(desc) = bad {
        // scope = nesting kind + range operator of the (outer) loop + "empty" when it generates nothing;
        // body, indentation and surrounding statements are in the description and the case
        let sig = format!("C42:{}:{}", c.nest, c.sig_range);
        LAST_VIOLATION.with(|l| {
            *l.borrow_mut() = Some((
                sig.clone(),
                format!("{desc}; loop program {looped:?} vs copies {hand:?}"),
                json!({"signature": sig, "loop_src": looped, "hand_src": hand, "body": c.body, "context": c.context, "range": c.range, "indent": c.indent}),
                looped.len() + hand.len(),
            ))
        });
        acc.viol.add(
            sig.clone(),
            format!("{desc}; loop program {looped:?} vs copies {hand:?}"),
            json!({"signature": sig, "loop_src": looped, "hand_src": hand, "body": c.body, "context": c.context, "range": c.range, "indent": c.indent}),
            looped.len() + hand.len(),
        );
    }
}

/// Child: check the cases `lo..hi`, print one JSON line per violation (the first 20 of a signature in
/// full, the others as a bare count) and a final summary line.
fn child_main(args: &Args) -> ! {
    mc::quiet_panics();
    let (lo, hi): (usize, usize) = (args.extra[1].parse().unwrap_or(0), args.extra[2].parse().unwrap_or(0));
    let cases = build_cases(args.tier);
    let mut per_sig: std::collections::BTreeMap<String, u64> = Default::default();
    let mut summary = Acc::default();
    for c in cases.iter().take(hi).skip(lo) {
        let mut acc = Acc::default();
        check(c, &mut acc);
        summary.evaluations += acc.evaluations;
        summary.nontrivial += acc.nontrivial;
        for (k, v) in &acc.counts {
            summary.count(k, *v);
        }
        summary.outcomes.extend(acc.outcomes.iter().copied());
        if let Some(v) = LAST_VIOLATION.with(|l| l.borrow_mut().take()) {
            let k = per_sig.entry(v.0.clone()).or_insert(0);
            *k += 1;
            if *k <= 20 {
                println!("{}", json!({"sig": v.0, "desc": v.1, "case": v.2, "size": v.3}));
            } else {
                println!("{}", json!({"sig": v.0}));
            }
        }
    }
    println!("{}", json!({"done": true, "evaluations": summary.evaluations, "nontrivial": summary.nontrivial, "counts": summary.counts, "outcomes": summary.outcomes.iter().collect::<Vec<_>>()}));
    std::process::exit(0)
}

thread_local! {
    /// the violation `check` reported last (child side; `Violations` cannot be iterated)
    static LAST_VIOLATION: std::cell::RefCell<Option<(String, String, J, usize)>> = const { std::cell::RefCell::new(None) };
}

/// Parent: run one child over `lo..hi` and merge what it prints into `acc`.
fn run_child(tier: Tier, lo: u64, hi: u64, acc: &mut Acc) {
    let exe = std::env::current_exe().unwrap_or_else(|e| mc::machinery_error(&format!("current_exe: {e}")));
    let out = std::process::Command::new(exe)
        .args(["C42", "--tier", tier.name(), "child", &lo.to_string(), &hi.to_string()])
        .stdin(std::process::Stdio::null())
        .stderr(std::process::Stdio::null())
        .output()
        .unwrap_or_else(|e| mc::machinery_error(&format!("cannot run child: {e}")));
    let text = String::from_utf8_lossy(&out.stdout);
    let mut finished = false;
    for line in text.lines() {
        let v: J = serde_json::from_str(line).unwrap_or_else(|e| mc::machinery_error(&format!("unparseable child line {line:?}: {e}")));
        if v["done"].as_bool() == Some(true) {
            finished = true;
            acc.evaluations += v["evaluations"].as_u64().unwrap_or(0);
            acc.nontrivial += v["nontrivial"].as_u64().unwrap_or(0);
            if let Some(m) = v["counts"].as_object() {
                for (k, n) in m {
                    acc.count(k, n.as_u64().unwrap_or(0));
                }
            }
            if let Some(a) = v["outcomes"].as_array() {
                acc.outcomes.extend(a.iter().filter_map(|h| h.as_u64()));
            }
        } else if let Some(sig) = v["sig"].as_str() {
            match v.get("case") {
                Some(case) => acc.viol.add(sig, v["desc"].as_str().unwrap_or(""), case.clone(), v["size"].as_u64().unwrap_or(0) as usize),
                // counted only: never replaces a recorded case
                None => acc.viol.add(sig, "(further case of this signature)", J::Null, usize::MAX),
            }
        }
    }
    if !finished || !out.status.success() {
        mc::machinery_error(&format!("child for cases {lo}..{hi} did not finish ({})", out.status));
    }
}

pub fn run(args: &Args) -> ! {
    if args.extra.first().map(|s| s == "child").unwrap_or(false) {
        child_main(args);
    }
    mc::quiet_panics();
    self_test();
    let mut rep = Report::new(args, "exploration");
    if let Some(path) = &args.replay {
        let case = mc::load_replay(path);
        let (looped, hand) = (case["loop_src"].as_str().unwrap_or("").to_string(), case["hand_src"].as_str().unwrap_or("").to_string());
        let mut acc = Acc::default();
        acc.evaluations += 1;
        let (bad, _, _) = compare(&looped, &hand);
        println!("replayed loop program {looped:?} against copies {hand:?}: {}", bad.clone().unwrap_or_else(|| "same program".into()));
        if let Some(desc) = bad {
            let sig = case["signature"].as_str().unwrap_or("C42:replay").to_string();
            acc.viol.add(sig, desc, case.clone(), 0);
        }
        rep.absorb(acc);
        rep.finish();
    }
    let deadline = Deadline::after(Duration::from_secs(crate::cap_secs(args.tier.pick(33, 1000))));
    let cases = build_cases(args.tier);
    // `parse` starts a thread per call; many threads doing that inside one process serialise on the
    // process's address space, so the sweep is spread over single-threaded child processes instead
    // (`<exe> C42 --tier T child <lo> <hi>`), each of which checks a contiguous slice of the cases.
    let n = cases.len() as u64;
    let chunk = (n / (args.threads as u64 * 3)).clamp(64, 3000);
    let n_chunks = n.div_ceil(chunk);
    let (mut acc, done) = mc::par_indices(n_chunks, args.threads, 1, |ci, acc| {
        if deadline.expired() {
            return false;
        }
        let (lo, hi) = (ci * chunk, ((ci + 1) * chunk).min(n));
        run_child(args.tier, lo, hi, acc);
        true
    });
    if !done {
        rep.cap_hit(&format!("wall cap: {} of {n} cases were checked", acc.evaluations));
    }
    for pick in [40usize, cases.len() - 1] {
        let c = &cases[pick.min(cases.len() - 1)];
        let (mut l, mut h) = (String::new(), String::new());
        render_looped(&c.program, c.unit, 0, &mut l);
        hand_expand(&c.program, &mut Vec::new(), &mut h);
        acc.samples.push(json!({"loop_program": l, "hand_written_copies": h}));
    }
    rep.set("cases_single_level", json!(cases.iter().filter(|c| c.nest == "single").count()));
    rep.set("cases_nested", json!(cases.iter().filter(|c| c.nest != "single").count()));
    rep.absorb(acc);
    rep.rule = format!(
        "Exhaustive over the product: loop bodies = one declaration out of {{context c{{i}}; stream with {{i}} in its name, source and expressions; stream with {{i}} in expressions only; stream with {{i}} inside a string literal and an arithmetic expression; comment line with {{i}} + stream; stream without placeholder}} or two of them ({}); ranges start..start+len and start..=start+len-1 for len 0..=6 from starts {:?}; indentation unit 4 spaces / 2 spaces / tab; loop {}. Nested (depth 2): 5 bodies (placeholders of both variables, declarations before/after the inner loop), outer ranges of length 0..={} from starts {:?} (both range operators), inner literal ranges ({}) and four inner ranges whose bounds are the outer variable (0..{{r}}, 0..={{r}}, {{r}}..3, {{r}}..={{r}}). Each case: real parse of the loop program vs real parse of the reference copies, spans erased. Non-trivial = both parse and the loops generate at least one copy.",
        args.tier.pick("each declaration followed by the next, with a blank line between them on alternate pairs", "all ordered pairs, with and without a blank line between them"),
        args.tier.pick(&[-2i64, 0, 3][..], &[-7i64, -2, -1, 0, 1, 3, 10][..]),
        args.tier.pick("alone / after a statement / before a statement separated by a blank line / before a second loop", "alone / after a statement / before a statement (with and without a blank line) / between statements / before a second loop"),
        args.tier.pick(3, 6),
        args.tier.pick(&[0i64, -1][..], &[0i64, 1, -1][..]),
        args.tier.pick("from 0: lengths 0..=3, from 2: length 2", "from 0 and 2: lengths 0..=6")
    );
    rep.assume("programs are compared through the Debug form of the AST with every Span erased (spans necessarily differ between the two texts)");
    rep.assume("when neither the loop program nor its hand-written copies parse (e.g. a negative value inside an identifier) the property says nothing and the case is counted, not judged");
    rep.assume("an inner loop that re-uses the outer variable name is judged by the statement read literally: the outer body copy has `{r}` replaced everywhere (inner body included) before the inner loop of that copy is expanded");
    rep.finish()
}

fn self_test() {
    assert_eq!(erase_spans("a Span { start: 1, end: 22 } b Span { start: 0, end: 0 }"), "a Span b Span");
    assert_eq!(erase_spans("Span { start: x"), "Span { start: x");
    // hand-computed expansion of a nested dependent loop
    let prog = vec![Node::Loop {
        var: "r",
        start: Bound::Lit(1),
        end: Bound::Lit(2),
        inclusive: true,
        body: vec![Node::Loop { var: "c", start: Bound::Lit(0), end: Bound::Var("r"), inclusive: false, body: lines(&["context k{r}x{c}"]) }, Node::Line("context o{r}".into())],
    }];
    let mut h = String::new();
    hand_expand(&prog, &mut Vec::new(), &mut h);
    assert_eq!(h, "context k1x0\ncontext o1\ncontext k2x0\ncontext k2x1\ncontext o2\n");
    let mut l = String::new();
    render_looped(&prog, "  ", 0, &mut l);
    assert_eq!(l, "for r in 1..=2:\n  for c in 0..{r}:\n    context k{r}x{c}\n  context o{r}\n");
    // empty and negative ranges
    let prog = vec![Node::Loop { var: "i", start: Bound::Lit(-1), end: Bound::Lit(1), inclusive: false, body: lines(&["x {i}"]) }, Node::Loop { var: "i", start: Bound::Lit(3), end: Bound::Lit(2), inclusive: true, body: lines(&["y {i}"]) }];
    let mut h = String::new();
    hand_expand(&prog, &mut Vec::new(), &mut h);
    assert_eq!(h, "x -1\nx 0\n");
    // the comparison itself distinguishes different programs and equates a program with itself
    assert!(compare("context a\n", "context b\n").0.is_some());
    assert!(compare("context a\n", "context   a\n\n").0.is_none());
    let _: Option<J> = None;
}
