//! C37 — coordinators agree on cluster state and never lose acknowledged writes.
//!
//! Three real `openraft::Raft` nodes in one process over the real varpulis storage (`MemStore` or
//! `RocksStore`) and state machine, connected by a harness-owned in-process network that numbers every
//! RPC. All openraft timers are disabled (`enable_tick/heartbeat/elect = false`) and the tokio clock is
//! paused; elections, heartbeats, snapshots and purges are fired by the harness. The *default
//! environment* delivers every RPC; a *deviation* is one of: drop request #s, drop the reply of
//! request #s, isolate node j from phase p on, crash node j at phase p (restart immediately, or stay
//! down until the final heal), trigger an election on node j at phase p, snapshot+purge on node j at
//! phase p. Exploration = every execution with at most `bound` deviations (ordered by position),
//! deviation-bounded search, level by level. The workload is 3 client writes, then heal + settle.

use mc::{Acc, Args, Report, Tier};
use openraft::error::{InstallSnapshotError, RPCError, RaftError, Unreachable};
use openraft::network::{RPCOption, RaftNetwork, RaftNetworkFactory};
use openraft::raft::{AppendEntriesRequest, AppendEntriesResponse, InstallSnapshotRequest, InstallSnapshotResponse, VoteRequest, VoteResponse};
use openraft::{Config, ServerState};
use serde_json::{json, Value as J};
use std::collections::{BTreeMap, BTreeSet, HashMap};
use std::sync::{Arc, Mutex};
use std::time::Duration;
use varpulis_cluster::raft::persistent_store::RocksStore;
use varpulis_cluster::raft::store::{MemStore, SharedCoordinatorState};
use varpulis_cluster::raft::{ClusterCommand, NodeId, RaftNode, TypeConfig, VarpulisRaft};

pub const WRITES: usize = 3;
pub const PHASES: usize = WRITES + 1;

#[derive(Clone, Copy, Debug, PartialEq, Eq, PartialOrd, Ord, Hash)]
pub enum Store {
    Mem,
    Rocks,
}
impl Store {
    pub fn name(self) -> &'static str {
        match self {
            Store::Mem => "mem",
            Store::Rocks => "rocks",
        }
    }
}

#[derive(Clone, Debug, PartialEq, Eq, PartialOrd, Ord, Hash)]
pub enum Dev {
    DropRequest(usize),
    DropReply(usize),
    Isolate { node: NodeId, phase: usize },
    CrashRestart { node: NodeId, phase: usize },
    CrashDown { node: NodeId, phase: usize },
    Elect { node: NodeId, phase: usize },
    SnapshotPurge { node: NodeId, phase: usize },
}
impl Dev {
    pub fn kind(&self) -> &'static str {
        match self {
            Dev::DropRequest(_) => "drop_request",
            Dev::DropReply(_) => "drop_reply",
            Dev::Isolate { .. } => "isolate",
            Dev::CrashRestart { .. } => "crash_restart",
            Dev::CrashDown { .. } => "crash_down",
            Dev::Elect { .. } => "elect",
            Dev::SnapshotPurge { .. } => "snapshot_purge",
        }
    }
    pub fn phase(&self) -> Option<usize> {
        match self {
            Dev::DropRequest(_) | Dev::DropReply(_) => None,
            Dev::Isolate { phase, .. } | Dev::CrashRestart { phase, .. } | Dev::CrashDown { phase, .. } | Dev::Elect { phase, .. } | Dev::SnapshotPurge { phase, .. } => Some(*phase),
        }
    }
    pub fn to_json(&self) -> J {
        match self {
            Dev::DropRequest(s) => json!({"kind":"drop_request","seq":s}),
            Dev::DropReply(s) => json!({"kind":"drop_reply","seq":s}),
            Dev::Isolate { node, phase } => json!({"kind":"isolate","node":node,"phase":phase}),
            Dev::CrashRestart { node, phase } => json!({"kind":"crash_restart","node":node,"phase":phase}),
            Dev::CrashDown { node, phase } => json!({"kind":"crash_down","node":node,"phase":phase}),
            Dev::Elect { node, phase } => json!({"kind":"elect","node":node,"phase":phase}),
            Dev::SnapshotPurge { node, phase } => json!({"kind":"snapshot_purge","node":node,"phase":phase}),
        }
    }
    pub fn from_json(j: &J) -> Dev {
        let node = j["node"].as_u64().unwrap_or(0);
        let phase = j["phase"].as_u64().unwrap_or(0) as usize;
        let seq = j["seq"].as_u64().unwrap_or(0) as usize;
        match j["kind"].as_str().unwrap_or("") {
            "drop_request" => Dev::DropRequest(seq),
            "drop_reply" => Dev::DropReply(seq),
            "isolate" => Dev::Isolate { node, phase },
            "crash_restart" => Dev::CrashRestart { node, phase },
            "crash_down" => Dev::CrashDown { node, phase },
            "elect" => Dev::Elect { node, phase },
            "snapshot_purge" => Dev::SnapshotPurge { node, phase },
            k => mc::machinery_error(&format!("unknown deviation kind {k}")),
        }
    }
}

// ---------------------------------------------------------------------------------------------
// In-process network

#[derive(Default)]
pub struct Net {
    pub nodes: HashMap<NodeId, VarpulisRaft>,
    pub trace: Vec<String>,
    pub seq: usize,
    drop_req: BTreeSet<usize>,
    drop_reply: BTreeSet<usize>,
    isolated: BTreeSet<NodeId>,
    down: BTreeSet<NodeId>,
}
pub type SharedNet = Arc<Mutex<Net>>;

#[derive(Clone)]
pub struct Factory {
    pub from: NodeId,
    pub net: SharedNet,
}
pub struct Client {
    from: NodeId,
    to: NodeId,
    net: SharedNet,
}
impl RaftNetworkFactory<TypeConfig> for Factory {
    type Network = Client;
    async fn new_client(&mut self, target: NodeId, _node: &RaftNode) -> Client {
        Client { from: self.from, to: target, net: self.net.clone() }
    }
}
fn unreachable(msg: &str) -> Unreachable {
    Unreachable::new(&std::io::Error::other(msg.to_string()))
}
impl Client {
    /// returns (target, drop_reply)
    fn gate(&self, kind: &str, detail: String) -> Result<(VarpulisRaft, bool), Unreachable> {
        let mut n = self.net.lock().unwrap();
        let s = n.seq;
        n.seq += 1;
        let cut = n.isolated.contains(&self.to) || n.isolated.contains(&self.from) || n.down.contains(&self.to) || n.down.contains(&self.from);
        let dropped = n.drop_req.contains(&s) || cut;
        let drop_reply = n.drop_reply.contains(&s);
        n.trace.push(format!("#{s} {}->{} {kind} {detail}{}{}", self.from, self.to, if dropped { " DROPPED" } else { "" }, if drop_reply { " REPLY-DROPPED" } else { "" }));
        if dropped {
            return Err(unreachable("dropped"));
        }
        n.nodes.get(&self.to).cloned().map(|r| (r, drop_reply)).ok_or_else(|| unreachable("no node"))
    }
}
impl RaftNetwork<TypeConfig> for Client {
    async fn vote(&mut self, rpc: VoteRequest<NodeId>, _o: RPCOption) -> Result<VoteResponse<NodeId>, RPCError<NodeId, RaftNode, RaftError<NodeId>>> {
        let (r, dr) = self.gate("vote", format!("{}", rpc.vote)).map_err(RPCError::Unreachable)?;
        let res = r.vote(rpc).await.map_err(|e| RPCError::Unreachable(Unreachable::new(&e)))?;
        if dr {
            return Err(RPCError::Unreachable(unreachable("reply dropped")));
        }
        Ok(res)
    }
    async fn append_entries(&mut self, rpc: AppendEntriesRequest<TypeConfig>, _o: RPCOption) -> Result<AppendEntriesResponse<NodeId>, RPCError<NodeId, RaftNode, RaftError<NodeId>>> {
        let d = format!("prev={:?} n={} commit={:?}", rpc.prev_log_id.map(|l| l.index), rpc.entries.len(), rpc.leader_commit.map(|l| l.index));
        let (r, dr) = self.gate("append", d).map_err(RPCError::Unreachable)?;
        let res = r.append_entries(rpc).await.map_err(|e| RPCError::Unreachable(Unreachable::new(&e)))?;
        if dr {
            return Err(RPCError::Unreachable(unreachable("reply dropped")));
        }
        Ok(res)
    }
    async fn install_snapshot(&mut self, rpc: InstallSnapshotRequest<TypeConfig>, _o: RPCOption) -> Result<InstallSnapshotResponse<NodeId>, RPCError<NodeId, RaftNode, RaftError<NodeId, InstallSnapshotError>>> {
        let (r, dr) = self.gate("snapshot", format!("upto={:?} done={}", rpc.meta.last_log_id.map(|l| l.index), rpc.done)).map_err(RPCError::Unreachable)?;
        let res = r.install_snapshot(rpc).await.map_err(|e| RPCError::Unreachable(Unreachable::new(&e)))?;
        if dr {
            return Err(RPCError::Unreachable(unreachable("reply dropped")));
        }
        Ok(res)
    }
}

// ---------------------------------------------------------------------------------------------
// One execution

#[derive(Clone, Debug, Default)]
pub struct Obs {
    /// (write k, Ok(log index) | Err(reason class))
    pub writes: Vec<(usize, Result<u64, String>)>,
    /// per observation point: node -> (applied index, state json)
    pub points: Vec<BTreeMap<NodeId, (Option<u64>, String)>>,
    pub rpc_count: usize,
    pub phase_start_seq: Vec<usize>,
    pub heal_seq: usize,
    pub trace: Vec<String>,
    pub final_leader: Option<NodeId>,
    pub notes: Vec<String>,
    pub deviations_reached: usize,
}

struct Cluster {
    store: Store,
    dir: std::path::PathBuf,
    net: SharedNet,
    config: Arc<Config>,
    shared: HashMap<NodeId, SharedCoordinatorState>,
}

fn marker(k: usize) -> ClusterCommand {
    ClusterCommand::GroupDeployed { name: format!("g{k}"), group: json!({"k": k}) }
}

impl Cluster {
    async fn start_node(&mut self, id: NodeId) -> Result<(), String> {
        let raft = match self.store {
            Store::Mem => {
                let (store, st) = MemStore::with_shared_state();
                self.shared.insert(id, st);
                let (ls, sm) = openraft::storage::Adaptor::new(store);
                openraft::Raft::new(id, self.config.clone(), Factory { from: id, net: self.net.clone() }, ls, sm).await.map_err(|e| e.to_string())?
            }
            Store::Rocks => {
                let path = self.dir.join(format!("node-{id}"));
                let mut last = String::new();
                let mut opened = None;
                for _ in 0..200 {
                    match RocksStore::open_with_shared_state(path.to_str().unwrap()) {
                        Ok(x) => {
                            opened = Some(x);
                            break;
                        }
                        Err(e) => {
                            last = e;
                            for _ in 0..20 {
                                tokio::task::yield_now().await;
                            }
                        }
                    }
                }
                let (store, st) = opened.ok_or_else(|| format!("reopen failed: {last}"))?;
                self.shared.insert(id, st);
                let (ls, sm) = openraft::storage::Adaptor::new(store);
                openraft::Raft::new(id, self.config.clone(), Factory { from: id, net: self.net.clone() }, ls, sm).await.map_err(|e| e.to_string())?
            }
        };
        let mut n = self.net.lock().unwrap();
        n.nodes.insert(id, raft);
        n.down.remove(&id);
        Ok(())
    }

    async fn stop_node(&mut self, id: NodeId) {
        let raft = {
            let mut n = self.net.lock().unwrap();
            n.down.insert(id);
            n.nodes.remove(&id)
        };
        if let Some(r) = raft {
            let _ = r.shutdown().await;
            drop(r);
        }
        self.shared.remove(&id);
        for _ in 0..50 {
            tokio::task::yield_now().await;
        }
    }

    fn live(&self) -> Vec<(NodeId, VarpulisRaft)> {
        let n = self.net.lock().unwrap();
        let mut v: Vec<(NodeId, VarpulisRaft)> = n.nodes.iter().map(|(k, r)| (*k, r.clone())).collect();
        v.sort_by_key(|(k, _)| *k);
        v
    }

    fn activity(&self) -> String {
        let seq = self.net.lock().unwrap().seq;
        let mut s = format!("{seq}");
        for (id, r) in self.live() {
            let m = r.metrics().borrow().clone();
            s.push_str(&format!("|{id}:{}:{:?}:{:?}:{:?}:{:?}:{:?}", m.current_term, m.state, m.last_log_index, m.last_applied.map(|l| l.index), m.snapshot.map(|l| l.index), m.purged.map(|l| l.index)));
        }
        s
    }

    /// Yield until nothing observable changes for 100 consecutive rounds.
    async fn settle(&self) -> Result<(), String> {
        let mut last = self.activity();
        let mut idle = 0;
        for _ in 0..200_000 {
            tokio::task::yield_now().await;
            let a = self.activity();
            if a == last {
                idle += 1;
                if idle >= 100 {
                    return Ok(());
                }
            } else {
                idle = 0;
                last = a;
            }
        }
        Err("no quiescence within 200000 scheduler rounds".into())
    }

    fn leader(&self) -> Option<NodeId> {
        let mut best: Option<(u64, NodeId)> = None;
        let isolated = self.net.lock().unwrap().isolated.clone();
        for (id, r) in self.live() {
            let m = r.metrics().borrow().clone();
            if m.state == ServerState::Leader && !isolated.contains(&id) && best.is_none_or(|(t, _)| m.current_term > t) {
                best = Some((m.current_term, id));
            }
        }
        best.map(|(_, id)| id)
    }

    fn observe(&self) -> BTreeMap<NodeId, (Option<u64>, String)> {
        let mut out = BTreeMap::new();
        for (id, r) in self.live() {
            let applied = r.metrics().borrow().last_applied.map(|l| l.index);
            if let Some(st) = self.shared.get(&id) {
                let s = st.read().unwrap();
                let j = mc::sorted_json(&serde_json::to_value(&*s).unwrap());
                out.insert(id, (applied, j.to_string()));
            }
        }
        out
    }

    /// One client write: at node 1 first (the bootstrap leader), else at whoever claims leadership.
    async fn client_write(&self, k: usize) -> Result<u64, String> {
        let target = match self.leader() {
            Some(l) => l,
            None => return Err("no_leader".into()),
        };
        let raft = self.live().into_iter().find(|(id, _)| *id == target).map(|(_, r)| r).unwrap();
        let h = tokio::spawn(async move { raft.client_write(marker(k)).await });
        self.settle().await?;
        if h.is_finished() {
            match h.await {
                Ok(Ok(resp)) => Ok(resp.log_id.index),
                Ok(Err(e)) => Err(format!("rejected:{}", e.to_string().chars().take(40).collect::<String>())),
                Err(_) => Err("write task failed".into()),
            }
        } else {
            h.abort();
            Err("no_answer".into())
        }
    }
}

pub fn run_plan(store: Store, plan: &[Dev], exec_id: u64) -> Result<Obs, String> {
    let rt = tokio::runtime::Builder::new_current_thread().enable_all().start_paused(true).build().map_err(|e| e.to_string())?;
    let dir = std::path::PathBuf::from(format!("{}/target/scratch/C37-{}/{}-{}", mc::VERIF_ROOT, std::process::id(), store.name(), exec_id));
    if store == Store::Rocks {
        let _ = std::fs::remove_dir_all(&dir);
        std::fs::create_dir_all(&dir).map_err(|e| e.to_string())?;
    }
    let res = rt.block_on(scenario(store, plan, dir.clone()));
    drop(rt);
    if store == Store::Rocks {
        let _ = std::fs::remove_dir_all(&dir);
    }
    res
}

async fn scenario(store: Store, plan: &[Dev], dir: std::path::PathBuf) -> Result<Obs, String> {
    let net: SharedNet = Arc::new(Mutex::new(Net::default()));
    {
        let mut n = net.lock().unwrap();
        for d in plan {
            match d {
                Dev::DropRequest(s) => {
                    n.drop_req.insert(*s);
                }
                Dev::DropReply(s) => {
                    n.drop_reply.insert(*s);
                }
                _ => {}
            }
        }
    }
    // same values as varpulis_cluster::raft::bootstrap_with_storage, with every timer disabled
    let config = Arc::new(
        Config { heartbeat_interval: 500, election_timeout_min: 1500, election_timeout_max: 3000, enable_tick: false, enable_heartbeat: false, enable_elect: false, ..Default::default() }
            .validate()
            .map_err(|e| e.to_string())?,
    );
    let mut c = Cluster { store, dir, net: net.clone(), config, shared: HashMap::new() };
    let mut obs = Obs::default();
    for id in 1..=3u64 {
        c.start_node(id).await?;
    }
    let mut members = BTreeMap::new();
    for id in 1..=3u64 {
        members.insert(id, RaftNode { addr: format!("n{id}") });
    }
    let r1 = c.live()[0].1.clone();
    r1.initialize(members).await.map_err(|e| e.to_string())?;
    c.settle().await?;
    let mut down_until_heal: Vec<NodeId> = vec![];
    for phase in 0..PHASES {
        obs.phase_start_seq.push(net.lock().unwrap().seq);
        for d in plan.iter().filter(|d| d.phase() == Some(phase)) {
            // a crash of a node that is already down is not a deviation (nothing happens)
            if let Dev::CrashRestart { node, .. } | Dev::CrashDown { node, .. } = d {
                if !c.live().iter().any(|(id, _)| id == node) {
                    continue;
                }
            }
            obs.deviations_reached += 1;
            match d {
                Dev::Isolate { node, .. } => {
                    net.lock().unwrap().isolated.insert(*node);
                }
                Dev::CrashRestart { node, .. } => {
                    if store == Store::Mem {
                        return Err("crash deviations need the persistent store".into());
                    }
                    c.stop_node(*node).await;
                    c.start_node(*node).await?;
                    c.settle().await?;
                }
                Dev::CrashDown { node, .. } => {
                    if store == Store::Mem {
                        return Err("crash deviations need the persistent store".into());
                    }
                    c.stop_node(*node).await;
                    down_until_heal.push(*node);
                    c.settle().await?;
                }
                Dev::Elect { node, .. } => {
                    tokio::time::advance(Duration::from_millis(3100)).await;
                    if let Some((_, r)) = c.live().into_iter().find(|(id, _)| id == node) {
                        let _ = r.trigger().elect().await;
                    }
                    c.settle().await?;
                }
                Dev::SnapshotPurge { node, .. } => {
                    if let Some((_, r)) = c.live().into_iter().find(|(id, _)| id == node) {
                        let _ = r.trigger().snapshot().await;
                        c.settle().await?;
                        let applied = r.metrics().borrow().last_applied.map(|l| l.index);
                        if let Some(a) = applied {
                            let _ = r.trigger().purge_log(a).await;
                        }
                    }
                    c.settle().await?;
                }
                _ => {}
            }
        }
        if phase < WRITES {
            let res = c.client_write(phase).await;
            let res = match res {
                Err(e) if e.contains("quiescence") => return Err(e),
                other => other,
            };
            obs.writes.push((phase, res));
        }
        obs.points.push(c.observe());
    }
    // heal: everything reachable again, crashed nodes come back, a leader is (re)established
    {
        let mut n = net.lock().unwrap();
        obs.heal_seq = n.seq;
        n.isolated.clear();
        n.drop_req.clear();
        n.drop_reply.clear();
    }
    for id in down_until_heal {
        if !c.live().iter().any(|(l, _)| *l == id) {
            c.start_node(id).await?;
        }
    }
    c.settle().await?;
    // replication to a node that was unreachable sleeps in openraft's back-off (500 ms); the clock is
    // paused, so let it expire explicitly or an isolated follower never catches up after the heal
    // (found through seeded change C37: the stale follower was simply never contacted again)
    for _ in 0..3 {
        tokio::time::advance(Duration::from_millis(600)).await;
        c.settle().await?;
    }
    obs.points.push(c.observe());
    for round in 0..4 {
        if let Some(l) = c.leader() {
            let r = c.live().into_iter().find(|(id, _)| *id == l).map(|(_, r)| r).unwrap();
            let _ = r.trigger().heartbeat().await;
            c.settle().await?;
            // a stale leader steps down on the heartbeat replies; accept only a leader that survives it
            if c.leader() == Some(l) {
                obs.final_leader = Some(l);
                break;
            }
        }
        tokio::time::advance(Duration::from_millis(3100)).await;
        let cands = c.live();
        let (_, r) = &cands[round % cands.len()];
        let _ = r.trigger().elect().await;
        c.settle().await?;
    }
    if let Some(l) = obs.final_leader {
        // one more round so that followers learn the final commit index
        let r = c.live().into_iter().find(|(id, _)| *id == l).map(|(_, r)| r).unwrap();
        let _ = r.trigger().heartbeat().await;
        c.settle().await?;
        let _ = r.trigger().heartbeat().await;
        c.settle().await?;
    } else {
        obs.notes.push("no leader after heal".into());
    }
    obs.points.push(c.observe());
    for (_, r) in c.live() {
        let _ = r.shutdown().await;
    }
    {
        let mut n = net.lock().unwrap();
        n.nodes.clear();
        obs.rpc_count = n.seq;
        obs.trace = std::mem::take(&mut n.trace);
    }
    for d in plan {
        if let Dev::DropRequest(s) | Dev::DropReply(s) = d {
            if *s < obs.rpc_count {
                obs.deviations_reached += 1;
            }
        }
    }
    Ok(obs)
}

// ---------------------------------------------------------------------------------------------
// Oracle

pub fn judge(store: Store, plan: &[Dev], obs: &Obs) -> Vec<(String, String)> {
    let mut out = vec![];
    let kinds: BTreeSet<&str> = plan.iter().map(|d| d.kind()).collect();
    let kinds = if kinds.is_empty() { "none".to_string() } else { kinds.into_iter().collect::<Vec<_>>().join("+") };
    // (a) same applied index => same state, across nodes and observation points
    let mut at_index: BTreeMap<u64, (String, NodeId, usize)> = BTreeMap::new();
    for (pi, p) in obs.points.iter().enumerate() {
        for (node, (applied, state)) in p {
            let Some(i) = applied else { continue };
            match at_index.get(i) {
                Some((s, n0, p0)) if s != state => {
                    out.push((format!("C37:divergent_state_at_same_index:{}:{kinds}", store.name()), format!("applied index {i}: node {n0} at observation {p0} has {s} but node {node} at observation {pi} has {state}")));
                }
                Some(_) => {}
                None => {
                    at_index.insert(*i, (state.clone(), *node, pi));
                }
            }
        }
    }
    // (b) an acknowledged write is in the state of every node that applied up to or beyond its index, at the end
    if let Some(last) = obs.points.last() {
        for (k, res) in &obs.writes {
            let Ok(idx) = res else { continue };
            for (node, (applied, state)) in last {
                if applied.is_some_and(|a| a >= *idx) {
                    let v: J = serde_json::from_str(state).unwrap_or(J::Null);
                    if v["pipeline_groups"].get(format!("g{k}")).is_none() {
                        out.push((format!("C37:acknowledged_write_lost:{}:{kinds}", store.name()), format!("write {k} was acknowledged at log index {idx}; node {node} has applied up to {applied:?} and its state lacks group g{k}: {state}")));
                    }
                }
            }
            // after a heal with an established leader every live node must have caught up with it
            if obs.final_leader.is_some() && !last.values().any(|(a, _)| a.is_some_and(|a| a >= *idx)) {
                out.push((format!("C37:acknowledged_write_not_recovered:{}:{kinds}", store.name()), format!("write {k} was acknowledged at log index {idx} but after the heal no node has applied it: {:?}", last.iter().map(|(n, (a, _))| (*n, *a)).collect::<Vec<_>>())));
            }
        }
    }
    out
}

// ---------------------------------------------------------------------------------------------
// Deviation-bounded exploration

fn successors(store: Store, plan: &[Dev], obs: &Obs) -> Vec<Vec<Dev>> {
    // position of the last deviation of `plan` in the execution just observed
    let (last_seq, last_phase): (usize, usize) = match plan.last() {
        None => (0, 0),
        Some(Dev::DropRequest(s)) | Some(Dev::DropReply(s)) => (*s + 1, obs.phase_start_seq.iter().rposition(|ps| *ps <= *s).unwrap_or(0)),
        Some(d) => {
            let p = d.phase().unwrap();
            (obs.phase_start_seq.get(p).copied().unwrap_or(0), p)
        }
    };
    let mut out = vec![];
    let ext = |d: Dev| {
        let mut p = plan.to_vec();
        p.push(d);
        p
    };
    // RPC-level deviations strictly after the last one, up to the end of the workload (before the heal)
    for s in last_seq..obs.heal_seq {
        out.push(ext(Dev::DropRequest(s)));
        out.push(ext(Dev::DropReply(s)));
    }
    let phase_from = if matches!(plan.last(), Some(Dev::DropRequest(_)) | Some(Dev::DropReply(_))) { last_phase + 1 } else { last_phase };
    for phase in phase_from..PHASES {
        for node in 1..=3u64 {
            let cands = [
                Dev::Isolate { node, phase },
                Dev::Elect { node, phase },
                Dev::SnapshotPurge { node, phase },
                Dev::CrashRestart { node, phase },
                Dev::CrashDown { node, phase },
            ];
            for d in cands {
                if store == Store::Mem && matches!(d, Dev::CrashRestart { .. } | Dev::CrashDown { .. }) {
                    continue;
                }
                // within one phase keep a canonical order and no duplicates
                if let Some(l) = plan.last() {
                    if l.phase() == Some(phase) && *l >= d {
                        continue;
                    }
                }
                out.push(ext(d));
            }
        }
    }
    out
}

pub fn plan_json(store: Store, plan: &[Dev]) -> J {
    json!({"store": store.name(), "plan": plan.iter().map(|d| d.to_json()).collect::<Vec<_>>()})
}

fn obs_fingerprint(o: &Obs) -> String {
    format!("{:?}|{:?}|{}", o.writes, o.points.last(), o.rpc_count)
}

pub fn run(args: &Args) -> ! {
    let mut rep = Report::new(args, "model_checking");
    mc::quiet_panics();
    if let Some(path) = &args.replay {
        let case = mc::load_replay(path);
        let store = if case["store"] == "rocks" { Store::Rocks } else { Store::Mem };
        let plan: Vec<Dev> = case["plan"].as_array().unwrap().iter().map(Dev::from_json).collect();
        let obs = run_plan(store, &plan, 0).unwrap_or_else(|e| mc::machinery_error(&e));
        for l in &obs.trace {
            println!("  {l}");
        }
        println!("writes: {:?}\nfinal leader: {:?}\nfinal: {:?}", obs.writes, obs.final_leader, obs.points.last());
        rep.evaluations = 1;
        for (sig, desc) in judge(store, &plan, &obs) {
            rep.violation(mc::Violation { sig, desc, case: case.clone(), size: plan.len() });
        }
        rep.finish();
    }
    // determinism gate: the default plan and one faulty plan three times each
    for store in [Store::Mem, Store::Rocks] {
        for plan in [vec![], vec![Dev::DropRequest(5)], vec![Dev::Elect { node: 2, phase: 1 }]] {
            let runs: Vec<Obs> = (0..3).map(|i| run_plan(store, &plan, 900 + i).unwrap_or_else(|e| mc::machinery_error(&format!("gate run failed: {e}")))).collect();
            if !(runs.iter().all(|r| r.trace == runs[0].trace) && runs.iter().all(|r| obs_fingerprint(r) == obs_fingerprint(&runs[0]))) {
                mc::machinery_error(&format!("replay gate: plan {:?} on {} gave different traces/observations in three runs — nondeterminism not owned", plan, store.name()));
            }
        }
    }
    let deadline = mc::Deadline::after(Duration::from_secs(args.tier.pick(45, 1100)));
    // quick: every single deviation, plus every ordered pair (snapshot+purge, then crash or election)
    // on the persistent store and every ordered pair (isolate, then snapshot+purge); thorough: every plan with up to 2 deviations.
    let bound = |_store: Store| -> usize { 2 };
    let quick = args.tier == Tier::Quick;
    let counter = std::sync::atomic::AtomicU64::new(0);
    for store in [Store::Mem, Store::Rocks] {
        // level by level: all plans with d deviations, successors computed from each observed execution
        let mut level: Vec<Vec<Dev>> = vec![vec![]];
        for depth in 0..=bound(store) {
            let next_level: Mutex<Vec<Vec<Dev>>> = Mutex::new(vec![]);
            let (acc, done) = mc::par_items(&level, args.threads, |plan, acc: &mut Acc| {
                if deadline.expired() {
                    return false;
                }
                let id = counter.fetch_add(1, std::sync::atomic::Ordering::Relaxed);
                let obs = match run_plan(store, plan, id) {
                    Ok(o) => o,
                    Err(e) => {
                        acc.count("executions_aborted", 1);
                        eprintln!("ABORTED execution: plan {} on {}: {e}", plan_json(store, plan)["plan"], store.name());
                        acc.viol.add(format!("C37:harness:{}:execution_aborted", store.name()), format!("execution could not be completed: {e}"), plan_json(store, plan), plan.len());
                        return true;
                    }
                };
                acc.evaluations += 1;
                acc.count("rpcs", obs.rpc_count as u64);
                if obs.deviations_reached == plan.len() && !plan.is_empty() {
                    acc.nontrivial += 1;
                }
                acc.outcome(&obs_fingerprint(&obs));
                acc.count(&format!("acknowledged_writes_{}", store.name()), obs.writes.iter().filter(|(_, r)| r.is_ok()).count() as u64);
                if obs.final_leader.is_none() {
                    acc.count("executions_without_leader_after_heal", 1);
                }
                for (sig, desc) in judge(store, plan, &obs) {
                    acc.viol.add(sig, format!("plan {}: {desc}", plan_json(store, plan)["plan"]), plan_json(store, plan), plan.len() * 1000 + obs.rpc_count);
                }
                if plan.len() == depth && depth < bound(store) {
                    let mut succ = successors(store, plan, &obs);
                    if quick && depth >= 1 {
                        let first_snap = store == Store::Rocks && matches!(plan[0], Dev::SnapshotPurge { .. });
                        // (isolate, then snapshot+purge): the isolated node has to catch up through
                        // InstallSnapshot after the heal (added after seeded change C37), both stores
                        let first_iso = matches!(plan[0], Dev::Isolate { .. });
                        succ.retain(|p| (first_snap && matches!(p[1], Dev::CrashRestart { .. } | Dev::CrashDown { .. } | Dev::Elect { .. })) || (first_iso && matches!(p[1], Dev::SnapshotPurge { .. })));
                    }
                    next_level.lock().unwrap().extend(succ);
                }
                if plan.len() == 1 {
                    acc.sample(|| json!({"store": store.name(), "plan": plan_json(store, plan)["plan"], "rpcs": obs.rpc_count, "writes": format!("{:?}", obs.writes), "final_leader": obs.final_leader}));
                }
                true
            });
            rep.transitions += acc.counts.get("rpcs").copied().unwrap_or(0);
            rep.states += acc.outcomes.len() as u64;
            rep.traces += acc.evaluations;
            rep.set(&format!("plans_{}_with_{}_deviations", store.name(), depth), json!(level.len()));
            rep.absorb(acc);
            if !done {
                rep.cap_hit(&format!("wall cap at {} deviations on {}", depth, store.name()));
                break;
            }
            level = next_level.into_inner().unwrap();
            level.sort();
            level.dedup();
        }
    }
    // a harness abort is a machinery problem, never a verdict
    if rep.has_violation_sig("C37:harness:mem:execution_aborted") || rep.has_violation_sig("C37:harness:rocks:execution_aborted") {
        mc::machinery_error("some executions could not be completed (see replays/C37)");
    }
    rep.rule = "Deviation-bounded exploration of a 3-node in-process cluster (real openraft, real MemStore / RocksStore and state machine): the default environment delivers every RPC; plans with 0 and 1 deviations plus (quick) all ordered pairs (snapshot+purge, then crash/restart, crash-until-heal or election) on the persistent store and all ordered pairs (isolate, then snapshot+purge) on both stores, or (thorough) all plans with 2 deviations, from {drop request #s, drop reply #s, isolate node at phase, crash+restart / crash-until-heal (RocksStore), trigger election, snapshot+purge}, successors generated from the RPC trace of each execution (positions strictly after the previous deviation). Non-trivial = every deviation of the plan was actually reached. states = distinct (write results, final per-node state) outcomes; transitions = RPCs carried by the harness network.".into();
    rep.assume("openraft timers are disabled and the tokio clock is paused; leader leases are expired by advancing the virtual clock before every harness-triggered election");
    rep.assume("quiescence = 100 consecutive scheduler rounds without a new RPC or metrics change");
    rep.assume("the HTTP transport (raft/network.rs) is replaced by an in-process network, as the property's hook note foresees");
    rep.finish();
}
