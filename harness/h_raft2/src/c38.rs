//! C38 — coordinator views stay in sync with the replicated state and are not reverted.
//!
//! Explicit-state search over operation histories on the real objects. Every history is replayed on
//! fresh real objects: a real `openraft::Raft` (timers disabled, paused tokio clock) over the real
//! `MemStore::with_shared_state()`, a real `Coordinator` with that Raft handle attached the way the CLI
//! attaches it, the real HTTP handlers (`cluster_routes_with_raft`, driven with `warp::test`), a
//! loopback mock worker for the worker-side calls, and a "health tick" that mirrors the inline loop of
//! `varpulis-cli/src/main.rs` (the mirrored call skeleton is compared with the source text at start-up).
//!
//! * half 1 (single node): after every history, `P = project(coordinator)`; the real
//!   `coord.sync_from_raft()`; `P' = project(coordinator)`; require `P == P'`.
//! * half 2 (3-node in-process cluster, pieces of c37.rs): operations on the leader's coordinator;
//!   after quiescence the followers run their part of the loop (`update_raft_role`, `sync_from_raft`);
//!   require `project(follower) == project(leader)`.
//!
//! A divergence is attributed to the operation that made it: a field is charged to the last operation
//! of a history iff it diverges there and did not already diverge at the end of the parent history
//! (which is itself an explored history, where the field is charged to whoever made it diverge).

#[path = "c38_mock.rs"]
mod mock;

use crate::c37::{Factory, Net, SharedNet};
use mc::{Acc, Args, Report};
use openraft::{Config, ServerState};
use serde_json::{json, Value as J};
use std::collections::{BTreeMap, BTreeSet, HashMap, HashSet};
use std::sync::{Arc, Mutex};
use std::time::Duration;
use varpulis_cluster::coordinator::{Coordinator, RaftHandle};
use varpulis_cluster::raft::store::{MemStore, SharedCoordinatorState};
use varpulis_cluster::raft::{ClusterCommand, NodeId, RaftNode, VarpulisRaft};
use varpulis_cluster::{RbacConfig, ScalingPolicy, SharedCoordinator, WorkerId};
use warp::Filter;

const MAIN_RS: &str = "/repo/crates/varpulis-cli/src/main.rs";
const HEARTBEAT_TIMEOUT: Duration = Duration::from_secs(15);
const ADVANCE: Duration = Duration::from_secs(20);

// ---------------------------------------------------------------------------------------------
// Operations

#[derive(Clone, Copy, Debug, PartialEq, Eq, Hash, PartialOrd, Ord)]
pub enum Op {
    Register(u8),
    Heartbeat(u8),
    DeployG1,
    TeardownG1,
    MigrateP1,
    Drain(u8),
    Deregister(u8),
    CreateConnA,
    DeleteConn,
    CreateConnB,
    UpdateConn,
    CreateConnInvalid,
    SetPolicy,
    Advance,
    Tick,
    DeployG3,
    TeardownG3,
    Rebalance,
    MockFail,
}

/// simplest first
const ALPHABET: [Op; 23] = [
    Op::Register(1),
    Op::Register(2),
    Op::Heartbeat(1),
    Op::Heartbeat(2),
    Op::DeployG1,
    Op::TeardownG1,
    Op::MigrateP1,
    Op::Drain(1),
    Op::Drain(2),
    Op::Deregister(1),
    Op::Deregister(2),
    Op::CreateConnA,
    Op::DeleteConn,
    Op::CreateConnB,
    Op::UpdateConn,
    Op::CreateConnInvalid,
    Op::SetPolicy,
    Op::Advance,
    Op::Tick,
    Op::DeployG3,
    Op::TeardownG3,
    Op::Rebalance,
    Op::MockFail,
];

impl Op {
    pub fn name(self) -> String {
        match self {
            Op::Register(w) => format!("register(w{w})"),
            Op::Heartbeat(w) => format!("heartbeat(w{w})"),
            Op::DeployG1 => "deploy(g1: p1 pinned to w1)".into(),
            Op::TeardownG1 => "teardown(g1)".into(),
            Op::MigrateP1 => "migrate(g1/p1 to the other worker)".into(),
            Op::Drain(w) => format!("drain(w{w})"),
            Op::Deregister(w) => format!("deregister(w{w})"),
            Op::CreateConnA => "create_connector(c1 host=a)".into(),
            Op::DeleteConn => "delete_connector(c1)".into(),
            Op::CreateConnB => "create_connector(c1 host=b, name taken)".into(),
            Op::UpdateConn => "update_connector(c1 host=u)".into(),
            Op::CreateConnInvalid => "create_connector(c2 mqtt without host)".into(),
            Op::SetPolicy => "set_scaling_policy(startup configuration)".into(),
            Op::Advance => "advance_clock(20s)".into(),
            Op::Tick => "health_tick".into(),
            Op::DeployG3 => "deploy(g3: u1,u2,u3 unpinned)".into(),
            Op::TeardownG3 => "teardown(g3)".into(),
            Op::Rebalance => "rebalance(api)".into(),
            Op::MockFail => "workers_start_refusing_deploys".into(),
        }
    }
    fn from_name(s: &str) -> Op {
        ALPHABET.iter().copied().find(|o| o.name() == s).unwrap_or_else(|| mc::machinery_error(&format!("unknown operation in replay: {s}")))
    }
    fn worker(w: u8) -> String {
        format!("w{w}")
    }
}

fn names(ops: &[Op]) -> Vec<String> {
    ops.iter().map(|o| o.name()).collect()
}

// ---------------------------------------------------------------------------------------------
// Projection (what the property talks about; no wall-clock fields, no uuids, no addresses)

pub type Flat = BTreeMap<String, String>;

/// u1,u2,u3 of group g3 are interchangeable (same source, unpinned): which of them a rebalance moves
/// depends on `HashMap` iteration order, so they are projected to their class.
fn class(p: &str) -> String {
    if p.len() == 2 && p.starts_with('u') {
        "u".into()
    } else {
        p.into()
    }
}

fn project(c: &Coordinator) -> Flat {
    let mut f = Flat::new();
    for (id, w) in &c.workers {
        let k = format!("workers/{}", id.0);
        f.insert(format!("{k}/@"), "present".into());
        f.insert(format!("{k}/status"), w.status.to_string());
        let mut a: Vec<String> = w.assigned_pipelines.iter().map(|p| class(p)).collect();
        a.sort();
        f.insert(format!("{k}/assigned_pipelines"), format!("[{}]", a.join(",")));
        f.insert(format!("{k}/capacity/cpu_cores"), w.capacity.cpu_cores.to_string());
        f.insert(format!("{k}/capacity/pipelines_running"), w.capacity.pipelines_running.to_string());
        f.insert(format!("{k}/capacity/max_pipelines"), w.capacity.max_pipelines.to_string());
    }
    // groups are keyed by their user-given name (ids are uuids); same-named groups by content order
    let mut groups: Vec<(String, Flat)> = Vec::new();
    for g in c.pipeline_groups.values() {
        let mut gf = Flat::new();
        gf.insert("@".into(), "present".into());
        gf.insert("status".into(), g.status.to_string());
        gf.insert("spec_pipelines".into(), g.spec.pipelines.len().to_string());
        let mut pl: Vec<(String, Vec<(&'static str, String)>)> = Vec::new();
        for (pname, d) in &g.placements {
            let cl = class(pname);
            let pid = if cl == *pname { d.pipeline_id.clone() } else if d.pipeline_id.is_empty() { "".into() } else { "set".into() };
            let status = serde_json::to_value(&d.status).ok().and_then(|v| v.as_str().map(|s| s.to_string())).unwrap_or_default();
            pl.push((cl, vec![("worker", d.worker_id.0.clone()), ("status", status), ("epoch", d.epoch.to_string()), ("pipeline_id", pid)]));
        }
        pl.sort();
        let mut seen: BTreeMap<String, usize> = BTreeMap::new();
        for (cl, fields) in pl {
            let n = seen.entry(cl.clone()).or_insert(0);
            let key = if cl == "u" { format!("u#{n}") } else if *n == 0 { cl.clone() } else { format!("{cl}#{n}") };
            *n += 1;
            gf.insert(format!("placements/{key}/@"), "present".into());
            for (k, v) in fields {
                gf.insert(format!("placements/{key}/{k}"), v);
            }
        }
        groups.push((g.name.clone(), gf));
    }
    groups.sort();
    let mut seen: BTreeMap<String, usize> = BTreeMap::new();
    for (name, gf) in groups {
        let n = seen.entry(name.clone()).or_insert(0);
        let key = if *n == 0 { name.clone() } else { format!("{name}#{n}") };
        *n += 1;
        for (k, v) in gf {
            f.insert(format!("groups/{key}/{k}"), v);
        }
    }
    for (name, conn) in &c.connectors {
        let k = format!("connectors/{name}");
        f.insert(format!("{k}/@"), "present".into());
        f.insert(format!("{k}/connector_type"), conn.connector_type.clone());
        let params: BTreeMap<&String, &String> = conn.params.iter().collect();
        f.insert(format!("{k}/params"), format!("{params:?}"));
        f.insert(format!("{k}/description"), format!("{:?}", conn.description));
    }
    f.insert("scaling_policy".into(), c.scaling_policy.as_ref().map(|p| mc::sorted_json(&serde_json::to_value(p).unwrap_or(J::Null)).to_string()).unwrap_or_else(|| "none".into()));
    f
}

fn flat_json(f: &Flat) -> J {
    J::Object(f.iter().filter(|(k, _)| !k.ends_with("/@")).map(|(k, v)| (k.clone(), J::String(v.clone()))).collect())
}

/// presence-aware difference: when an object is present on one side only, its fields are not listed
fn diff(a: &Flat, b: &Flat) -> Vec<(String, Option<String>, Option<String>)> {
    let keys: BTreeSet<&String> = a.keys().chain(b.keys()).collect();
    let mut gone: Vec<String> = Vec::new();
    let mut out = Vec::new();
    for k in &keys {
        if let Some(prefix) = k.strip_suffix("/@") {
            if a.contains_key(*k) != b.contains_key(*k) {
                gone.push(format!("{prefix}/"));
            }
        }
    }
    for k in keys {
        let (x, y) = (a.get(k), b.get(k));
        if x == y {
            continue;
        }
        if let Some(prefix) = k.strip_suffix("/@") {
            if gone.iter().any(|g| prefix.starts_with(g.as_str())) {
                continue;
            }
            out.push((prefix.to_string(), x.cloned(), y.cloned()));
            continue;
        }
        if gone.iter().any(|g| k.starts_with(g.as_str())) {
            continue;
        }
        out.push((k.clone(), x.cloned(), y.cloned()));
    }
    out
}

fn field_class(path: &str) -> &'static str {
    let seg: Vec<&str> = path.split('/').collect();
    match seg.as_slice() {
        ["workers", _] => "worker_set",
        ["workers", _, "status"] => "status",
        // the per-worker load bookkeeping: every commit function writes the two together
        ["workers", _, "assigned_pipelines"] | ["workers", _, "capacity", "pipelines_running"] => "worker_load",
        ["workers", _, "capacity", ..] => "capacity",
        ["groups", _] => "group_set",
        ["groups", _, "status"] => "group_status",
        ["groups", _, "placements", ..] => "placement",
        ["groups", ..] => "group",
        ["connectors", ..] => "connector",
        ["scaling_policy"] => "policy",
        _ => "other",
    }
}

// ---------------------------------------------------------------------------------------------
// The health tick: mirror of the loop body in varpulis-cli/src/main.rs

/// `coord.<method>(` calls of the loop body, in source order
const TICK_CALLS: [&str; 10] = [
    "update_raft_role",
    "sync_from_raft",
    "health_sweep",
    "handle_worker_failure",
    "check_connector_health",
    "cleanup_completed_migrations",
    "reconcile_placements",
    "rebalance",
    "evaluate_scaling",
    "fire_scaling_webhook",
];
/// further landmarks that must appear in this order
const TICK_LANDMARKS: [&str; 14] = [
    "interval.tick().await",
    "health_coordinator.write().await",
    "coord.update_raft_role()",
    "coord.sync_from_raft()",
    "if !coord.ha_role.is_writer()",
    "continue;",
    "coord.health_sweep()",
    "if !result.workers_marked_unhealthy.is_empty()",
    "ClusterCommand::WorkerStatusChanged",
    "status: \"unhealthy\".to_string()",
    "handle.raft.client_write(cmd).await",
    "coord.handle_worker_failure(&wid).await",
    "if coord.pending_rebalance",
    "coord.reconcile_placements().await",
];

fn check_source_skeleton() {
    let text = std::fs::read_to_string(MAIN_RS).unwrap_or_else(|e| mc::machinery_error(&format!("cannot read {MAIN_RS}: {e}")));
    let start = text.find("// Spawn periodic health sweep").unwrap_or_else(|| mc::machinery_error("health loop start marker not found in main.rs; the tick mirror of C38 must be re-derived"));
    let end = text[start..].find("// Health endpoint (no auth)").map(|e| e + start).unwrap_or_else(|| mc::machinery_error("health loop end marker not found in main.rs; the tick mirror of C38 must be re-derived"));
    let region = &text[start..end];
    // every `coord.<ident>(` in order
    let mut calls: Vec<String> = Vec::new();
    let mut i = 0;
    while let Some(p) = region[i..].find("coord.") {
        let s = i + p + "coord.".len();
        let ident: String = region[s..].chars().take_while(|c| c.is_ascii_alphanumeric() || *c == '_').collect();
        let after = region[s + ident.len()..].chars().next();
        let before_ok = region[..i + p].chars().last().is_none_or(|c| !(c.is_ascii_alphanumeric() || c == '_'));
        if before_ok && after == Some('(') && !ident.is_empty() {
            calls.push(ident.clone());
        }
        i = s;
    }
    let expected: Vec<String> = TICK_CALLS.iter().map(|s| s.to_string()).collect();
    if calls != expected {
        mc::machinery_error(&format!("the health loop in main.rs calls {calls:?} but the C38 tick mirror performs {expected:?}; re-derive the mirror"));
    }
    let mut pos = 0;
    for l in TICK_LANDMARKS {
        match region[pos..].find(l) {
            Some(p) => pos += p + l.len(),
            None => mc::machinery_error(&format!("health loop landmark `{l}` not found (in order) in main.rs; the C38 tick mirror must be re-derived")),
        }
    }
    // start-up: the scaling policy is plain configuration assigned before the Raft handle is attached
    let a = text.find("coord.scaling_policy = scaling_policy;");
    let b = text.find("coord.raft_handle = Some(varpulis_cluster::coordinator::RaftHandle {");
    match (a, b) {
        (Some(a), Some(b)) if a < b && b < start => {}
        _ => mc::machinery_error("start-up sequence in main.rs (scaling policy assignment, then Raft handle attachment, then the health loop) not found as mirrored by C38"),
    }
}

type Phases = Vec<(&'static str, Flat)>;

async fn tick(coordinator: &SharedCoordinator, phases: &mut Phases) {
    let mut coord = coordinator.write().await;
    phases.push(("before", project(&coord)));
    coord.update_raft_role();
    if let Some(ref handle) = coord.raft_handle {
        let metrics = handle.raft.metrics().borrow().clone();
        let role = if metrics.current_leader == Some(metrics.id) { 2.0 } else { 0.0 };
        coord.cluster_metrics.update_raft_metrics(role, metrics.current_term as f64, metrics.last_applied.map(|l| l.index as f64).unwrap_or(0.0));
    }
    coord.sync_from_raft();
    phases.push(("tick_sync", project(&coord)));
    if !coord.ha_role.is_writer() {
        return;
    }
    let result = coord.health_sweep();
    if !result.workers_marked_unhealthy.is_empty() {
        let failed_workers: Vec<WorkerId> = result.workers_marked_unhealthy.clone();
        if let Some(ref handle) = coord.raft_handle {
            for wid in &failed_workers {
                let cmd = ClusterCommand::WorkerStatusChanged { id: wid.0.clone(), status: "unhealthy".to_string() };
                let _ = handle.raft.client_write(cmd).await;
            }
        }
        phases.push(("health_sweep", project(&coord)));
        for wid in failed_workers {
            coord.handle_worker_failure(&wid).await;
        }
        phases.push(("failover", project(&coord)));
    }
    let _ = coord.check_connector_health();
    coord.cleanup_completed_migrations(Duration::from_secs(3600));
    if coord.pending_rebalance {
        let _ = coord.reconcile_placements().await;
        phases.push(("reconcile", project(&coord)));
        let _ = coord.rebalance().await;
        phases.push(("rebalance", project(&coord)));
    }
    let _ = coord.evaluate_scaling();
    coord.fire_scaling_webhook().await;
}

// ---------------------------------------------------------------------------------------------
// World: fresh real objects for one execution

#[derive(Clone, Copy, Debug, PartialEq, Eq)]
pub enum Half {
    Single,
    Follower,
}
impl Half {
    fn name(self) -> &'static str {
        match self {
            Half::Single => "single_node",
            Half::Follower => "three_nodes",
        }
    }
}

struct Node {
    id: NodeId,
    raft: VarpulisRaft,
    coord: SharedCoordinator,
}

struct World {
    nodes: Vec<Node>,
    net: SharedNet,
    routes: warp::filters::BoxedFilter<(warp::reply::Response,)>,
    mock: mock::Lease,
    http_log: Vec<(String, u16)>,
}

/// What the enabledness rules read (taken from the real objects at the end of a history).
#[derive(Clone, Debug, Default, PartialEq, Eq, Hash)]
pub struct View {
    /// worker -> (status, heartbeat older than the timeout, is_available())
    workers: BTreeMap<String, (String, bool, bool)>,
    groups: BTreeSet<String>,
    p1_worker: Option<String>,
    connectors: BTreeSet<String>,
    pending_rebalance: bool,
    mock_fail: bool,
}

impl World {
    async fn build(half: Half) -> Result<World, String> {
        let n_nodes: u64 = if half == Half::Single { 1 } else { 3 };
        let net: SharedNet = Arc::new(Mutex::new(Net::default()));
        // same values as varpulis_cluster::raft::bootstrap_with_storage, with every timer disabled
        let config = Arc::new(
            Config { heartbeat_interval: 500, election_timeout_min: 1500, election_timeout_max: 3000, enable_tick: false, enable_heartbeat: false, enable_elect: false, ..Default::default() }
                .validate()
                .map_err(|e| e.to_string())?,
        );
        let mut parts: Vec<(NodeId, VarpulisRaft, SharedCoordinatorState)> = Vec::new();
        for id in 1..=n_nodes {
            let (store, shared) = MemStore::with_shared_state();
            let (ls, sm) = openraft::storage::Adaptor::new(store);
            let raft = openraft::Raft::new(id, config.clone(), Factory { from: id, net: net.clone() }, ls, sm).await.map_err(|e| e.to_string())?;
            net.lock().unwrap().nodes.insert(id, raft.clone());
            parts.push((id, raft, shared));
        }
        let mut members = BTreeMap::new();
        let mut peer_addrs = BTreeMap::new();
        for id in 1..=n_nodes {
            members.insert(id, RaftNode { addr: format!("n{id}") });
            peer_addrs.insert(id, format!("http://coordinator-{id}.invalid"));
        }
        parts[0].1.initialize(members).await.map_err(|e| e.to_string())?;
        let mut nodes = Vec::new();
        for (id, raft, shared) in parts {
            // as the CLI does: shared_coordinator(), configuration, then the Raft handle
            let coord = varpulis_cluster::shared_coordinator();
            {
                let mut c = coord.write().await;
                c.heartbeat_interval = Duration::from_secs(5);
                c.heartbeat_timeout = HEARTBEAT_TIMEOUT;
                c.scaling_policy = None;
                c.raft_handle = Some(RaftHandle { raft: Arc::new(raft.clone()), store_state: shared, peer_addrs: peer_addrs.clone(), admin_key: None });
            }
            nodes.push(Node { id, raft, coord });
        }
        let routes = varpulis_cluster::api::cluster_routes_with_raft(nodes[0].coord.clone(), Arc::new(RbacConfig::disabled()), Arc::new(nodes[0].raft.clone()), None)
            .map(|r| warp::Reply::into_response(r))
            .boxed();
        let w = World { nodes, net, routes, mock: mock::Lease::acquire(), http_log: Vec::new() };
        w.settle().await?;
        let m = w.nodes[0].raft.metrics().borrow().clone();
        if m.state != ServerState::Leader || m.current_leader != Some(1) {
            return Err(format!("node 1 did not become leader after initialize: {:?} leader {:?}", m.state, m.current_leader));
        }
        Ok(w)
    }

    fn activity(&self) -> String {
        let mut s = format!("{}", self.net.lock().unwrap().seq);
        for n in &self.nodes {
            let m = n.raft.metrics().borrow().clone();
            s.push_str(&format!("|{}:{}:{:?}:{:?}:{:?}:{:?}", n.id, m.current_term, m.state, m.current_leader, m.last_log_index, m.last_applied.map(|l| l.index)));
        }
        s
    }

    /// Yield until nothing observable changes for a number of consecutive scheduler rounds.
    async fn settle(&self) -> Result<(), String> {
        let need = if self.nodes.len() == 1 { 30 } else { 100 };
        let mut last = self.activity();
        let mut idle = 0;
        for _ in 0..200_000 {
            tokio::task::yield_now().await;
            let a = self.activity();
            if a == last {
                idle += 1;
                if idle >= need {
                    return Ok(());
                }
            } else {
                idle = 0;
                last = a;
            }
        }
        Err("no quiescence within 200000 scheduler rounds".into())
    }

    async fn http(&mut self, method: &str, path: &str, body: Option<J>) -> (u16, J) {
        let mut rb = warp::test::request().method(method).path(path);
        if let Some(b) = &body {
            rb = rb.json(b);
        }
        let resp = rb.reply(&self.routes).await;
        let status = resp.status().as_u16();
        // group ids are uuids: keep them out of the log that the determinism gate compares
        let shown: Vec<String> = path.split('/').map(|seg| if seg.len() == 36 && seg.matches('-').count() == 4 { "{group-id}".to_string() } else { seg.to_string() }).collect();
        self.http_log.push((format!("{method} {}", shown.join("/")), status));
        (status, serde_json::from_slice(resp.body()).unwrap_or(J::Null))
    }

    async fn group_id(&self, name: &str) -> Option<String> {
        let c = self.nodes[0].coord.read().await;
        let mut ids: Vec<String> = c.pipeline_groups.values().filter(|g| g.name == name).map(|g| g.id.clone()).collect();
        ids.sort();
        ids.into_iter().next()
    }

    async fn view(&self) -> View {
        let c = self.nodes[0].coord.read().await;
        let mut v = View::default();
        for (id, w) in &c.workers {
            v.workers.insert(id.0.clone(), (w.status.to_string(), w.last_heartbeat.elapsed() > c.heartbeat_timeout, w.is_available()));
        }
        for g in c.pipeline_groups.values() {
            v.groups.insert(g.name.clone());
            if g.name == "g1" {
                v.p1_worker = g.placements.get("p1").map(|d| d.worker_id.0.clone());
            }
        }
        v.connectors = c.connectors.keys().cloned().collect();
        v.pending_rebalance = c.pending_rebalance;
        v.mock_fail = self.mock.with(|m| m.fail_deploys);
        v
    }

    /// Execute one operation through the real handlers; returns (HTTP status if any, tick phases).
    async fn apply(&mut self, op: Op) -> Result<(Option<u16>, Phases), String> {
        let mut phases = Phases::new();
        let status = match op {
            Op::SetPolicy => {
                // no handler exists: the policy is start-up configuration (main.rs `coord.scaling_policy = scaling_policy;`)
                let mut c = self.nodes[0].coord.write().await;
                c.scaling_policy = Some(ScalingPolicy { min_workers: 1, max_workers: 4, scale_up_threshold: 5.0, scale_down_threshold: 1.0, cooldown_secs: 60, webhook_url: None });
                None
            }
            Op::Register(w) => {
                let id = Op::worker(w);
                // a worker that registers again is a restarted process: its pipelines are gone
                self.mock.with(|m| m.restart(&id));
                let body = json!({"worker_id": id, "address": self.mock.address(&id), "api_key": "k", "capacity": {"cpu_cores": 4, "pipelines_running": 0, "max_pipelines": 100}});
                Some(self.http("POST", "/api/v1/cluster/workers/register", Some(body)).await.0)
            }
            Op::Heartbeat(w) => {
                let id = Op::worker(w);
                let running = self.mock.with(|m| m.count(&id));
                let body = json!({"events_processed": 0, "pipelines_running": running});
                Some(self.http("POST", &format!("/api/v1/cluster/workers/{id}/heartbeat"), Some(body)).await.0)
            }
            Op::DeployG1 => {
                let body = json!({"name": "g1", "pipelines": [{"name": "p1", "source": "stream S = A", "worker_affinity": "w1"}]});
                Some(self.http("POST", "/api/v1/cluster/pipeline-groups", Some(body)).await.0)
            }
            Op::DeployG3 => {
                let body = json!({"name": "g3", "pipelines": [{"name": "u1", "source": "stream S = A"}, {"name": "u2", "source": "stream S = A"}, {"name": "u3", "source": "stream S = A"}]});
                Some(self.http("POST", "/api/v1/cluster/pipeline-groups", Some(body)).await.0)
            }
            Op::TeardownG1 | Op::TeardownG3 => {
                let name = if op == Op::TeardownG1 { "g1" } else { "g3" };
                let gid = self.group_id(name).await.ok_or("teardown of a missing group was enabled")?;
                Some(self.http("DELETE", &format!("/api/v1/cluster/pipeline-groups/{gid}"), None).await.0)
            }
            Op::MigrateP1 => {
                let gid = self.group_id("g1").await.ok_or("migrate without group was enabled")?;
                let cur = self.view().await.p1_worker.ok_or("migrate without placement was enabled")?;
                let target = if cur == "w1" { "w2" } else { "w1" };
                Some(self.http("POST", &format!("/api/v1/cluster/pipelines/{gid}/p1/migrate"), Some(json!({"target_worker_id": target}))).await.0)
            }
            Op::Drain(w) => Some(self.http("POST", &format!("/api/v1/cluster/workers/w{w}/drain"), Some(json!({"timeout_secs": null}))).await.0),
            Op::Deregister(w) => Some(self.http("DELETE", &format!("/api/v1/cluster/workers/w{w}"), None).await.0),
            Op::Rebalance => Some(self.http("POST", "/api/v1/cluster/rebalance", None).await.0),
            Op::CreateConnA => Some(self.http("POST", "/api/v1/cluster/connectors", Some(json!({"name": "c1", "connector_type": "mqtt", "params": {"host": "a"}}))).await.0),
            Op::CreateConnB => Some(self.http("POST", "/api/v1/cluster/connectors", Some(json!({"name": "c1", "connector_type": "mqtt", "params": {"host": "b"}}))).await.0),
            Op::CreateConnInvalid => Some(self.http("POST", "/api/v1/cluster/connectors", Some(json!({"name": "c2", "connector_type": "mqtt", "params": {}}))).await.0),
            Op::UpdateConn => Some(self.http("PUT", "/api/v1/cluster/connectors/c1", Some(json!({"name": "c1", "connector_type": "mqtt", "params": {"host": "u"}}))).await.0),
            Op::DeleteConn => Some(self.http("DELETE", "/api/v1/cluster/connectors/c1", None).await.0),
            Op::MockFail => {
                self.mock.with(|m| m.fail_deploys = true);
                None
            }
            Op::Advance => {
                // virtual time = back-dating every heartbeat age; the real `elapsed() > timeout` still decides
                let mut c = self.nodes[0].coord.write().await;
                for w in c.workers.values_mut() {
                    w.last_heartbeat = w.last_heartbeat.checked_sub(ADVANCE).ok_or("cannot back-date Instant")?;
                }
                None
            }
            Op::Tick => {
                tick(&self.nodes[0].coord.clone(), &mut phases).await;
                None
            }
        };
        self.settle().await?;
        if self.nodes.len() > 1 {
            self.followers_catch_up().await?;
        }
        Ok((status, phases))
    }

    /// 3-node half: let the followers learn the commit index (timers are off, so the harness fires the
    /// leader's heartbeat), then run the followers' part of the health loop.
    async fn followers_catch_up(&mut self) -> Result<(), String> {
        for _ in 0..2 {
            let _ = self.nodes[0].raft.trigger().heartbeat().await;
            self.settle().await?;
        }
        let leader_applied = self.nodes[0].raft.metrics().borrow().last_applied;
        for n in &self.nodes[1..] {
            let a = n.raft.metrics().borrow().last_applied;
            if a != leader_applied {
                return Err(format!("follower {} applied {:?}, leader {:?} after quiescence", n.id, a, leader_applied));
            }
            let mut ph = Phases::new();
            tick(&n.coord, &mut ph).await;
            if n.coord.read().await.ha_role.is_writer() {
                return Err(format!("node {} considers itself a writer", n.id));
            }
        }
        Ok(())
    }

    async fn shutdown(self) {
        for n in &self.nodes {
            let _ = n.raft.shutdown().await;
        }
        self.net.lock().unwrap().nodes.clear();
    }
}

/// Which operations are worth executing in the state described by `v` (everything pruned here is
/// answered by the real code with an error and no state change, or repeats an idempotent step).
fn enabled(op: Op, v: &View, hist: &[Op]) -> bool {
    let has = |w: u8| v.workers.contains_key(&Op::worker(w));
    let available = v.workers.values().filter(|w| w.2).count();
    match op {
        Op::SetPolicy => hist.is_empty(),
        Op::Register(_) => true,
        Op::Heartbeat(w) | Op::Drain(w) | Op::Deregister(w) => has(w),
        Op::DeployG1 => !v.groups.contains("g1") && available >= 1,
        // unpinned pipelines only where the placement strategy has a single candidate
        Op::DeployG3 => !v.groups.contains("g3") && available == 1,
        Op::TeardownG1 => v.groups.contains("g1"),
        Op::TeardownG3 => v.groups.contains("g3"),
        Op::MigrateP1 => match &v.p1_worker {
            Some(cur) => v.workers.contains_key(if cur == "w1" { "w2" } else { "w1" }),
            None => false,
        },
        Op::Rebalance => !v.groups.is_empty(),
        Op::CreateConnA => !v.connectors.contains("c1"),
        Op::CreateConnB | Op::UpdateConn | Op::DeleteConn => v.connectors.contains("c1"),
        Op::CreateConnInvalid => !hist.contains(&Op::CreateConnInvalid) && !v.connectors.contains("c2"),
        Op::MockFail => !v.mock_fail && !v.workers.is_empty(),
        Op::Advance => v.workers.values().any(|w| w.0 == "ready" && !w.1),
        Op::Tick => true,
    }
}

// ---------------------------------------------------------------------------------------------
// One execution = one history on fresh objects, then the oracle

#[derive(Clone, Debug)]
pub struct Exec {
    pre: Arc<Flat>,
    post: Arc<Flat>,
    view: View,
    last_status: Option<u16>,
    last_phases: Phases,
    mock_calls: Vec<String>,
    http_log: Vec<(String, u16)>,
}

pub fn run_history(half: Half, ops: &[Op]) -> Result<Exec, String> {
    let rt = tokio::runtime::Builder::new_current_thread().enable_all().start_paused(true).build().map_err(|e| e.to_string())?;
    let res = rt.block_on(async {
        // While a blocking task is outstanding the paused clock does not auto-advance when the runtime
        // idles on loopback I/O (otherwise the coordinator's 10 s HTTP timeout would fire spuriously);
        // virtual time never moves in these executions.
        let (tx, rx) = std::sync::mpsc::channel::<()>();
        let guard = tokio::task::spawn_blocking(move || {
            let _ = rx.recv();
        });
        let r = scenario(half, ops).await;
        drop(tx);
        let _ = guard.await;
        r
    });
    drop(rt);
    res
}

async fn scenario(half: Half, ops: &[Op]) -> Result<Exec, String> {
    let mut w = World::build(half).await?;
    let mut last_status = None;
    let mut last_phases = Phases::new();
    for op in ops {
        let (s, p) = w.apply(*op).await?;
        last_status = s;
        last_phases = p;
    }
    let view = w.view().await;
    let (pre, post) = match half {
        Half::Single => {
            let mut c = w.nodes[0].coord.write().await;
            let pre = project(&c);
            c.sync_from_raft();
            (pre, project(&c))
        }
        Half::Follower => {
            if ops.is_empty() {
                w.followers_catch_up().await?;
            }
            let pre = project(&*w.nodes[0].coord.read().await);
            let mut posts = Vec::new();
            for n in &w.nodes[1..] {
                posts.push(project(&*n.coord.read().await));
            }
            let post = posts.iter().find(|p| **p != pre).cloned().unwrap_or_else(|| posts[0].clone());
            (pre, post)
        }
    };
    let mock_calls = w.mock.with(|m| m.calls.clone());
    let http_log = std::mem::take(&mut w.http_log);
    w.shutdown().await;
    Ok(Exec { pre: Arc::new(pre), post: Arc::new(post), view, last_status, last_phases, mock_calls, http_log })
}

// ---------------------------------------------------------------------------------------------
// Oracle + attribution

fn op_kind(op: Op, parent: &Exec, status: Option<u16>) -> String {
    let base = match op {
        Op::Register(w) => {
            if parent.view.workers.contains_key(&Op::worker(w)) {
                "reregister"
            } else {
                "register"
            }
        }
        Op::Heartbeat(w) => {
            if parent.view.workers.get(&Op::worker(w)).is_some_and(|x| x.0 == "unhealthy") {
                "heartbeat_recovery"
            } else {
                "heartbeat"
            }
        }
        Op::DeployG1 | Op::DeployG3 => "deploy",
        Op::TeardownG1 | Op::TeardownG3 => "teardown",
        Op::MigrateP1 => "migrate",
        Op::Drain(_) => "drain",
        Op::Deregister(_) => "deregister",
        Op::Rebalance => "manual_rebalance",
        Op::CreateConnA | Op::CreateConnB | Op::CreateConnInvalid => "create_connector",
        Op::UpdateConn => "update_connector",
        Op::DeleteConn => "delete_connector",
        Op::SetPolicy => "set_scaling_policy",
        Op::Advance => "advance_clock",
        Op::MockFail => "environment",
        Op::Tick => "tick",
    };
    match status {
        Some(s) if !(200..300).contains(&s) => format!("{base}_rejected"),
        _ => base.to_string(),
    }
}

/// for a tick: the last phase of the loop body that wrote `path`
fn tick_phase(phases: &Phases, path: &str) -> &'static str {
    let get = |f: &Flat| -> Option<String> {
        f.get(path).cloned().or_else(|| f.get(&format!("{path}/@")).cloned())
    };
    let mut who = "tick";
    for w in phases.windows(2) {
        if get(&w[0].1) != get(&w[1].1) {
            who = w[1].0;
        }
    }
    match who {
        "health_sweep" => "health_sweep",
        "failover" => "failover",
        "reconcile" => "reconcile",
        "rebalance" => "rebalance",
        "tick_sync" => "tick_sync",
        _ => "tick",
    }
}

pub struct Finding {
    sig: String,
    desc: String,
    field: String,
}

/// Divergences of `e` (end of history `ops`) that the last operation is responsible for.
fn judge(half: Half, ops: &[Op], parent: Option<&Exec>, e: &Exec) -> Vec<Finding> {
    let d = diff(&e.pre, &e.post);
    if d.is_empty() {
        return vec![];
    }
    // a field that already diverged at the end of the parent history was made to diverge by an earlier
    // operation (and is reported at the shorter history); the last operation is charged with the fields
    // that were consistent before it and diverge after it
    let parent_diff: BTreeSet<String> = parent.map(|p| diff(&p.pre, &p.post).into_iter().map(|(p, _, _)| p).collect()).unwrap_or_default();
    let fresh: Vec<&(String, Option<String>, Option<String>)> = d.iter().filter(|(p, _, _)| !parent_diff.contains(p)).collect();
    let mut by_sig: BTreeMap<String, Vec<&(String, Option<String>, Option<String>)>> = BTreeMap::new();
    let empty = Exec { pre: Arc::new(Flat::new()), post: Arc::new(Flat::new()), view: View::default(), last_status: None, last_phases: vec![], mock_calls: vec![], http_log: vec![] };
    for f in fresh {
        let kind = match ops.last() {
            None => "start".to_string(),
            Some(Op::Tick) => tick_phase(&e.last_phases, &f.0).to_string(),
            Some(op) => op_kind(*op, parent.unwrap_or(&empty), e.last_status),
        };
        let class = field_class(&f.0);
        let sig = match half {
            Half::Single => format!("C38:{kind}:{class}_reverted"),
            Half::Follower => format!("C38:{kind}:follower_{class}_differs"),
        };
        by_sig.entry(sig).or_default().push(f);
    }
    let show = |v: &Option<String>| v.clone().unwrap_or_else(|| "absent".into());
    by_sig
        .into_iter()
        .map(|(sig, fields)| {
            let first = fields[0];
            let all: Vec<String> = fields.iter().map(|(p, a, b)| format!("{p}: {} -> {}", show(a), show(b))).collect();
            let status = e.last_status.map(|s| format!(" (HTTP {s})")).unwrap_or_default();
            let desc = match half {
                Half::Single => format!(
                    "history {:?}: after `{}`{status} the coordinator has {} = {} but the real sync_from_raft() turns it into {} [fields made by this operation and reverted by the sync: {}]",
                    names(ops),
                    ops.last().map(|o| o.name()).unwrap_or_default(),
                    first.0,
                    show(&first.1),
                    show(&first.2),
                    all.join("; ")
                ),
                Half::Follower => format!(
                    "history {:?} on the leader of a 3-node cluster: after `{}`{status} and quiescence the leader's view has {} = {} but a follower's view after its sync_from_raft() has {} [fields that differ because of this operation: {}]",
                    names(ops),
                    ops.last().map(|o| o.name()).unwrap_or_default(),
                    first.0,
                    show(&first.1),
                    show(&first.2),
                    all.join("; ")
                ),
            };
            Finding { sig, desc, field: first.0.clone() }
        })
        .collect()
}

fn case_json(half: Half, ops: &[Op], field: &str) -> J {
    json!({"half": half.name(), "ops": names(ops), "field": field})
}

// ---------------------------------------------------------------------------------------------
// Exploration

struct Item {
    ops: Vec<Op>,
    parent: Arc<Exec>,
}

struct Totals {
    /// order-independent fingerprint of every (history, view before sync, view after sync)
    fingerprint: u64,
    states: HashSet<u64>,
    transitions: u64,
    traces: u64,
    /// signature -> smallest violating history (re-run outside the explorer before reporting)
    mins: BTreeMap<String, (Half, Vec<Op>)>,
}

fn sample_json(half: Half, ops: &[Op], e: &Exec, findings: &[Finding]) -> J {
    json!({
        "half": half.name(),
        "history": names(ops),
        "http": e.http_log.iter().map(|(p, s)| format!("{p} -> {s}")).collect::<Vec<_>>(),
        "worker_calls": e.mock_calls,
        "view_before_sync": flat_json(&e.pre),
        "differences_after_sync": diff(&e.pre, &e.post).iter().map(|(p, a, b)| format!("{p}: {} -> {}", a.clone().unwrap_or_else(|| "absent".into()), b.clone().unwrap_or_else(|| "absent".into()))).collect::<Vec<_>>(),
        "charged_to_last_operation": findings.iter().map(|f| f.sig.clone()).collect::<Vec<_>>(),
    })
}

fn intern(pool: &mut HashMap<u64, Arc<Flat>>, f: &Arc<Flat>) -> Arc<Flat> {
    pool.entry(mc::hash_of(&**f)).or_insert_with(|| f.clone()).clone()
}

fn explore(half: Half, max_depth: usize, args: &Args, deadline: &mc::Deadline, rep: &mut Report, totals: &mut Totals) {
    let root = run_history(half, &[]).unwrap_or_else(|e| mc::machinery_error(&format!("{}: empty history failed: {e}", half.name())));
    for f in judge(half, &[], None, &root) {
        totals.mins.entry(f.sig.clone()).or_insert_with(|| (half, vec![]));
        rep.violation(mc::Violation { sig: f.sig, desc: f.desc, case: case_json(half, &[], &f.field), size: 0 });
    }
    rep.evaluations += 1;
    totals.traces += 1;
    totals.states.insert(mc::hash_of(&*root.pre));
    let mut pool: HashMap<u64, Arc<Flat>> = HashMap::new();
    let mut level: Vec<(Vec<Op>, Arc<Exec>)> = vec![(vec![], Arc::new(root))];
    let mut have_divergent = false;
    for k in ["histories_ending_with_an_unhealthy_worker", "ticks_reaching_failover", "ticks_reaching_reconcile", "ticks_reaching_rebalance", "ticks_that_left_a_timed_out_worker_ready"] {
        rep.add_count(k, 0);
    }
    for depth in 1..=max_depth {
        let mut items: Vec<Item> = Vec::new();
        for (h, e) in &level {
            for op in ALPHABET {
                if enabled(op, &e.view, h) {
                    let mut ops = h.clone();
                    ops.push(op);
                    items.push(Item { ops, parent: e.clone() });
                }
            }
        }
        rep.set(&format!("histories_{}_length_{}", half.name(), depth), json!(items.len()));
        let results: Mutex<Vec<(usize, Exec)>> = Mutex::new(Vec::new());
        let mins: Mutex<BTreeMap<String, usize>> = Mutex::new(BTreeMap::new());
        let samples: Mutex<BTreeMap<(bool, usize), J>> = Mutex::new(BTreeMap::new());
        let keep = depth < max_depth;
        let (acc, done) = mc::par_indices(items.len() as u64, args.threads, 4, |i, acc: &mut Acc| {
            if deadline.expired() {
                return false;
            }
            let it = &items[i as usize];
            let e = match mc::catch(|| run_history(half, &it.ops)) {
                Ok(Ok(e)) => e,
                Ok(Err(msg)) => mc::machinery_error(&format!("{} history {:?} could not be executed: {msg}", half.name(), names(&it.ops))),
                Err(p) => mc::machinery_error(&format!("{} history {:?} panicked at {}: {p}", half.name(), names(&it.ops), mc::last_panic_location())),
            };
            acc.evaluations += 1;
            acc.count("operations_executed", it.ops.len() as u64);
            if e.pre != it.parent.pre || e.post != it.parent.post {
                acc.nontrivial += 1;
            }
            acc.outcome(&(&*e.pre, &*e.post));
            let findings = judge(half, &it.ops, Some(&it.parent), &e);
            for f in &findings {
                // size = (length, position in the enumeration): the reported minimal history is the same in every run
                acc.viol.add(f.sig.clone(), f.desc.clone(), case_json(half, &it.ops, &f.field), it.ops.len() * 10_000_000 + i as usize);
                let mut m = mins.lock().unwrap();
                let cur = m.entry(f.sig.clone()).or_insert(i as usize);
                *cur = (*cur).min(i as usize);
            }
            // coverage counters
            if e.view.workers.values().any(|w| w.0 == "unhealthy") {
                acc.count("histories_ending_with_an_unhealthy_worker", 1);
            }
            if it.ops.last() == Some(&Op::Tick) {
                for ph in ["failover", "reconcile", "rebalance"] {
                    if e.last_phases.iter().any(|(n, _)| *n == ph) {
                        acc.count(&format!("ticks_reaching_{ph}"), 1);
                    }
                }
                if it.parent.view.workers.iter().any(|(id, w)| w.0 == "ready" && w.1 && e.view.workers.get(id).is_some_and(|x| x.0 == "ready")) {
                    acc.count("ticks_that_left_a_timed_out_worker_ready", 1);
                }
            }
            // one consistent and one divergent sample history per half (the first of the deepest level)
            let consistent = diff(&e.pre, &e.post).is_empty();
            if (consistent && it.ops.len() == max_depth) || (!findings.is_empty() && !have_divergent) {
                let interesting = it.ops.contains(&Op::Tick) && (it.ops.contains(&Op::DeployG1) || max_depth < 3) && it.ops.iter().any(|o| matches!(o, Op::Register(_)));
                if (consistent && interesting) || !findings.is_empty() {
                    let mut sm = samples.lock().unwrap();
                    let key = (consistent, i as usize);
                    if sm.keys().filter(|k| k.0 == consistent).all(|k| k.1 > i as usize) {
                        sm.retain(|k, _| k.0 != consistent);
                        sm.insert(key, sample_json(half, &it.ops, &e, &findings));
                    }
                }
            }
            results.lock().unwrap().push((i as usize, e));
            true
        });
        let mut res = results.into_inner().unwrap();
        res.sort_by_key(|(i, _)| *i);
        totals.transitions += acc.counts.get("operations_executed").copied().unwrap_or(0);
        totals.traces += acc.evaluations;
        for (i, e) in &res {
            totals.states.insert(mc::hash_of(&*e.pre));
            totals.fingerprint = totals.fingerprint.wrapping_add(mc::hash_of(&(half.name(), names(&items[*i].ops), &*e.pre, &*e.post)));
        }
        rep.absorb(acc);
        for (sig, i) in mins.into_inner().unwrap() {
            totals.mins.entry(sig).or_insert_with(|| (half, items[i].ops.clone()));
        }
        for ((consistent, _), sj) in samples.into_inner().unwrap() {
            if !consistent {
                have_divergent = true;
            }
            rep.sample(sj);
        }
        if !done {
            rep.cap_hit(&format!("wall cap during {} histories of length {depth} (all shorter lengths completed)", half.name()));
            return;
        }
        if keep {
            level = res
                .into_iter()
                .map(|(i, mut e)| {
                    e.pre = intern(&mut pool, &e.pre);
                    e.post = intern(&mut pool, &e.post);
                    e.mock_calls.clear();
                    e.http_log.clear();
                    e.last_phases.clear();
                    (items[i].ops.clone(), Arc::new(e))
                })
                .collect();
        }
    }
}

/// the history obtained by always taking the last enabled operation
fn last_history(half: Half, depth: usize) -> Vec<Op> {
    let mut ops: Vec<Op> = Vec::new();
    for _ in 0..depth {
        let e = run_history(half, &ops).unwrap_or_else(|e| mc::machinery_error(&format!("gate: {e}")));
        match ALPHABET.iter().rev().find(|o| enabled(**o, &e.view, &ops)) {
            Some(o) => ops.push(*o),
            None => break,
        }
    }
    ops
}

fn determinism_gate(half: Half, depth: usize) {
    let fixed: Vec<Vec<Op>> = match half {
        Half::Single => vec![
            vec![Op::Register(1)],
            vec![Op::Register(1), Op::DeployG3, Op::Register(2), Op::Tick],
            vec![Op::Register(1), Op::Register(2), Op::DeployG1, Op::MigrateP1, Op::Drain(2)],
            // one operation that migrates pipelines of two groups (the coordinator walks hash maps)
            vec![Op::Register(1), Op::DeployG3, Op::DeployG1, Op::Register(2), Op::Drain(1)],
            last_history(half, depth),
        ],
        Half::Follower => vec![vec![Op::Register(1)], vec![Op::Register(1), Op::DeployG1, Op::Tick], last_history(half, depth)],
    };
    for h in fixed {
        let runs: Vec<Exec> = (0..2).map(|_| run_history(half, &h).unwrap_or_else(|e| mc::machinery_error(&format!("gate run of {:?} failed: {e}", names(&h))))).collect();
        let same = runs[0].pre == runs[1].pre && runs[0].post == runs[1].post && runs[0].view == runs[1].view && runs[0].mock_calls.len() == runs[1].mock_calls.len() && runs[0].http_log == runs[1].http_log;
        if !same {
            mc::machinery_error(&format!(
                "replay gate ({}): history {:?} gave different projections in two runs — nondeterminism not owned (view before sync differs in {:?}; after sync in {:?}; enabledness view {:?} vs {:?}; worker calls {:?} vs {:?})",
                half.name(),
                names(&h),
                diff(&runs[0].pre, &runs[1].pre),
                diff(&runs[0].post, &runs[1].post),
                runs[0].view,
                runs[1].view,
                runs[0].mock_calls,
                runs[1].mock_calls
            ));
        }
    }
}

/// Every reported signature's smallest history is re-run outside the explorer (whole prefix chain, fresh
/// objects); a violation that does not reproduce is a machinery problem, never a verdict.
fn confirm(totals: &Totals) {
    for (sig, (half, ops)) in &totals.mins {
        let mut parent: Option<Exec> = None;
        let mut found = false;
        for n in ops.len().saturating_sub(1)..=ops.len() {
            let e = run_history(*half, &ops[..n]).unwrap_or_else(|e| mc::machinery_error(&format!("confirmation run failed: {e}")));
            if n == ops.len() {
                found = judge(*half, ops, if ops.is_empty() { None } else { parent.as_ref() }, &e).iter().any(|f| f.sig == *sig);
            }
            parent = Some(e);
        }
        if !found {
            mc::machinery_error(&format!("violation {sig} at history {:?} did not reproduce outside the explorer", names(ops)));
        }
    }
}

fn self_test() {
    // projection difference and classification on hand-made cases
    let mut a = Flat::new();
    a.insert("workers/w1/@".into(), "present".into());
    a.insert("workers/w1/status".into(), "ready".into());
    a.insert("workers/w1/assigned_pipelines".into(), "[p1]".into());
    let mut b = a.clone();
    assert!(diff(&a, &b).is_empty());
    b.insert("workers/w1/assigned_pipelines".into(), "[]".into());
    assert_eq!(diff(&a, &b), vec![("workers/w1/assigned_pipelines".to_string(), Some("[p1]".to_string()), Some("[]".to_string()))]);
    let c = Flat::new();
    assert_eq!(diff(&a, &c), vec![("workers/w1".to_string(), Some("present".to_string()), None)]);
    assert_eq!(field_class("workers/w1"), "worker_set");
    assert_eq!(field_class("workers/w1/capacity/pipelines_running"), "worker_load");
    assert_eq!(field_class("workers/w1/assigned_pipelines"), "worker_load");
    assert_eq!(field_class("workers/w1/capacity/max_pipelines"), "capacity");
    assert_eq!(field_class("workers/w1/status"), "status");
    assert_eq!(field_class("groups/g1/placements/p1/worker"), "placement");
    assert_eq!(field_class("groups/g1"), "group_set");
    assert_eq!(field_class("connectors/c1/params"), "connector");
    assert_eq!(field_class("scaling_policy"), "policy");
    assert_eq!(class("u2"), "u");
    assert_eq!(class("p1"), "p1");
    for o in ALPHABET {
        assert_eq!(Op::from_name(&o.name()), o);
    }
}

fn replay(case: &J, rep: &mut Report) {
    let half = if case["half"] == "three_nodes" { Half::Follower } else { Half::Single };
    let ops: Vec<Op> = case["ops"].as_array().unwrap_or_else(|| mc::machinery_error("replay file has no ops")).iter().map(|v| Op::from_name(v.as_str().unwrap_or(""))).collect();
    let mut parent: Option<Exec> = None;
    for n in 0..=ops.len() {
        let e = run_history(half, &ops[..n]).unwrap_or_else(|e| mc::machinery_error(&format!("replay failed: {e}")));
        rep.evaluations += 1;
        let findings = judge(half, &ops[..n], parent.as_ref(), &e);
        println!("--- after {:?}", names(&ops[..n]));
        if n == ops.len() {
            for (p, s) in &e.http_log {
                println!("  http   {p} -> {s}");
            }
            for c in &e.mock_calls {
                println!("  worker {c}");
            }
            println!("  view before sync: {}", flat_json(&e.pre));
            println!("  view after  sync: {}", flat_json(&e.post));
        }
        for (p, a, b) in diff(&e.pre, &e.post) {
            println!("  differs: {p}: {a:?} -> {b:?}");
        }
        for f in findings {
            println!("  charged to the last operation: {}", f.sig);
            if n == ops.len() {
                rep.violation(mc::Violation { sig: f.sig, desc: f.desc, case: case.clone(), size: ops.len() });
            }
        }
        parent = Some(e);
    }
}

pub fn run(args: &Args) -> ! {
    let mut rep = Report::new(args, "model_checking");
    mc::quiet_panics();
    self_test();
    check_source_skeleton();
    if let Some(path) = &args.replay {
        let case = mc::load_replay(path);
        replay(&case, &mut rep);
        rep.finish();
    }
    // 3-node half to depth 4 in both tiers: register, register, deploy, migrate is the shortest history in
    // which a follower has to apply an update to a group it already knows (seeded change C38)
    let (d1, d2) = (args.tier.pick(4usize, 5usize), 4usize);
    determinism_gate(Half::Single, d1);
    determinism_gate(Half::Follower, d2);
    let deadline = mc::Deadline::after(Duration::from_secs(args.tier.pick(36, 1120)));
    let mut totals = Totals { fingerprint: 0, states: HashSet::new(), transitions: 0, traces: 0, mins: BTreeMap::new() };
    // the smaller half first so that a wall cap can only cut the deepest level of the large half
    explore(Half::Follower, d2, args, &deadline, &mut rep, &mut totals);
    explore(Half::Single, d1, args, &deadline, &mut rep, &mut totals);
    confirm(&totals);
    rep.states = totals.states.len() as u64;
    rep.transitions = totals.transitions;
    rep.traces = totals.traces;
    rep.set("outcome_fingerprint", json!(format!("{:016x}", totals.fingerprint)));
    rep.set("op_alphabet", json!(ALPHABET.iter().map(|o| o.name()).collect::<Vec<_>>()));
    rep.rule = format!(
        "Explicit-state search, state = history, every history replayed on fresh real objects (real openraft node(s) over MemStore, real Coordinator with the Raft handle attached as the CLI does, real HTTP handlers via warp::test, loopback mock worker, mirrored health tick): all histories of length <= {d1} over the {}-operation alphabet on a single-node Raft, pruned only by enabledness (operations the real code answers with an error and no state change, idempotent repeats, unpinned deploys with more than one placement candidate); oracle after every history: project(coordinator) is a fixpoint of the real sync_from_raft(). All histories of length <= {d2} on the leader of a 3-node in-process cluster; oracle: after quiescence project(follower after its sync) == project(leader). A divergent field is charged to the last operation iff it did not already diverge with the same values at the end of the parent history. Non-trivial = the last operation changed the projected view or what the sync makes of it. states = distinct projected coordinator views; transitions = operations executed; traces = histories replayed.",
        ALPHABET.len()
    );
    rep.assume("projection = workers (id, status, assigned_pipelines as a sorted multiset, capacity), pipeline groups by user-given name (status, per placement: worker, status, epoch, pipeline id), connectors, scaling policy; excluded as wall-clock or purely local: last_heartbeat, events_processed, created_at, uuids (group and migration ids), worker addresses (mock port), active_migrations, metrics, pending_rebalance");
    rep.assume("there is no HTTP handler that sets the scaling policy: the operation mirrors the CLI start-up assignment `coord.scaling_policy = scaling_policy` and is enabled only as the first operation");
    rep.assume("the health tick is a mirror of the inline loop in varpulis-cli/src/main.rs; its method-call skeleton and landmarks are compared with the source text at start-up (machinery error on mismatch)");
    rep.assume("clock = back-dating WorkerNode.last_heartbeat by 20 s (timeout 15 s); the tokio clock is paused and never advances (auto-advance inhibited while the coordinator waits on loopback I/O); openraft timers are disabled, the harness fires the leader heartbeat in the 3-node half");
    rep.assume("HashMap iteration order is kept out of choices: g1/p1 is pinned with worker_affinity, the unpinned group g3 is deployed only when exactly one worker is available, failover/drain/rebalance targets have a single candidate with two workers, and the interchangeable pipelines u1..u3 are projected to their class");
    rep.assume("mock worker: deploy 200 with id `<pipeline>@<worker>.<n>` (500 after `workers_start_refusing_deploys`), checkpoint 404 (best effort in the coordinator), restore/delete 200; heartbeats report the mock's real pipeline count");
    rep.finish();
}
