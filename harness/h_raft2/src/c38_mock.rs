//! Loopback mock worker for C38. A small pool of warp servers on 127.0.0.1 (ephemeral ports), each
//! driven by its own OS thread with its own (un-paused) tokio runtime; an exploring thread leases one
//! server for the duration of one execution, so concurrent executions never share a port. One server
//! plays every worker of the execution: the address handed to the coordinator for worker `w` is
//! `http://127.0.0.1:<port>/w/<w>`, to which the real coordinator code appends
//! `/api/v1/pipelines[/<id>[/checkpoint|/restore]]`.
//!
//! Scripting: deploy answers 200 `{"id","name","status"}` (ids `<pipeline>@<worker>.<n>`, n = how often that pipeline was deployed on that worker) unless
//! `fail_deploys` is set, in which case it answers 500; checkpoint answers 404 (the coordinator treats a
//! missing checkpoint as best effort: no checkpoint, hence no restore); restore and delete answer 200.

use std::collections::BTreeMap;
use std::sync::{Arc, Mutex};
use warp::Filter;

#[derive(Default)]
pub struct MockState {
    /// live pipelines: (worker, pipeline id) -> name
    pub pipes: BTreeMap<(String, String), String>,
    pub seq: u32,
    pub fail_deploys: bool,
    /// (worker, pipeline id) of pipelines that were deleted or lost in a restart
    pub gone: Vec<(String, String)>,
    /// calls received, in order
    pub calls: Vec<String>,
}

impl MockState {
    /// what worker `w`'s heartbeat reports
    pub fn count(&self, w: &str) -> usize {
        self.pipes.keys().filter(|(x, _)| x == w).count()
    }
    /// the worker process restarted: all its pipelines are gone
    pub fn restart(&mut self, w: &str) {
        let lost: Vec<(String, String)> = self.pipes.keys().filter(|(x, _)| x == w).cloned().collect();
        self.gone.extend(lost);
        self.pipes.retain(|(x, _), _| x != w);
    }
}

type Shared = Arc<Mutex<MockState>>;

struct Server {
    port: u16,
    state: Shared,
}

static POOL: Mutex<Vec<Server>> = Mutex::new(Vec::new());

fn lock(s: &Shared) -> std::sync::MutexGuard<'_, MockState> {
    s.lock().unwrap_or_else(|e| e.into_inner())
}

fn start_server() -> Server {
    let state: Shared = Arc::new(Mutex::new(MockState::default()));
    let rt = tokio::runtime::Builder::new_current_thread().enable_all().build().unwrap_or_else(|e| mc::machinery_error(&format!("mock runtime: {e}")));
    let bound = {
        let _g = rt.enter();
        warp::serve(routes(state.clone())).try_bind_ephemeral(([127, 0, 0, 1], 0))
    };
    let (addr, fut) = bound.unwrap_or_else(|e| mc::machinery_error(&format!("cannot bind loopback mock worker: {e}")));
    std::thread::Builder::new()
        .name("c38-mock-worker".into())
        .spawn(move || rt.block_on(fut))
        .unwrap_or_else(|e| mc::machinery_error(&format!("mock thread: {e}")));
    Server { port: addr.port(), state }
}

fn routes(st: Shared) -> impl Filter<Extract = (impl warp::Reply,), Error = warp::Rejection> + Clone {
    use warp::http::StatusCode;
    let (s1, s2, s3, s4) = (st.clone(), st.clone(), st.clone(), st);
    let deploy = warp::post().and(warp::path!("w" / String / "api" / "v1" / "pipelines")).and(warp::body::json()).map(move |w: String, body: serde_json::Value| {
        let name = body.get("name").and_then(|v| v.as_str()).unwrap_or("").to_string();
        let mut m = lock(&s1);
        if m.fail_deploys {
            m.calls.push(format!("deploy {name} on {w}: 500"));
            return warp::reply::with_status(warp::reply::json(&serde_json::json!({"error": "scripted failure"})), StatusCode::INTERNAL_SERVER_ERROR);
        }
        // the id depends only on (pipeline, worker, how often that pair was deployed), never on the order
        // in which the coordinator walks its hash maps when one operation deploys several pipelines
        m.seq += 1;
        let n = m.pipes.keys().filter(|(x, id)| *x == w && id.starts_with(&format!("{name}@"))).count() + m.gone.iter().filter(|(x, id)| *x == w && id.starts_with(&format!("{name}@"))).count() + 1;
        let id = format!("{name}@{w}.{n}");
        m.pipes.insert((w.clone(), id.clone()), name.clone());
        m.calls.push(format!("deploy {name} on {w}: {id}"));
        warp::reply::with_status(warp::reply::json(&serde_json::json!({"id": id, "name": name, "status": "running"})), StatusCode::OK)
    });
    let checkpoint = warp::post().and(warp::path!("w" / String / "api" / "v1" / "pipelines" / String / "checkpoint")).map(move |w: String, id: String| {
        lock(&s2).calls.push(format!("checkpoint {id} on {w}: 404"));
        warp::reply::with_status(warp::reply::json(&serde_json::json!({"error": "no checkpoint"})), StatusCode::NOT_FOUND)
    });
    let restore = warp::post().and(warp::path!("w" / String / "api" / "v1" / "pipelines" / String / "restore")).map(move |w: String, id: String| {
        lock(&s3).calls.push(format!("restore {id} on {w}"));
        warp::reply::with_status(warp::reply::json(&serde_json::json!({"restored": true})), StatusCode::OK)
    });
    let delete = warp::delete().and(warp::path!("w" / String / "api" / "v1" / "pipelines" / String)).map(move |w: String, id: String| {
        let mut m = lock(&s4);
        if m.pipes.remove(&(w.clone(), id.clone())).is_some() {
            m.gone.push((w.clone(), id.clone()));
        }
        m.calls.push(format!("delete {id} on {w}"));
        warp::reply::with_status(warp::reply::json(&serde_json::json!({"deleted": true})), StatusCode::OK)
    });
    deploy.or(checkpoint).or(restore).or(delete)
}

/// Exclusive use of one mock server for one execution.
pub struct Lease {
    server: Option<Server>,
}

impl Lease {
    pub fn acquire() -> Lease {
        let s = POOL.lock().unwrap_or_else(|e| e.into_inner()).pop();
        let s = s.unwrap_or_else(start_server);
        *lock(&s.state) = MockState::default();
        Lease { server: Some(s) }
    }
    pub fn with<T>(&self, f: impl FnOnce(&mut MockState) -> T) -> T {
        f(&mut lock(&self.server.as_ref().unwrap().state))
    }
    pub fn address(&self, w: &str) -> String {
        format!("http://127.0.0.1:{}/w/{}", self.server.as_ref().unwrap().port, w)
    }
}

impl Drop for Lease {
    fn drop(&mut self) {
        if let Some(s) = self.server.take() {
            POOL.lock().unwrap_or_else(|e| e.into_inner()).push(s);
        }
    }
}
