//! C37 / C38: in-process Raft clusters (see c37.rs, c38.rs).
mod c37;
mod c38;

fn main() {
    let args = mc::parse_args();
    match args.prop.as_str() {
        "C37" => c37::run(&args),
        "C38" => c38::run(&args),
        _ => mc::machinery_error("h_raft2 serves C37 and C38"),
    }
}
