//! C37 / C38: in-process Raft clusters (see c37.rs, c38.rs).
mod c37;

fn main() {
    let args = mc::parse_args();
    match args.prop.as_str() {
        "C37" => c37::run(&args),
        _ => mc::machinery_error("h_raft2 serves C37 (C38 not built yet)"),
    }
}
