//! C32 — coordinator bookkeeping stays consistent under any interleaving (DESIGN.md §3).
//!
//! Technique: breadth-first search over operation histories. A state *is* the history reaching it:
//! for every successor a fresh real `Coordinator` is built and the whole history is replayed through
//! the real public functions, in exactly the phases the HTTP handlers of `api.rs` use:
//!
//!   deploy    `plan_deploy_group` (read lock) · worker calls · `commit_deploy_group` (write lock)
//!   teardown  `plan_teardown_group` · worker calls · `commit_teardown_group`
//!   migrate   `plan_migrate_pipeline` · worker calls · `commit_migrate_pipeline(ok | failed)`
//!   atomic    `register_worker`, `heartbeat`, `deregister_worker`         (one write-lock section)
//!   monolithic (one write-lock section, real HTTP against the loopback mock worker)
//!             `drain_worker`, `rebalance`, and the health loop of `varpulis coordinator`
//!             (`health_sweep` → `handle_worker_failure` per newly unhealthy worker →
//!             if `pending_rebalance`: `reconcile_placements` + `rebalance`)
//!
//! A phased operation is two steps: step 1 = handler phases 1+2 (plan + worker calls, whose
//! outcomes are part of the step), step 2 = phase 3 (commit). Up to two phased operations may be
//! between their two steps at any time; every other step may be scheduled in between. None of the
//! handlers has a guard in front of the coordinator call, so an operation is generated whenever the
//! coordinator call itself does not return an error (an error response leaves the state unchanged
//! and is pruned as a non-transition).
//!
//! ## Why states with equal canonical keys have the same futures
//!
//! The key (`World::key`) contains every field the transition functions read:
//!   * `register_worker`: `pipeline_groups.is_empty()`                       → groups are in the key
//!   * `heartbeat` / `deregister_worker`: worker presence, `status`          → workers
//!   * `plan_deploy_group`: worker `status`, `capacity.pipelines_running` (`max_pipelines`,
//!     `cpu_cores`, address and api key are constants per worker), `connectors` (always empty).
//!     The hidden round-robin counter of the placement strategy is only consulted for unpinned or
//!     fallback placements, and those are generated only when exactly one worker is available, so
//!     the counter never influences a result.
//!   * `commit_deploy_group`: the plan and the outcomes (pending phase, in the key), worker presence
//!   * `plan_teardown_group` / `plan_migrate_pipeline`: group presence, its spec (spec index), the
//!     placement (worker, status, pipeline id → canonical id, see below), target presence + status
//!   * `commit_teardown_group` / `commit_migrate_pipeline`: the plan, group presence, workers'
//!     `assigned_pipelines` (order-insensitive: only `push` and `retain`) and `pipelines_running`.
//!     `commit_migrate_pipeline` also reads `placement.epoch`, but only to write `epoch + 1`; no
//!     transition function branches on an epoch and the invariant does not mention it, so epochs are
//!     left out of the key (states that differ only in epochs are bisimilar for this property).
//!   * `health_sweep`: `status`, `last_heartbeat`. Time only passes inside a `Tick{stale: w}` step
//!     (back-dates w, then runs the loop), and a worker can only become Ready again through
//!     `register_worker` / `heartbeat`, both of which reset `last_heartbeat`; so at step boundaries
//!     no Ready worker is stale and `last_heartbeat` carries no information.
//!   * `handle_worker_failure` / `drain_worker` / `migrate_pipeline`: placements by worker, worker
//!     availability and load, source worker status, group spec
//!   * `reconcile_placements`: group status, placement status/worker, worker availability,
//!     `assigned_pipelines.contains`;  `rebalance`: `pending_rebalance`, availability, loads,
//!     placements, affinity of the spec, `worker_metrics` (always empty)
//!   * mock worker: which pipeline ids are alive on which worker (what heartbeats report, what a
//!     delete removes). Pipeline ids are renamed canonically (order of first reference from
//!     placements, then pending phases); unreferenced live pipelines are counted per worker.
//!   * harness bookkeeping that decides enabledness: number of deploys used, ordinal of each group.
//! Written-only fields (`active_migrations`, `last_health_sweep`, metrics, `replica_groups`,
//! `events_processed`) are not in the key. Pending phases are compared as a sorted list: two states
//! that differ only in the order in which the pending plans were taken have the same futures up to
//! renaming of the slot index used by the `Commit` operation.
//!
//! ## Quiescence
//!
//! The invariant is evaluated in states with no phase pending. `pending_rebalance` is treated as a
//! pending phase too: it is the coordinator's own flag for "the health loop still has to reconcile
//! placements / rebalance" (set by `register_worker`, e.g. after a worker restart wiped its
//! bookkeeping, and cleared by `rebalance`). The evidence reports how many explored states were
//! inconsistent while that flag was set.
//!
//! ## Depth bound
//!
//! Depth = number of steps. A state reached after d steps with k phased operations pending (plus one
//! if `pending_rebalance` is set) needs at least that many further steps before the invariant is
//! evaluated again; if d + k (+1) exceeds the bound, no checked state lies behind it within the
//! bound and it is not generated. So the space covered is: every history of at most `depth` steps
//! that ends in a quiescent state (replayed and checked), and every prefix of such a history.
//!
//! ## Work that is skipped without a replay (exact, never changes the set of transitions)
//!
//!   * candidates the coordinator is certain to reject given the worker statuses reached by the
//!     explored prefix (operation on an unregistered worker, deploy with no Ready worker);
//!   * scripted-failure variants of a monolithic operation whose failing names are disjoint from the
//!     names that received a deploy call in the failure-free variant on the same prefix (the first
//!     differing call would have to be one of those, so the run is identical to the failure-free one).
//!
//! ## Robustness against repairs of the coordinator
//!
//! The harness predicts the number of worker calls of each monolithic operation from the pinned
//! tree's selection logic to detect lost loopback calls. If the count differs while a probe through
//! the coordinator's own HTTP client shows the transport healthy, the operation is explored as
//! executed and counted (`operations_whose_worker_call_count_differs_...`), so a repaired tree does
//! not turn into a machinery error. On a scratch copy of the crate with the proposed repairs
//! (`proposed/coordinator_C32.diff`) the quick tier reports no violation.

use crate::mock::{self, Call, SlotGuard};
use crate::oracle::{self, Clause, Obs, Placement};
use mc::{Acc, Args, Deadline, Report};
use serde::{Deserialize, Serialize};
use serde_json::{json, Value};
use std::collections::{BTreeMap, BTreeSet, HashMap, HashSet};
use std::sync::atomic::{AtomicU64, Ordering};
use std::sync::Mutex;
use std::time::{Duration, Instant};
use varpulis_cluster::coordinator::{Coordinator, DeployGroupPlan, DeployResponse, DeployTaskResult, MigratePipelinePlan, TeardownPlan};
use varpulis_cluster::{ClusterError, GroupStatus, HeartbeatRequest, MigrationReason, PipelineDeploymentStatus, PipelineGroupSpec, PipelinePlacement, WorkerCapacity, WorkerId, WorkerNode, WorkerStatus};

// ---------------------------------------------------------------------------------------------
// Configurations (the finite spaces that are explored)

pub struct PipeDef {
    name: &'static str,
    pin: Option<u8>,
    replicas: usize,
}
pub struct SpecDef {
    group: &'static str,
    pipes: Vec<PipeDef>,
}
impl SpecDef {
    /// (replica name, pipe index) in the order `plan_deploy_group` emits its tasks
    fn tasks(&self) -> Vec<(String, usize)> {
        let mut v = Vec::new();
        for (i, p) in self.pipes.iter().enumerate() {
            let n = p.replicas.max(1);
            for r in 0..n {
                v.push((if n > 1 { format!("{}#{}", p.name, r) } else { p.name.to_string() }, i));
            }
        }
        v
    }
    fn render(&self) -> String {
        let ps: Vec<String> = self.pipes.iter().map(|p| format!("{}{}{}", p.name, if p.replicas > 1 { format!("x{}", p.replicas) } else { String::new() }, p.pin.map(|w| format!("@w{w}")).unwrap_or_else(|| "@any".into()))).collect();
        format!("{}{{{}}}", self.group, ps.join(","))
    }
}
pub struct Cfg {
    name: &'static str,
    workers: u8,
    /// workers registered (Ready, empty) in the initial state
    initial: Vec<u8>,
    specs: Vec<SpecDef>,
    max_deploys: usize,
    depth: usize,
    /// share of the tier's wall budget
    budget_s: u64,
}
impl Cfg {
    fn names(&self) -> Vec<String> {
        let mut v: Vec<String> = Vec::new();
        for s in &self.specs {
            for (n, _) in s.tasks() {
                if !v.contains(&n) {
                    v.push(n);
                }
            }
        }
        v
    }
    fn has_unpinned(&self) -> bool {
        self.specs.iter().any(|s| s.pipes.iter().any(|p| p.pin.is_none()))
    }
    fn describe(&self) -> Value {
        json!({"config": self.name, "workers": self.workers, "initially_registered": self.initial, "specs": self.specs.iter().map(|s| s.render()).collect::<Vec<_>>(), "max_deploys_per_history": self.max_deploys, "max_depth": self.depth})
    }
}
fn pd(name: &'static str, pin: u8) -> PipeDef {
    PipeDef { name, pin: Some(pin), replicas: 1 }
}
fn sd(group: &'static str, pipes: Vec<PipeDef>) -> SpecDef {
    SpecDef { group, pipes }
}

/// `g1{r@w0}`: a second group on worker 0 whose pipeline name does NOT collide with g0's (added after
/// seeded change C32, whose effect on same-named pipelines is indistinguishable from known family D).
fn configs(tier: mc::Tier) -> Vec<Cfg> {
    let w2_specs = || vec![sd("g0", vec![pd("p", 0)]), sd("g0", vec![pd("p", 0), pd("q", 1)]), sd("g1", vec![pd("p", 0)]), sd("g1", vec![pd("p", 1)]), sd("g1", vec![pd("r", 0)])];
    let w3 = |depth, budget_s| Cfg { name: "w3", workers: 3, initial: vec![0, 1, 2], specs: vec![sd("g0", vec![pd("p", 0)]), sd("g1", vec![pd("p", 0)]), sd("g0", vec![pd("p", 0), pd("q", 1)])], max_deploys: 2, depth, budget_s };
    let reb = |depth, budget_s| Cfg { name: "rebalance", workers: 2, initial: vec![0], specs: vec![sd("g0", vec![pd("p", 0), pd("q", 0)]), sd("g1", vec![PipeDef { name: "u", pin: None, replicas: 1 }])], max_deploys: 2, depth, budget_s };
    let rep = |depth, budget_s| Cfg { name: "replicas", workers: 2, initial: vec![0, 1], specs: vec![sd("g0", vec![PipeDef { name: "p", pin: Some(0), replicas: 2 }])], max_deploys: 2, depth, budget_s };
    match tier {
        mc::Tier::Quick => vec![Cfg { name: "w2q", workers: 2, initial: vec![0, 1], specs: vec![sd("g0", vec![pd("p", 0), pd("q", 1)]), sd("g1", vec![pd("p", 0)]), sd("g1", vec![pd("r", 0)])], max_deploys: 2, depth: 6, budget_s: 34 }],
        // cheap configurations first; the last one may use whatever is left of the tier's wall budget
        mc::Tier::Thorough => vec![reb(8, 300), rep(7, 100), w3(7, 280), Cfg { name: "w2", workers: 2, initial: vec![0, 1], specs: w2_specs(), max_deploys: 2, depth: 7, budget_s: 1100 }],
    }
}
fn all_configs() -> Vec<Cfg> {
    let mut v = configs(mc::Tier::Thorough);
    v.extend(configs(mc::Tier::Quick));
    v
}

// ---------------------------------------------------------------------------------------------
// Steps

/// One step of a history. References to earlier steps use their `id` (stable under removal of other
/// steps, which is what minimisation needs).
#[derive(Clone, Debug, PartialEq, Eq, Hash, Serialize, Deserialize)]
#[serde(tag = "op", rename_all = "snake_case")]
pub enum Step {
    /// handler phases 1+2 of POST /pipeline-groups; bit i of `fail_mask` = the i-th worker deploy call fails
    DeployPlan { spec: usize, fail_mask: u8 },
    /// phases 1+2 of DELETE /pipeline-groups/{id}; `group` = id of the DeployPlan step that created it
    TeardownPlan { group: u32 },
    /// phases 1+2 of POST /pipelines/{group}/{name}/migrate; `ok` = outcome of the deploy call on the target
    MigratePlan { group: u32, name: String, target: u8, ok: bool },
    /// phase 3 (commit under the write lock) of the phased operation whose first step is `plan`
    Commit { plan: u32 },
    /// worker process (re)starts and registers (POST /workers/register)
    Register { w: u8 },
    /// heartbeat reporting the mock worker's real pipeline count
    Heartbeat { w: u8 },
    /// DELETE /workers/{id}
    Deregister { w: u8 },
    /// POST /workers/{id}/drain; deploy calls for the named pipelines fail
    Drain { w: u8, fail: Vec<String> },
    /// one iteration of the coordinator's health loop; `stale` = this worker missed its heartbeats
    Tick { stale: Option<u8>, fail: Vec<String> },
    /// POST /rebalance
    Rebalance { fail: Vec<String> },
}
#[derive(Clone, Debug, PartialEq, Eq, Hash, Serialize, Deserialize)]
pub struct LStep {
    pub id: u32,
    pub step: Step,
}

/// Alphabet entry: like `Step`, but with positional references that are resolved against the prefix.
#[derive(Clone, Debug)]
enum AOp {
    DeployPlan { spec: usize, fail_mask: u8 },
    Commit { slot: usize },
    TeardownPlan { ord: usize },
    MigratePlan { ord: usize, name: String, target: u8, ok: bool },
    Atomic(Step),
}

fn subsets_of(names: &[String]) -> Vec<Vec<String>> {
    let mut v: Vec<Vec<String>> = mc::subsets(names.len()).map(|m| mc::bits(m, names.len()).into_iter().map(|i| names[i].clone()).collect()).collect();
    v.sort_by_key(|s: &Vec<String>| s.len());
    v
}

/// Simplest first: all-success outcomes before failures, plain operations before scripted ones.
fn alphabet(cfg: &Cfg) -> Vec<AOp> {
    let mut a = Vec::new();
    let names = cfg.names();
    let masks_sorted = |n: usize| -> Vec<u8> {
        let mut m: Vec<u8> = (0..(1u32 << n)).map(|x| x as u8).collect();
        m.sort_by_key(|x| x.count_ones());
        m
    };
    for (si, s) in cfg.specs.iter().enumerate() {
        for m in masks_sorted(s.tasks().len()) {
            a.push(AOp::DeployPlan { spec: si, fail_mask: m });
        }
    }
    for slot in 0..2 {
        a.push(AOp::Commit { slot });
    }
    for ord in 0..cfg.max_deploys {
        a.push(AOp::TeardownPlan { ord });
    }
    for ok in [true, false] {
        for ord in 0..cfg.max_deploys {
            for name in &names {
                for target in 0..cfg.workers {
                    a.push(AOp::MigratePlan { ord, name: name.clone(), target, ok });
                }
            }
        }
    }
    for w in 0..cfg.workers {
        a.push(AOp::Atomic(Step::Deregister { w }));
    }
    for w in 0..cfg.workers {
        a.push(AOp::Atomic(Step::Heartbeat { w }));
    }
    for w in 0..cfg.workers {
        a.push(AOp::Atomic(Step::Register { w }));
    }
    let fails = subsets_of(&names);
    for f in &fails {
        a.push(AOp::Atomic(Step::Tick { stale: None, fail: f.clone() }));
    }
    for f in &fails {
        for w in 0..cfg.workers {
            a.push(AOp::Atomic(Step::Drain { w, fail: f.clone() }));
        }
    }
    for f in &fails {
        for w in 0..cfg.workers {
            a.push(AOp::Atomic(Step::Tick { stale: Some(w), fail: f.clone() }));
        }
    }
    for f in &fails {
        // without unpinned pipelines `rebalance` never moves anything, so no deploy call can fail
        if f.is_empty() || cfg.has_unpinned() {
            a.push(AOp::Atomic(Step::Rebalance { fail: f.clone() }));
        }
    }
    a
}

/// Resolve positional references. `None` = statically not enabled (no replay needed): a third
/// concurrent phased operation, a commit of an empty slot, a reference to a group that was never
/// committed or is already torn down, a pipeline name the group does not have, too many deploys.
fn resolve(cfg: &Cfg, alpha: &[AOp], hist: &[usize]) -> Option<Vec<LStep>> {
    resolve_p(cfg, alpha, hist).map(|(s, _)| s)
}
/// also returns the number of phased operations still pending after the history
fn resolve_p(cfg: &Cfg, alpha: &[AOp], hist: &[usize]) -> Option<(Vec<LStep>, usize)> {
    let mut out: Vec<LStep> = Vec::with_capacity(hist.len());
    let mut deploys: Vec<(u32, usize, bool, bool)> = Vec::new(); // (id, spec, committed, torn down)
    let mut pending: Vec<u32> = Vec::new();
    for (i, &k) in hist.iter().enumerate() {
        let id = i as u32;
        let step = match &alpha[k] {
            AOp::DeployPlan { spec, fail_mask } => {
                if pending.len() >= 2 || deploys.len() >= cfg.max_deploys {
                    return None;
                }
                deploys.push((id, *spec, false, false));
                pending.push(id);
                Step::DeployPlan { spec: *spec, fail_mask: *fail_mask }
            }
            AOp::TeardownPlan { ord } => {
                let d = deploys.get(*ord)?;
                if pending.len() >= 2 || !d.2 || d.3 {
                    return None;
                }
                pending.push(id);
                Step::TeardownPlan { group: d.0 }
            }
            AOp::MigratePlan { ord, name, target, ok } => {
                let d = deploys.get(*ord)?;
                if pending.len() >= 2 || !d.2 || d.3 || !cfg.specs[d.1].tasks().iter().any(|(n, _)| n == name) {
                    return None;
                }
                pending.push(id);
                Step::MigratePlan { group: d.0, name: name.clone(), target: *target, ok: *ok }
            }
            AOp::Commit { slot } => {
                if *slot >= pending.len() {
                    return None;
                }
                let plan = pending.remove(*slot);
                match &out[plan as usize].step {
                    Step::DeployPlan { .. } => deploys.iter_mut().find(|d| d.0 == plan)?.2 = true,
                    Step::TeardownPlan { group } => deploys.iter_mut().find(|d| d.0 == *group)?.3 = true,
                    _ => {}
                }
                Step::Commit { plan }
            }
            AOp::Atomic(s) => s.clone(),
        };
        out.push(LStep { id, step });
    }
    let k = pending.len();
    Some((out, k))
}

fn render(cfg: &Cfg, s: &LStep) -> String {
    let fl = |f: &Vec<String>| if f.is_empty() { String::new() } else { format!(" [deploy calls for {f:?} fail]") };
    let body = match &s.step {
        Step::DeployPlan { spec, fail_mask } => {
            let sp = &cfg.specs[*spec];
            let outs: Vec<String> = sp.tasks().iter().enumerate().map(|(i, (n, _))| format!("{n}:{}", if fail_mask >> i & 1 == 1 { "FAIL" } else { "ok" })).collect();
            format!("deploy {} — plan + worker calls [{}]", sp.render(), outs.join(","))
        }
        Step::TeardownPlan { group } => format!("teardown group of #{group} — plan + worker calls"),
        Step::MigratePlan { group, name, target, ok } => format!("migrate '{name}' of group of #{group} to w{target} — plan + worker calls [{}]", if *ok { "ok" } else { "FAIL" }),
        Step::Commit { plan } => format!("commit #{plan}"),
        Step::Register { w } => format!("worker w{w} (re)starts and registers"),
        Step::Heartbeat { w } => format!("heartbeat w{w}"),
        Step::Deregister { w } => format!("deregister w{w}"),
        Step::Drain { w, fail } => format!("drain w{w}{}", fl(fail)),
        Step::Tick { stale, fail } => format!("health-loop tick{}{}", stale.map(|w| format!(" (w{w} missed its heartbeats)")).unwrap_or_default(), fl(fail)),
        Step::Rebalance { fail } => format!("rebalance{}", fl(fail)),
    };
    format!("#{} {}", s.id, body)
}

// ---------------------------------------------------------------------------------------------
// World = one fresh real coordinator + its mock workers + the harness-side handles

enum Pending {
    Deploy { plan: DeployGroupPlan, spec: usize, ids: Vec<Option<String>> },
    Teardown { plan: TeardownPlan, group: u32 },
    Migrate { plan: MigratePipelinePlan, group: u32, new_id: Option<String> },
}

/// Why a step is not a transition.
#[derive(Clone, Copy, Debug, PartialEq, Eq)]
enum Dis {
    /// the handler answers with an error and leaves the state unchanged
    Rejected,
    /// the implementation's choice would depend on HashMap iteration order (not explored, counted)
    Ambiguous,
    /// a scripted failure was never consumed: same transition as the variant without it
    Redundant,
}

pub struct World<'c> {
    cfg: &'c Cfg,
    coord: Coordinator,
    slot: SlotGuard,
    pending: BTreeMap<u32, Pending>,
    /// (id, spec) of every DeployPlan step so far
    deploys: Vec<(u32, usize)>,
    /// DeployPlan id -> group id, once committed
    groups: BTreeMap<u32, String>,
    /// operation id (first step) -> descriptor used in signatures (attributes of the case)
    desc: BTreeMap<u32, String>,
    /// minimisation only: a scripted failure that is never consumed (or a `stale` worker that is not
    /// Ready) does not disable the step — it is simply without effect, and a later reduction drops it
    relaxed: bool,
}

use crate::mock::block_on;

fn wid(w: u8) -> WorkerId {
    WorkerId(format!("w{w}"))
}
fn widx(id: &WorkerId) -> u8 {
    id.0[1..].parse().unwrap_or_else(|_| mc::machinery_error(&format!("unexpected worker id {}", id.0)))
}
fn status_code(s: &WorkerStatus) -> u8 {
    match s {
        WorkerStatus::Registering => 0,
        WorkerStatus::Ready => 1,
        WorkerStatus::Unhealthy => 2,
        WorkerStatus::Draining => 3,
    }
}
fn dep_code(s: &PipelineDeploymentStatus) -> u8 {
    match s {
        PipelineDeploymentStatus::Deploying => 0,
        PipelineDeploymentStatus::Running => 1,
        PipelineDeploymentStatus::Failed => 2,
        PipelineDeploymentStatus::Stopped => 3,
    }
}
fn group_code(s: &GroupStatus) -> u8 {
    match s {
        GroupStatus::Deploying => 0,
        GroupStatus::Running => 1,
        GroupStatus::PartiallyRunning => 2,
        GroupStatus::Failed => 3,
        GroupStatus::TornDown => 4,
    }
}
/// number of monolithic operations whose worker-call count differed from what the harness's mirror of
/// the pinned tree's selection logic predicts, while the transport was demonstrably healthy
static CALL_MISMATCH: AtomicU64 = AtomicU64::new(0);

fn transport_error(what: &str) -> ! {
    mc::machinery_error(&format!("mock worker transport: {what} (loopback HTTP call lost or unexpected) — no verdict"))
}

#[derive(Clone, Debug, PartialEq, Eq, Hash, PartialOrd, Ord)]
enum IdRef {
    Empty,
    Id { canon: u8, alive: bool },
}
#[derive(Clone, Debug, PartialEq, Eq, Hash, PartialOrd, Ord)]
enum PKey {
    Deploy { ord: u8, spec: u8, workers: Vec<u8>, ids: Vec<IdRef> },
    Teardown { ord: u8, tasks: Vec<(String, u8, IdRef)> },
    Migrate { ord: u8, name: String, src: u8, tgt: u8, dep_status: u8, old: IdRef, new: IdRef },
}
#[derive(Clone, Debug, PartialEq, Eq, Hash)]
pub struct Key {
    /// (worker, status, sorted assigned, pipelines_running)
    workers: Vec<(u8, u8, Vec<String>, usize)>,
    /// per worker index: (live pipelines on the mock worker, of which referenced by nobody)
    mock: Vec<(usize, usize)>,
    /// (ordinal, spec, group status, placements sorted by name: (name, worker, status, id))
    groups: Vec<(u8, u8, u8, Vec<(String, u8, u8, IdRef)>)>,
    pending: Vec<PKey>,
    pending_rebalance: bool,
    deploys_used: u8,
}

impl<'c> World<'c> {
    fn new(cfg: &'c Cfg) -> World<'c> {
        let mut w = World { cfg, coord: Coordinator::new(), slot: SlotGuard::acquire(), pending: BTreeMap::new(), deploys: Vec::new(), groups: BTreeMap::new(), desc: BTreeMap::new(), relaxed: false };
        for i in cfg.initial.clone() {
            let node = w.node(i);
            w.coord.register_worker(node);
        }
        w
    }

    /// exactly the node `handle_register_worker` builds from a `RegisterWorkerRequest`
    fn node(&self, w: u8) -> WorkerNode {
        WorkerNode { id: wid(w), address: self.slot.address(w), api_key: "k".into(), status: WorkerStatus::Registering, capacity: WorkerCapacity { cpu_cores: 4, pipelines_running: 0, max_pipelines: 100 }, last_heartbeat: Instant::now(), assigned_pipelines: Vec::new(), events_processed: 0 }
    }

    fn group_spec(&self, si: usize) -> PipelineGroupSpec {
        let s = &self.cfg.specs[si];
        PipelineGroupSpec { name: s.group.to_string(), pipelines: s.pipes.iter().map(|p| PipelinePlacement { name: p.name.to_string(), source: "stream S = A\n".to_string(), worker_affinity: p.pin.map(|w| format!("w{w}")), replicas: p.replicas, partition_key: None }).collect(), routes: Vec::new() }
    }

    fn ord_of(&self, deploy_id: u32) -> u8 {
        self.deploys.iter().position(|(id, _)| *id == deploy_id).map(|p| p as u8).unwrap_or(u8::MAX)
    }

    fn n_available(&self) -> usize {
        self.coord.workers.values().filter(|w| w.is_available()).count()
    }

    /// number of placements (any status) naming the worker — what drain / failover iterate over
    fn placements_on(&self, id: &WorkerId) -> usize {
        self.coord.pipeline_groups.values().map(|g| g.placements.values().filter(|d| d.worker_id == *id).count()).sum()
    }

    /// another group's Running placement with the same replica name on the same worker
    fn dup_on(&self, worker: &WorkerId, name: &str, except_gid: &str) -> bool {
        self.coord.pipeline_groups.iter().any(|(gid, g)| gid != except_gid && g.placements.get(name).map(|d| d.worker_id == *worker && d.status == PipelineDeploymentStatus::Running).unwrap_or(false))
    }

    /// sorted loads of the workers drain / failover may pick (available, not the drained one)
    fn candidate_loads(&self, excl: &WorkerId) -> Vec<usize> {
        let mut v: Vec<usize> = self.coord.workers.values().filter(|w| w.is_available() && w.id != *excl).map(|w| w.capacity.pipelines_running).collect();
        v.sort();
        v
    }

    /// `LeastLoadedPlacement` breaks ties by HashMap order (all mock workers have equal cores): the
    /// target is determined only while the two least loaded candidates cannot tie during the op.
    fn target_ambiguous(&self, excl: &WorkerId) -> bool {
        let n = self.placements_on(excl);
        let l = self.candidate_loads(excl);
        n > 0 && l.len() >= 2 && l[1] - l[0] < n
    }

    /// deploy calls `reconcile_placements` is going to make (mirror of its selection loop)
    fn reconcile_expected(&self) -> usize {
        let mut n = 0;
        for g in self.coord.pipeline_groups.values() {
            if g.status != GroupStatus::Running {
                continue;
            }
            for (pname, dep) in &g.placements {
                if dep.status != PipelineDeploymentStatus::Running {
                    continue;
                }
                match self.coord.workers.get(&dep.worker_id) {
                    Some(w) if w.is_available() => {
                        if !w.assigned_pipelines.contains(pname) {
                            n += 1;
                        }
                    }
                    _ => {}
                }
            }
        }
        n
    }

    /// (number of migrations `rebalance` will start, whether its choices depend on map order)
    fn rebalance_preview(&self) -> (usize, bool) {
        let mut loads: BTreeMap<u8, usize> = self.coord.workers.values().filter(|w| w.is_available()).map(|w| (widx(&w.id), w.capacity.pipelines_running)).collect();
        if loads.len() < 2 {
            return (0, false);
        }
        let total: usize = loads.values().sum();
        if total == 0 {
            return (0, false);
        }
        let avg = total as f64 / loads.len() as f64;
        let (mut moves, mut ambiguous, mut overloaded) = (0, false, 0);
        for (w, load) in loads.clone() {
            if load as f64 <= avg + 1.0 {
                continue;
            }
            let excess = load - avg.ceil() as usize;
            if excess == 0 {
                continue;
            }
            let mut movable = 0;
            for g in self.coord.pipeline_groups.values() {
                for (pname, dep) in &g.placements {
                    let logical = pname.rsplit_once('#').map(|(b, _)| b).unwrap_or(pname);
                    if dep.worker_id == wid(w) && !g.spec.pipelines.iter().any(|p| p.name == logical && p.worker_affinity.is_some()) {
                        movable += 1;
                    }
                }
            }
            if movable == 0 {
                continue;
            }
            overloaded += 1;
            if movable > excess {
                ambiguous = true;
            }
            for _ in 0..movable.min(excess) {
                let others: Vec<(u8, usize)> = loads.iter().filter(|(x, _)| **x != w).map(|(x, l)| (*x, *l)).collect();
                let min = others.iter().map(|(_, l)| *l).min().unwrap_or(0);
                if others.iter().filter(|(_, l)| *l == min).count() > 1 {
                    ambiguous = true;
                }
                if let Some((t, _)) = others.iter().find(|(_, l)| *l == min) {
                    *loads.get_mut(t).unwrap() += 1;
                    *loads.get_mut(&w).unwrap() -= 1;
                    moves += 1;
                }
            }
        }
        (moves, ambiguous || overloaded > 1)
    }

    /// The coordinator made a different number of worker calls than predicted. Either calls were lost
    /// in transport (no verdict possible), or the coordinator's selection logic is not the pinned
    /// tree's any more (e.g. after a repair): a probe through the coordinator's own HTTP client
    /// decides. In the second case the run goes on (only what the mock really answered counts) and
    /// the evidence reports the number of such operations.
    fn call_mismatch(&self, what: String) {
        let url = format!("{}/api/v1/pipelines/probe/checkpoint", self.slot.address(0));
        let healthy = block_on(async { self.coord.http_client().post(&url).send().await.is_ok() });
        if !healthy {
            transport_error(&what);
        }
        CALL_MISMATCH.fetch_add(1, Ordering::Relaxed);
    }

    /// a migration that failed because the request itself failed (not a scripted HTTP 500) = transport loss
    fn check_failure_reasons(&self) {
        for t in self.coord.active_migrations.values() {
            if let varpulis_cluster::MigrationStatus::Failed(r) = &t.status {
                if r.contains("request failed") {
                    transport_error(&format!("migration of '{}' failed with: {r}", t.pipeline_name));
                }
            }
        }
    }

    fn script(&self, fail: &[String]) {
        self.slot.with(|m| {
            m.fail_names = fail.iter().cloned().collect();
            m.log.clear();
        });
    }
    fn unused_failure(&self, fail: &[String]) -> bool {
        !self.relaxed && self.slot.with(|m| fail.iter().any(|n| !m.log.iter().any(|c| matches!(c, Call::Deploy { name, ok: false, .. } if name == n))))
    }
    fn deploy_calls(&self, from: usize) -> (usize, usize) {
        self.slot.with(|m| m.deploys(from))
    }
    fn log_len(&self) -> usize {
        self.slot.with(|m| m.log.len())
    }

    /// Apply one step through the real coordinator functions.
    fn apply(&mut self, ls: &LStep) -> Result<(), Dis> {
        match &ls.step {
            Step::DeployPlan { spec, fail_mask } => {
                let gs = self.group_spec(*spec);
                let plan = self.coord.plan_deploy_group(&gs).map_err(|_| Dis::Rejected)?;
                let sdef = &self.cfg.specs[*spec];
                for t in &plan.tasks {
                    let pin = sdef.pipes.iter().find(|p| p.name == t.pipeline_name).and_then(|p| p.pin);
                    if pin.map(wid).as_ref() != Some(&t.worker_id) {
                        // unpinned, or the pinned worker is unavailable: the strategy picks by map order
                        if self.n_available() != 1 {
                            return Err(Dis::Ambiguous);
                        }
                    }
                }
                // phase 2 (worker calls) with the outcomes chosen by this step
                let ids: Vec<Option<String>> = plan.tasks.iter().enumerate().map(|(i, t)| self.slot.with(|m| m.deploy(widx(&t.worker_id), &t.replica_name, fail_mask >> i & 1 == 0))).collect();
                let n_ok = ids.iter().filter(|x| x.is_some()).count();
                let class = if n_ok == ids.len() { "deploy_ok" } else if n_ok == 0 { "deploy_fail" } else { "deploy_partial" };
                self.desc.insert(ls.id, class.to_string());
                self.deploys.push((ls.id, *spec));
                self.pending.insert(ls.id, Pending::Deploy { plan, spec: *spec, ids });
                Ok(())
            }
            Step::TeardownPlan { group } => {
                let gid = self.groups.get(group).ok_or(Dis::Rejected)?.clone();
                let plan = self.coord.plan_teardown_group(&gid).map_err(|_| Dis::Rejected)?;
                for (_, dep) in &plan.tasks {
                    self.slot.with(|m| m.delete(mock::worker_of_address(&dep.worker_address), &dep.pipeline_id));
                }
                self.desc.insert(ls.id, "teardown".into());
                self.pending.insert(ls.id, Pending::Teardown { plan, group: *group });
                Ok(())
            }
            Step::MigratePlan { group, name, target, ok } => {
                let gid = self.groups.get(group).ok_or(Dis::Rejected)?.clone();
                let plan = self.coord.plan_migrate_pipeline(name, &gid, &wid(*target), MigrationReason::Manual).map_err(|_| Dis::Rejected)?;
                let source_alive = self.coord.workers.get(&plan.source_worker_id).map(|w| w.status != WorkerStatus::Unhealthy).unwrap_or(false);
                // phase 2 = execute_migrate_plan: checkpoint (best effort), deploy on target (decides), restore, delete on source
                let new_id = self.slot.with(|m| m.deploy(*target, name, *ok));
                if new_id.is_some() && source_alive && !plan.deployment.pipeline_id.is_empty() {
                    self.slot.with(|m| m.delete(mock::worker_of_address(&plan.deployment.worker_address), &plan.deployment.pipeline_id));
                }
                let mut flags = Vec::new();
                if plan.source_worker_id == plan.target_worker_id {
                    flags.push("to_self");
                }
                if plan.deployment.status != PipelineDeploymentStatus::Running {
                    flags.push("of_failed");
                }
                self.desc.insert(ls.id, format!("migrate_{}{}", if *ok { "ok" } else { "fail" }, if flags.is_empty() { String::new() } else { format!("[{}]", flags.join(",")) }));
                self.pending.insert(ls.id, Pending::Migrate { plan, group: *group, new_id });
                Ok(())
            }
            Step::Commit { plan } => {
                match self.pending.remove(plan).ok_or(Dis::Rejected)? {
                    Pending::Deploy { plan: dplan, ids, .. } => {
                        let results: Vec<DeployTaskResult> = dplan
                            .tasks
                            .iter()
                            .zip(ids)
                            .map(|(t, id)| DeployTaskResult {
                                replica_name: t.replica_name.clone(),
                                pipeline_name: t.pipeline_name.clone(),
                                worker_id: t.worker_id.clone(),
                                worker_address: t.worker_address.clone(),
                                worker_api_key: t.worker_api_key.clone(),
                                replica_count: t.replica_count,
                                outcome: match id {
                                    Some(id) => Ok(DeployResponse { id, name: t.replica_name.clone(), status: "running".into() }),
                                    None => Err("HTTP 500 Internal Server Error - scripted failure".into()),
                                },
                            })
                            .collect();
                        let gid = self.coord.commit_deploy_group(dplan, results).map_err(|_| Dis::Rejected)?;
                        self.groups.insert(*plan, gid);
                    }
                    Pending::Teardown { plan: tplan, .. } => {
                        if tplan.tasks.iter().any(|(n, d)| self.dup_on(&d.worker_id, n, &tplan.group_id)) {
                            self.desc.insert(*plan, "teardown[same_name_in_other_group]".into());
                        }
                        self.coord.commit_teardown_group(&tplan);
                    }
                    Pending::Migrate { plan: mplan, new_id, .. } => match new_id {
                        Some(id) => {
                            if self.dup_on(&mplan.source_worker_id, &mplan.pipeline_name, &mplan.group_id) {
                                if let Some(d) = self.desc.get_mut(plan) {
                                    d.push_str("[same_name_in_other_group]");
                                }
                            }
                            self.coord.commit_migrate_pipeline(&mplan, &id, true, None);
                        }
                        None => {
                            self.coord.commit_migrate_pipeline(&mplan, "", false, Some("Deploy to target failed: scripted failure".into()));
                        }
                    },
                }
                Ok(())
            }
            Step::Register { w } => {
                let id = wid(*w);
                let was = self.coord.workers.contains_key(&id);
                let loaded = self.coord.pipeline_groups.values().any(|g| g.placements.values().any(|d| d.worker_id == id && d.status == PipelineDeploymentStatus::Running));
                self.slot.with(|m| m.restart(*w));
                let node = self.node(*w);
                self.coord.register_worker(node);
                self.desc.insert(ls.id, if was && loaded { "reregister_loaded" } else { "register" }.into());
                Ok(())
            }
            Step::Heartbeat { w } => {
                let n = self.slot.with(|m| m.count(*w));
                self.coord.heartbeat(&wid(*w), &HeartbeatRequest { events_processed: 0, pipelines_running: n, pipeline_metrics: Vec::new() }).map_err(|_| Dis::Rejected)?;
                self.desc.insert(ls.id, "heartbeat".into());
                Ok(())
            }
            Step::Deregister { w } => {
                self.coord.deregister_worker(&wid(*w)).map_err(|_| Dis::Rejected)?;
                self.desc.insert(ls.id, "deregister".into());
                Ok(())
            }
            Step::Drain { w, fail } => {
                let id = wid(*w);
                let noop = match self.coord.workers.get(&id) {
                    None => return Err(Dis::Rejected),
                    Some(n) => n.status == WorkerStatus::Draining,
                };
                let n_aff = if noop { 0 } else { self.placements_on(&id) };
                if !noop && self.target_ambiguous(&id) {
                    return Err(Dis::Ambiguous);
                }
                // marking the worker Draining cannot change who is a candidate (it is excluded anyway)
                let has_target = !self.candidate_loads(&id).is_empty();
                self.script(fail);
                let res = block_on(self.coord.drain_worker(&id, None));
                let (ok, failed) = self.deploy_calls(0);
                self.check_failure_reasons();
                match res {
                    // unknown worker: rejected before anything changed
                    Err(ClusterError::WorkerNotFound(_)) => return Err(Dis::Rejected),
                    Ok(ids) if ids.len() != ok => transport_error(&format!("drain_worker: {} migrations reported, mock saw {ok} successful deploy calls", ids.len())),
                    // any other answer (including an error after partial work) is a transition
                    _ => {}
                }
                if ok + failed != if has_target { n_aff } else { 0 } {
                    self.call_mismatch(format!("drain_worker: mock saw {ok} ok + {failed} failed deploy calls, {n_aff} expected"));
                }
                if self.unused_failure(fail) {
                    return Err(Dis::Redundant);
                }
                self.desc.insert(ls.id, if noop || n_aff == 0 { "drain_idle" } else if !has_target || failed > 0 { "drain_fail" } else { "drain_ok" }.into());
                Ok(())
            }
            Step::Tick { stale, fail } => {
                if let Some(w) = stale {
                    match self.coord.workers.get_mut(&wid(*w)) {
                        Some(n) if n.status == WorkerStatus::Ready => {
                            n.last_heartbeat = Instant::now().checked_sub(Duration::from_secs(20)).unwrap_or_else(|| mc::machinery_error("monotonic clock younger than 20 s"));
                        }
                        // not Ready: the sweep skips it — same transition as the plain tick
                        _ if self.relaxed => {}
                        _ => return Err(Dis::Redundant),
                    }
                }
                self.script(fail);
                let mut d = String::from("tick");
                let mut any_fail = false;
                // --- body of the health loop in crates/varpulis-cli/src/main.rs (coordinator command)
                let result = self.coord.health_sweep();
                let marked: Vec<WorkerId> = result.workers_marked_unhealthy.clone();
                if !self.relaxed && marked != stale.map(wid).into_iter().collect::<Vec<_>>() {
                    mc::machinery_error(&format!("health sweep marked {marked:?} but the step made {stale:?} stale"));
                }
                for id in &marked {
                    let n_aff = self.placements_on(id);
                    if self.target_ambiguous(id) {
                        return Err(Dis::Ambiguous);
                    }
                    let has_target = !self.candidate_loads(id).is_empty();
                    let res = block_on(self.coord.handle_worker_failure(id));
                    let (ok, failed) = self.deploy_calls(0);
                    let r_ok = res.iter().filter(|r| r.is_ok()).count();
                    let r_mig = res.iter().filter(|r| matches!(r, Err(ClusterError::MigrationFailed(_)))).count();
                    self.check_failure_reasons();
                    if r_ok != ok || r_mig != failed {
                        transport_error(&format!("handle_worker_failure: {r_ok} ok / {r_mig} failed, mock saw {ok} ok + {failed} failed deploy calls"));
                    }
                    if res.len() != n_aff || ok + failed != if has_target { n_aff } else { 0 } {
                        self.call_mismatch(format!("handle_worker_failure: {} results, mock saw {ok} ok + {failed} failed deploy calls, {n_aff} placements expected to be handled", res.len()));
                    }
                    if n_aff > 0 {
                        d.push_str("_failover");
                        any_fail |= !has_target || failed > 0;
                    }
                }
                let _ = self.coord.check_connector_health();
                self.coord.cleanup_completed_migrations(Duration::from_secs(3600));
                if self.coord.pending_rebalance {
                    let from = self.log_len();
                    let expected = self.reconcile_expected();
                    let n = block_on(self.coord.reconcile_placements());
                    let (ok, failed) = self.deploy_calls(from);
                    if n != ok {
                        transport_error(&format!("reconcile_placements: {n} redeployed, mock saw {ok} successful deploy calls"));
                    }
                    if ok + failed != expected {
                        self.call_mismatch(format!("reconcile_placements: mock saw {ok} ok + {failed} failed deploy calls, {expected} expected"));
                    }
                    let expected = expected.max(ok + failed);
                    if expected > 0 {
                        d.push_str("_reconcile");
                        any_fail |= failed > 0;
                    }
                    let r = self.do_rebalance()?;
                    if !r.is_empty() {
                        d.push_str("_rebalance");
                        any_fail |= r == "_rebalance_fail";
                    }
                }
                let _ = self.coord.evaluate_scaling();
                block_on(self.coord.fire_scaling_webhook());
                // --- end of loop body
                if self.unused_failure(fail) {
                    return Err(Dis::Redundant);
                }
                if any_fail {
                    d.push_str("_fail");
                }
                self.desc.insert(ls.id, d);
                Ok(())
            }
            Step::Rebalance { fail } => {
                self.script(fail);
                let d = self.do_rebalance()?;
                if self.unused_failure(fail) {
                    return Err(Dis::Redundant);
                }
                self.desc.insert(ls.id, format!("rebalance{}", d.strip_prefix("_rebalance").unwrap_or("")));
                Ok(())
            }
        }
    }

    /// `Coordinator::rebalance` with the determinism guard and the transport cross-check
    fn do_rebalance(&mut self) -> Result<String, Dis> {
        let (moves, ambiguous) = self.rebalance_preview();
        if ambiguous {
            return Err(Dis::Ambiguous);
        }
        let from = self.log_len();
        let ids = block_on(self.coord.rebalance()).map_err(|_| Dis::Rejected)?;
        let (ok, failed) = self.deploy_calls(from);
        self.check_failure_reasons();
        if ids.len() != ok {
            transport_error(&format!("rebalance: {} migrations reported, mock saw {ok} successful deploy calls", ids.len()));
        }
        if ok + failed != moves {
            self.call_mismatch(format!("rebalance: mock saw {ok} ok + {failed} failed deploy calls, {moves} expected"));
        }
        let moves = moves.max(ok + failed);
        Ok(if moves == 0 { String::new() } else if failed > 0 { "_rebalance_fail".into() } else { "_rebalance_ok".into() })
    }

    fn status(&self) -> Status {
        Status { checked: self.checked(), primary: oracle::primary(&self.observe()).map(|(c, _)| c) }
    }

    /// no phase pending (see module doc: `pending_rebalance` counts as a pending phase)
    fn checked(&self) -> bool {
        self.pending.is_empty() && !self.coord.pending_rebalance
    }

    fn group_label(&self, gid: &str) -> String {
        match self.groups.iter().find(|(_, g)| g.as_str() == gid) {
            Some((id, _)) => format!("{}/deploy{}", self.coord.pipeline_groups.get(gid).map(|g| g.name.as_str()).unwrap_or("?"), self.ord_of(*id)),
            None => format!("unknown:{gid}"),
        }
    }

    fn observe(&self) -> Obs {
        // `assigned_pipelines` is only ever pushed to / filtered, and its order follows HashMap iteration
        // inside drain / failover: it is observed as a sorted list (the oracle compares multisets)
        let workers = self
            .coord
            .workers
            .iter()
            .map(|(id, n)| {
                let mut a = n.assigned_pipelines.clone();
                a.sort();
                (id.0.clone(), (a, n.capacity.pipelines_running))
            })
            .collect();
        let mut placements: Vec<Placement> = Vec::new();
        for (gid, g) in &self.coord.pipeline_groups {
            for (name, d) in &g.placements {
                placements.push(Placement { group: self.group_label(gid), replica: name.clone(), worker: d.worker_id.0.clone(), running: d.status == PipelineDeploymentStatus::Running });
            }
        }
        placements.sort_by(|a, b| (&a.group, &a.replica).cmp(&(&b.group, &b.replica)));
        Obs { workers, placements }
    }

    fn key(&self) -> Key {
        let mut canon: BTreeMap<(u8, String), u8> = BTreeMap::new();
        let live: BTreeSet<(u8, String)> = self.slot.with(|m| m.pipes.keys().cloned().collect());
        let mut idref = |w: u8, id: &str| -> IdRef {
            if id.is_empty() {
                return IdRef::Empty;
            }
            let n = canon.len() as u8;
            let c = *canon.entry((w, id.to_string())).or_insert(n);
            IdRef::Id { canon: c, alive: live.contains(&(w, id.to_string())) }
        };
        let mut workers: Vec<(u8, u8, Vec<String>, usize)> = self
            .coord
            .workers
            .values()
            .map(|n| {
                let mut a = n.assigned_pipelines.clone();
                a.sort();
                (widx(&n.id), status_code(&n.status), a, n.capacity.pipelines_running)
            })
            .collect();
        workers.sort();
        let mut groups = Vec::new();
        for (did, gid) in &self.groups {
            if let Some(g) = self.coord.pipeline_groups.get(gid) {
                let spec = self.deploys.iter().find(|(i, _)| i == did).map(|(_, s)| *s as u8).unwrap_or(u8::MAX);
                let mut names: Vec<&String> = g.placements.keys().collect();
                names.sort();
                let pl = names.into_iter().map(|n| {
                    let d = &g.placements[n];
                    (n.clone(), widx(&d.worker_id), dep_code(&d.status), idref(mock::worker_of_address(&d.worker_address), &d.pipeline_id))
                });
                groups.push((self.ord_of(*did), spec, group_code(&g.status), pl.collect()));
            }
        }
        if groups.len() != self.coord.pipeline_groups.len() {
            mc::machinery_error("coordinator holds a group the harness has no handle for");
        }
        let mut pending = Vec::new();
        for (pid, p) in &self.pending {
            pending.push(match p {
                Pending::Deploy { plan, spec, ids } => PKey::Deploy { ord: self.ord_of(*pid), spec: *spec as u8, workers: plan.tasks.iter().map(|t| widx(&t.worker_id)).collect(), ids: plan.tasks.iter().zip(ids).map(|(t, id)| idref(widx(&t.worker_id), id.as_deref().unwrap_or(""))).collect() },
                Pending::Teardown { plan, group } => {
                    // plan.tasks is in HashMap order: sort before canonical ids are handed out
                    let mut by_name: Vec<&(String, varpulis_cluster::PipelineDeployment)> = plan.tasks.iter().collect();
                    by_name.sort_by(|a, b| (&a.0, &a.1.worker_id.0, &a.1.pipeline_id).cmp(&(&b.0, &b.1.worker_id.0, &b.1.pipeline_id)));
                    let tasks: Vec<(String, u8, IdRef)> = by_name.into_iter().map(|(n, d)| (n.clone(), widx(&d.worker_id), idref(mock::worker_of_address(&d.worker_address), &d.pipeline_id))).collect();
                    PKey::Teardown { ord: self.ord_of(*group), tasks }
                }
                Pending::Migrate { plan, group, new_id } => PKey::Migrate { ord: self.ord_of(*group), name: plan.pipeline_name.clone(), src: widx(&plan.source_worker_id), tgt: widx(&plan.target_worker_id), dep_status: dep_code(&plan.deployment.status), old: idref(mock::worker_of_address(&plan.deployment.worker_address), &plan.deployment.pipeline_id), new: idref(widx(&plan.target_worker_id), new_id.as_deref().unwrap_or("")) },
            });
        }
        pending.sort();
        let mock: Vec<(usize, usize)> = (0..self.cfg.workers).map(|w| (live.iter().filter(|(x, _)| *x == w).count(), live.iter().filter(|(x, id)| *x == w && !canon.contains_key(&(*x, id.clone()))).count())).collect();
        Key { workers, mock, groups, pending, pending_rebalance: self.coord.pending_rebalance, deploys_used: self.deploys.len() as u8 }
    }
}

/// status of the state after a prefix
#[derive(Clone, Debug, PartialEq, Eq)]
struct Status {
    checked: bool,
    primary: Option<Clause>,
}

/// Replay a history on a fresh coordinator. Err((i, why)) = step i is not a transition.
fn replay<'c>(cfg: &'c Cfg, steps: &[LStep], mut trace: Option<&mut Vec<Status>>) -> Result<World<'c>, (usize, Dis)> {
    let mut w = World::new(cfg);
    let status = |w: &World| w.status();
    if let Some(t) = trace.as_deref_mut() {
        t.push(status(&w));
    }
    for (i, s) in steps.iter().enumerate() {
        w.apply(s).map_err(|d| (i, d))?;
        if let Some(t) = trace.as_deref_mut() {
            t.push(status(&w));
        }
    }
    Ok(w)
}

// ---------------------------------------------------------------------------------------------
// Signatures: attributes of the minimal history

/// ids of the steps forming each operation that has a step at or after `from`
fn operations(steps: &[LStep], from: usize) -> Vec<Vec<u32>> {
    let mut ops: Vec<Vec<u32>> = Vec::new();
    for (i, s) in steps.iter().enumerate() {
        match &s.step {
            Step::Commit { plan } => match ops.iter_mut().find(|o| o[0] == *plan) {
                Some(o) => o.push(s.id),
                None if i >= from => ops.push(vec![*plan, s.id]),
                None => {}
            },
            _ if i >= from => ops.push(vec![s.id]),
            _ => {}
        }
    }
    ops
}

/// longest proper prefix whose state is quiescent and consistent
fn window_start(trace: &[Status]) -> usize {
    (0..trace.len() - 1).rev().find(|i| trace[*i].checked && trace[*i].primary.is_none()).unwrap_or(0)
}

pub struct Finding {
    sig: String,
    minimal: Vec<LStep>,
    replays: u64,
}

/// Smaller variants of a history: one operation removed (all its steps), one scripted failure
/// turned into a success.
fn reductions(steps: &[LStep]) -> Vec<Vec<LStep>> {
    let mut out = Vec::new();
    for op in operations(steps, 0).into_iter().rev() {
        out.push(steps.iter().filter(|s| !op.contains(&s.id)).cloned().collect());
    }
    for (i, s) in steps.iter().enumerate() {
        let mut simpler: Vec<Step> = Vec::new();
        match &s.step {
            Step::DeployPlan { spec, fail_mask } => {
                for b in 0..8 {
                    if fail_mask >> b & 1 == 1 {
                        simpler.push(Step::DeployPlan { spec: *spec, fail_mask: fail_mask & !(1 << b) });
                    }
                }
            }
            Step::Drain { w, fail } => simpler.extend((0..fail.len()).map(|k| Step::Drain { w: *w, fail: without(fail, k) })),
            Step::Tick { stale, fail } => {
                simpler.extend((0..fail.len()).map(|k| Step::Tick { stale: *stale, fail: without(fail, k) }));
                if stale.is_some() {
                    simpler.push(Step::Tick { stale: None, fail: fail.clone() });
                }
            }
            Step::Rebalance { fail } => simpler.extend((0..fail.len()).map(|k| Step::Rebalance { fail: without(fail, k) })),
            _ => {}
        }
        for st in simpler {
            let mut v = steps.to_vec();
            v[i].step = st;
            out.push(v);
        }
    }
    out
}
fn without(v: &[String], k: usize) -> Vec<String> {
    v.iter().enumerate().filter(|(i, _)| *i != k).map(|(_, s)| s.clone()).collect()
}

/// Replay until the first quiescent state that violates the invariant. Returns the number of steps
/// of that prefix, the clause, the world and the trace; `None` if a step before that point is not
/// enabled or no quiescent state violates the invariant.
fn first_violation<'c>(cfg: &'c Cfg, steps: &[LStep]) -> Option<(usize, Clause, World<'c>, Vec<Status>)> {
    let mut w = World::new(cfg);
    w.relaxed = true;
    let mut trace = vec![w.status()];
    for (i, s) in steps.iter().enumerate() {
        w.apply(s).ok()?;
        let st = w.status();
        trace.push(st.clone());
        if st.checked {
            if let Some(c) = st.primary {
                return Some((i + 1, c, w, trace));
            }
        }
    }
    None
}

/// `steps` ends in a quiescent state violating the invariant. The history is minimised (greedy, to a
/// fixpoint: remove whole operations, turn scripted failures into successes; a variant is accepted
/// if its first quiescent violation is of the same clause, and is cut there). The signature is
/// computed from the minimal history only:
/// `C32:<operations after its last quiescent consistent state, with outcome class>:<clause>`;
/// operations that overlapped are joined by `||` (sorted), sequential ones by `+` (in order); when
/// more than two operations remain, the opening and the last-completing one are named in place and
/// the others as a sorted set in brackets between them.
fn classify(cfg: &Cfg, steps: &[LStep]) -> Option<Finding> {
    let mut replays = 1u64;
    let (n, clause, w, _) = first_violation(cfg, steps)?;
    drop(w);
    let mut cur: Vec<LStep> = steps[..n].to_vec();
    'outer: loop {
        for cand in reductions(&cur) {
            replays += 1;
            if let Some((m, c, _, _)) = first_violation(cfg, &cand) {
                if c == clause {
                    cur = cand[..m].to_vec();
                    continue 'outer;
                }
            }
        }
        break;
    }
    replays += 1;
    let (_, _, w, cur_trace) = first_violation(cfg, &cur)?;
    let from = window_start(&cur_trace);
    let pos = |id: u32| cur.iter().position(|s| s.id == id).unwrap_or(0);
    let ops = operations(&cur, from);
    let spans: Vec<(usize, usize)> = ops.iter().map(|o| (pos(o[0]), pos(*o.last().unwrap()))).collect();
    let overlapped = spans.iter().enumerate().any(|(i, (a, b))| spans.iter().enumerate().any(|(j, (c, d))| i != j && ((a < c && c < b) || (a < d && d < b))));
    let mut descs: Vec<String> = ops.iter().map(|o| w.desc.get(&o[0]).cloned().unwrap_or_else(|| "?".into())).collect();
    let sep = if overlapped { "||" } else { "+" };
    let joined = if descs.len() > 2 {
        // more than two operations are needed: the signature names the operation that opens the window
        // and the one whose step completes last (the scope is the pair; `..` marks that others took part)
        let first = (0..ops.len()).min_by_key(|i| spans[*i].0).unwrap_or(0);
        let last = (0..ops.len()).filter(|i| *i != first).max_by_key(|i| spans[*i].1).unwrap_or(0);
        // the operations in between are named as a sorted set, so that a different combination of
        // operations is a different scope (a bare `..` let seeded change C32 hide behind a known pair)
        let mut mid: Vec<String> = (0..ops.len()).filter(|i| *i != first && *i != last).map(|i| descs[i].clone()).collect();
        mid.sort();
        mid.dedup();
        format!("{}{sep}[{}]{sep}{}", descs[first], mid.join(","), descs[last])
    } else if overlapped {
        descs.sort();
        descs.join(sep)
    } else {
        descs.join(sep)
    };
    Some(Finding { sig: format!("C32:{joined}:{}", clause.name()), minimal: cur, replays })
}

fn case_json(cfg: &Cfg, steps: &[LStep]) -> Value {
    json!({"config": cfg.name, "steps": steps, "readable": steps.iter().map(|s| render(cfg, s)).collect::<Vec<_>>()})
}

// ---------------------------------------------------------------------------------------------
// Exploration

#[derive(Default)]
struct Counters {
    replays: AtomicU64,
    static_pruned: AtomicU64,
    bound_pruned: AtomicU64,
    summary_pruned: AtomicU64,
    script_pruned: AtomicU64,
    rejected: AtomicU64,
    ambiguous: AtomicU64,
    redundant: AtomicU64,
    violating: AtomicU64,
    unchecked_inconsistent: AtomicU64,
    classify_replays: AtomicU64,
}

/// Concurrent map, sharded to keep lock hold times negligible.
struct Sharded<K, V> {
    shards: Vec<Mutex<HashMap<K, V>>>,
}
impl<K: std::hash::Hash + Eq, V: Clone> Sharded<K, V> {
    fn new() -> Self {
        Sharded { shards: (0..64).map(|_| Mutex::new(HashMap::new())).collect() }
    }
    fn shard(&self, k: &K) -> &Mutex<HashMap<K, V>> {
        &self.shards[(mc::hash_of(k) % 64) as usize]
    }
    fn get(&self, k: &K) -> Option<V> {
        self.shard(k).lock().unwrap().get(k).cloned()
    }
    fn put(&self, k: K, v: V) {
        self.shard(&k).lock().unwrap().insert(k, v);
    }
    fn clear(&self) {
        for s in &self.shards {
            let mut g = s.lock().unwrap();
            g.clear();
            g.shrink_to_fit();
        }
    }
}

const ABSENT: u8 = 255;
type Hist = Box<[u8]>;
fn hist_key(h: &[usize]) -> Hist {
    h.iter().map(|x| *x as u8).collect()
}

struct Shared {
    acc: Mutex<Acc>,
    nontrivial: Mutex<HashSet<u64>>,
    /// deterministic sample of explored histories with the hash of (key, observation), re-replayed at the end
    recheck: Mutex<Vec<(Vec<usize>, u64)>>,
    last: Mutex<(Vec<usize>, u64)>,
    c: Counters,
    /// by history length: explored history -> status of each worker (ABSENT = not registered).
    /// Only used to skip candidates the coordinator is certain to reject (no replay needed).
    summary: Vec<Sharded<Hist, [u8; 5]>>,
    /// by prefix length: (prefix, failure-free variant of a monolithic op) -> pipeline names that
    /// received a deploy call (None = that variant is not a transition). A variant whose scripted
    /// failures are disjoint from this set behaves exactly like the failure-free one.
    called: Vec<Sharded<(Hist, u16), Option<BTreeSet<String>>>>,
    level_first_ms: Vec<AtomicU64>,
    level_transitions: Vec<AtomicU64>,
    cleared: std::sync::atomic::AtomicUsize,
    t0: Instant,
}
impl Shared {
    fn new(max_depth: usize) -> Shared {
        Shared {
            acc: Mutex::new(Acc::default()),
            nontrivial: Mutex::new(HashSet::new()),
            recheck: Mutex::new(Vec::new()),
            last: Mutex::new((Vec::new(), 0)),
            c: Counters::default(),
            summary: (0..=max_depth + 1).map(|_| Sharded::new()).collect(),
            called: (0..=max_depth + 1).map(|_| Sharded::new()).collect(),
            level_first_ms: (0..=max_depth + 1).map(|_| AtomicU64::new(u64::MAX)).collect(),
            level_transitions: (0..=max_depth + 1).map(|_| AtomicU64::new(0)).collect(),
            cleared: std::sync::atomic::AtomicUsize::new(0),
            t0: Instant::now(),
        }
    }
    fn reset_for_config(&mut self) {
        *self.last.lock().unwrap() = (Vec::new(), 0);
        self.recheck.lock().unwrap().clear();
        for s in &self.summary {
            s.clear();
        }
        for s in &self.called {
            s.clear();
        }
        for a in self.level_first_ms.iter() {
            a.store(u64::MAX, Ordering::Relaxed);
        }
        for a in self.level_transitions.iter() {
            a.store(0, Ordering::Relaxed);
        }
        self.cleared.store(0, Ordering::Relaxed);
        self.t0 = Instant::now();
    }
}

fn fail_of(s: &Step) -> Option<&Vec<String>> {
    match s {
        Step::Drain { fail, .. } | Step::Tick { fail, .. } | Step::Rebalance { fail } => Some(fail),
        _ => None,
    }
}
fn with_fail(s: &Step, f: Vec<String>) -> Step {
    match s {
        Step::Drain { w, .. } => Step::Drain { w: *w, fail: f },
        Step::Tick { stale, .. } => Step::Tick { stale: *stale, fail: f },
        Step::Rebalance { .. } => Step::Rebalance { fail: f },
        other => other.clone(),
    }
}

/// certain rejection (or redundancy) of the last operation, given the worker statuses after the prefix
fn rejected_by_summary(op: &AOp, st: &[u8; 5]) -> bool {
    const READY: u8 = 1;
    match op {
        AOp::DeployPlan { .. } => !st[..4].iter().any(|x| *x == READY),
        AOp::MigratePlan { target, .. } => st[*target as usize] == ABSENT,
        AOp::Atomic(Step::Heartbeat { w }) | AOp::Atomic(Step::Deregister { w }) | AOp::Atomic(Step::Drain { w, .. }) => st[*w as usize] == ABSENT,
        AOp::Atomic(Step::Tick { stale: Some(w), .. }) => st[*w as usize] != READY,
        _ => false,
    }
}

fn explore(cfg: &Cfg, args: &Args, deadline: &Deadline, sh: &Shared) -> mc::BfsStats {
    let alpha = alphabet(cfg);
    // index of the failure-free variant of every scripted monolithic op
    let base_of: Vec<Option<u16>> = alpha
        .iter()
        .map(|a| match a {
            AOp::Atomic(s) if fail_of(s).map(|f| !f.is_empty()).unwrap_or(false) => {
                let plain = with_fail(s, Vec::new());
                alpha.iter().position(|b| matches!(b, AOp::Atomic(t) if *t == plain)).map(|i| i as u16)
            }
            _ => None,
        })
        .collect();
    let called_names = |w: &World| -> BTreeSet<String> { w.slot.with(|m| m.log.iter().filter_map(|c| if let Call::Deploy { name, .. } = c { Some(name.clone()) } else { None }).collect()) };
    mc::bfs_histories(alpha.len(), cfg.depth, args.threads, deadline, |h: &[usize]| -> Option<Key> {
        let n = h.len();
        sh.level_first_ms[n].fetch_min(sh.t0.elapsed().as_millis() as u64, Ordering::Relaxed);
        if n >= 3 && sh.cleared.fetch_max(n - 2, Ordering::Relaxed) < n - 2 {
            // prefixes of length n-3 and shorter are never looked up again
            for d in 0..(n - 2) {
                sh.summary[d].clear();
                sh.called[d].clear();
            }
        }
        let (steps, k_pending) = match resolve_p(cfg, &alpha, h) {
            Some(s) => s,
            None => {
                sh.c.static_pruned.fetch_add(1, Ordering::Relaxed);
                return None;
            }
        };
        // Depth bound: a state with k phases pending (plus the reconcile phase if `pending_rebalance`)
        // needs at least that many more steps before the invariant is evaluated again; if that
        // exceeds the bound no checked state lies behind it and it is not generated.
        if n + k_pending > cfg.depth {
            sh.c.bound_pruned.fetch_add(1, Ordering::Relaxed);
            return None;
        }
        if n > 0 {
            let prefix = hist_key(&h[..n - 1]);
            if let Some(st) = sh.summary[n - 1].get(&prefix) {
                if rejected_by_summary(&alpha[h[n - 1]], &st) {
                    sh.c.summary_pruned.fetch_add(1, Ordering::Relaxed);
                    return None;
                }
                let clears = matches!(&alpha[h[n - 1]], AOp::Atomic(Step::Tick { .. }) | AOp::Atomic(Step::Rebalance { .. }));
                if st[4] == 1 && !clears && n + k_pending + 1 > cfg.depth {
                    sh.c.bound_pruned.fetch_add(1, Ordering::Relaxed);
                    return None;
                }
            }
            if let (Some(base), AOp::Atomic(step)) = (base_of[h[n - 1]], &alpha[h[n - 1]]) {
                let ck = (prefix, base);
                let called = match sh.called[n - 1].get(&ck) {
                    Some(c) => c,
                    None => {
                        let mut plain = steps.clone();
                        plain[n - 1].step = with_fail(step, Vec::new());
                        sh.c.replays.fetch_add(1, Ordering::Relaxed);
                        let c = replay(cfg, &plain, None).ok().map(|w| called_names(&w));
                        sh.called[n - 1].put(ck, c.clone());
                        c
                    }
                };
                if let Some(c) = called {
                    if fail_of(step).map(|f| f.iter().all(|x| !c.contains(x))).unwrap_or(false) {
                        sh.c.script_pruned.fetch_add(1, Ordering::Relaxed);
                        return None;
                    }
                }
            }
        }
        sh.c.replays.fetch_add(1, Ordering::Relaxed);
        let w = match mc::catch(|| replay(cfg, &steps, None)) {
            Ok(Ok(w)) => w,
            Ok(Err((i, d))) => {
                if i + 1 != steps.len() {
                    mc::machinery_error(&format!("replay is not deterministic: step {i} of an explored prefix is not enabled any more ({d:?}) in {:?}", steps.iter().map(|s| render(cfg, s)).collect::<Vec<_>>()));
                }
                match d {
                    Dis::Rejected => &sh.c.rejected,
                    Dis::Ambiguous => &sh.c.ambiguous,
                    Dis::Redundant => &sh.c.redundant,
                }
                .fetch_add(1, Ordering::Relaxed);
                return None;
            }
            Err(panic) => {
                let kind = steps.last().map(|s| serde_json::to_value(&s.step).ok().and_then(|v| v["op"].as_str().map(String::from)).unwrap_or_default()).unwrap_or_default();
                sh.acc.lock().unwrap().viol.add(format!("C32:{kind}:panic"), format!("coordinator panicked ({panic} at {}) replaying {:?}", mc::last_panic_location(), steps.iter().map(|s| render(cfg, s)).collect::<Vec<_>>()), case_json(cfg, &steps), steps.len());
                return None;
            }
        };
        if let Some(LStep { step, .. }) = steps.last() {
            if fail_of(step).map(|f| f.is_empty()).unwrap_or(false) {
                if let Some(k) = alpha.iter().position(|b| matches!(b, AOp::Atomic(t) if t == step)) {
                    sh.called[n - 1].put((hist_key(&h[..n - 1]), k as u16), Some(called_names(&w)));
                }
            }
        }
        let obs = w.observe();
        let key = w.key();
        let kh = mc::hash_of(&(&key, &obs));
        let primary = oracle::primary(&obs);
        if w.checked() {
            if let Some((clause, detail)) = primary {
                sh.c.violating.fetch_add(1, Ordering::Relaxed);
                drop(w);
                match classify(cfg, &steps) {
                    Some(f) => {
                        sh.c.classify_replays.fetch_add(f.replays, Ordering::Relaxed);
                        let desc = format!("{} after {:?}; minimised to {:?}", detail, steps.iter().map(|s| render(cfg, s)).collect::<Vec<_>>(), f.minimal.iter().map(|s| render(cfg, s)).collect::<Vec<_>>());
                        // shortest history first, ties broken by alphabet order (simplest first), so that the
                        // case kept per signature does not depend on thread timing
                        // the minimised history is what is recorded for replay (it reproduces the same signature)
                        let rank = h.iter().take(8).enumerate().fold(f.minimal.len() << 56, |acc, (i, k)| acc | ((*k & 0x7f) << (7 * (7 - i))));
                        let mut case = case_json(cfg, &f.minimal);
                        case["found_as"] = json!(steps.iter().map(|s| render(cfg, s)).collect::<Vec<_>>());
                        sh.acc.lock().unwrap().viol.add(f.sig, desc, case, rank);
                    }
                    None => mc::machinery_error(&format!("violation ({}) not reproduced on a second replay of {:?}", clause.name(), steps.iter().map(|s| render(cfg, s)).collect::<Vec<_>>())),
                }
                // a violating state is reported, not expanded
                return None;
            }
            if oracle::nontrivial(&obs) {
                sh.nontrivial.lock().unwrap().insert(mc::hash_of(&key));
            }
        } else if w.pending.is_empty() && primary.is_some() {
            sh.c.unchecked_inconsistent.fetch_add(1, Ordering::Relaxed);
        }
        if n + k_pending + w.coord.pending_rebalance as usize > cfg.depth {
            sh.c.bound_pruned.fetch_add(1, Ordering::Relaxed);
            return None;
        }
        let mut st = [ABSENT; 5];
        for node in w.coord.workers.values() {
            st[widx(&node.id) as usize] = status_code(&node.status);
        }
        st[4] = w.coord.pending_rebalance as u8;
        sh.summary[n].put(hist_key(h), st);
        sh.level_transitions[n].fetch_add(1, Ordering::Relaxed);
        {
            let mut acc = sh.acc.lock().unwrap();
            acc.outcome(&kh);
        }
        if mc::hash_of(&h) % 499 == 0 {
            let mut r = sh.recheck.lock().unwrap();
            if r.len() < 4000 {
                r.push((h.to_vec(), kh));
            }
        }
        {
            let mut l = sh.last.lock().unwrap();
            if (h.len(), h) >= (l.0.len(), l.0.as_slice()) {
                *l = (h.to_vec(), kh);
            }
        }
        Some(key)
    })
}

/// Observation of a history as one hash (for the determinism checks)
fn fingerprint(cfg: &Cfg, steps: &[LStep]) -> String {
    match replay(cfg, steps, None) {
        Ok(w) => format!("ok:{:016x}", mc::hash_of(&(&w.key(), &w.observe()))),
        Err((i, d)) => format!("disabled at {i}: {d:?}"),
    }
}

/// Start-up determinism check: hand-written deep histories touching every kind of operation,
/// each replayed twice; the canonical observations must be identical.
fn determinism_probe(cfg: &Cfg) {
    let names = cfg.names();
    let last = cfg.workers - 1;
    let l = |id: u32, step: Step| LStep { id, step };
    let probes: Vec<Vec<LStep>> = vec![
        vec![l(0, Step::DeployPlan { spec: 0, fail_mask: 0 }), l(1, Step::Commit { plan: 0 }), l(2, Step::MigratePlan { group: 0, name: names[0].clone(), target: last, ok: true }), l(3, Step::TeardownPlan { group: 0 }), l(4, Step::Commit { plan: 2 }), l(5, Step::Commit { plan: 3 }), l(6, Step::Tick { stale: None, fail: vec![] })],
        vec![l(0, Step::Register { w: last }), l(1, Step::DeployPlan { spec: cfg.specs.len() - 1, fail_mask: 0 }), l(2, Step::Commit { plan: 1 }), l(3, Step::Drain { w: 0, fail: vec![] }), l(4, Step::Register { w: 0 }), l(5, Step::Tick { stale: None, fail: vec![] }), l(6, Step::Heartbeat { w: 0 }), l(7, Step::Rebalance { fail: vec![] })],
        vec![l(0, Step::Register { w: last }), l(1, Step::DeployPlan { spec: 0, fail_mask: 0 }), l(2, Step::Commit { plan: 1 }), l(3, Step::Tick { stale: Some(0), fail: vec![names[0].clone()] }), l(4, Step::Heartbeat { w: 0 }), l(5, Step::Deregister { w: last }), l(6, Step::Drain { w: 0, fail: vec![names[0].clone()] })],
    ];
    for p in &probes {
        let (a, b) = (fingerprint(cfg, p), fingerprint(cfg, p));
        if a != b {
            mc::machinery_error(&format!("replay is not deterministic ({a} vs {b}) for probe {:?}", p.iter().map(|s| render(cfg, s)).collect::<Vec<_>>()));
        }
    }
}

pub fn run(args: Args) -> ! {
    oracle::self_test();
    self_test();
    mc::quiet_panics();
    let mut rep = Report::new(&args, "model_checking");

    if let Some(path) = &args.replay {
        let case = mc::load_replay(path);
        let cfgs = all_configs();
        let cname = case["config"].as_str().unwrap_or("");
        let cfg = cfgs.iter().find(|c| c.name == cname).unwrap_or_else(|| mc::machinery_error(&format!("replay file names unknown config '{cname}'")));
        let steps: Vec<LStep> = serde_json::from_value(case["steps"].clone()).unwrap_or_else(|e| mc::machinery_error(&format!("replay file: bad steps: {e}")));
        let mut trace = Vec::new();
        println!("replaying {} steps on a fresh real Coordinator (config {}):", steps.len(), cfg.name);
        for s in &steps {
            println!("  {}", render(cfg, s));
        }
        match replay(cfg, &steps, Some(&mut trace)) {
            Err((i, d)) => mc::machinery_error(&format!("recorded history is not enabled at step {i} ({d:?})")),
            Ok(w) => {
                let obs = w.observe();
                println!("state reached: quiescent={} {obs:?}", w.checked());
                let violated = oracle::check(&obs);
                for (c, d) in &violated {
                    println!("  invariant clause {} violated: {d}", c.name());
                }
                rep.evaluations = 1;
                rep.traces = 1;
                rep.transitions = steps.len() as u64;
                rep.states = trace.len() as u64;
                if w.checked() && !violated.is_empty() {
                    drop(w);
                    let f = classify(cfg, &steps).unwrap_or_else(|| mc::machinery_error("violation not reproduced on a second replay"));
                    let mut acc = Acc::default();
                    acc.viol.add(f.sig, format!("{} (minimal window of: {:?})", violated[0].1, f.minimal.iter().map(|s| render(cfg, s)).collect::<Vec<_>>()), case_json(cfg, &steps), steps.len());
                    rep.absorb(acc);
                } else {
                    println!("no violation: the invariant holds in the state reached (or a phase is still pending)");
                }
            }
        }
        rep.finish();
    }

    let cfgs = configs(args.tier);
    let total = Deadline::after(Duration::from_secs(args.tier.pick(36, 1140)));
    let mut sh = Shared::new(cfgs.iter().map(|c| c.depth).max().unwrap_or(0));
    let mut per_cfg = Vec::new();
    for cfg in &cfgs {
        determinism_probe(cfg);
        let t0 = Instant::now();
        // per-configuration budget, never beyond the tier's total
        let tier_left = Duration::from_secs(args.tier.pick(36, 1080)).saturating_sub(rep.elapsed());
        let deadline = Deadline::after(Duration::from_secs(cfg.budget_s).min(tier_left));
        sh.reset_for_config();
        let stats = if total.expired() { mc::BfsStats { states: 0, transitions: 0, max_depth: 0, complete: false } } else { explore(cfg, &args, &deadline, &sh) };
        // determinism after the fact: the last explored history and a fixed sample of all explored
        // histories are replayed again and must give the same canonical observation
        let alpha = alphabet(cfg);
        let mut again: Vec<(Vec<usize>, u64)> = sh.recheck.lock().unwrap().clone();
        again.push(sh.last.lock().unwrap().clone());
        let again: Vec<(Vec<usize>, u64)> = again.into_iter().filter(|(h, _)| !h.is_empty()).collect();
        let (_, _) = mc::par_items(&again, args.threads, |(h, kh), _| {
            let steps = resolve(cfg, &alpha, h).unwrap_or_else(|| mc::machinery_error("explored history no longer resolves"));
            for _ in 0..2 {
                match replay(cfg, &steps, None) {
                    Ok(w) if mc::hash_of(&(&w.key(), &w.observe())) == *kh => {}
                    _ => mc::machinery_error(&format!("replay is not deterministic: {:?} gives a different canonical observation when replayed again", steps.iter().map(|s| render(cfg, s)).collect::<Vec<_>>())),
                }
            }
            true
        });
        sh.c.replays.fetch_add(2 * again.len() as u64, Ordering::Relaxed);
        // samples for the evidence: the longest re-checked histories containing a migration, a drain, a failover
        let mut sorted: Vec<&Vec<usize>> = again.iter().map(|(h, _)| h).collect();
        sorted.sort_by(|a, b| (b.len(), *a).cmp(&(a.len(), *b)));
        let kinds: [fn(&Step) -> bool; 3] = [|s| matches!(s, Step::MigratePlan { ok: true, .. }), |s| matches!(s, Step::Drain { .. }), |s| matches!(s, Step::Tick { stale: Some(_), .. })];
        let mut picked: Vec<Vec<LStep>> = Vec::new();
        for kind in kinds {
            let pick = sorted.iter().filter_map(|h| resolve(cfg, &alpha, h)).find(|st| !picked.contains(st) && st.iter().any(|s| kind(&s.step)) && replay(cfg, st, None).map(|w| w.checked() && oracle::nontrivial(&w.observe())).unwrap_or(false));
            if let Some(st) = pick {
                picked.push(st.clone());
                if let Ok(w) = replay(cfg, &st, None) {
                    rep.sample(json!({"config": cfg.name, "history": st.iter().map(|s| render(cfg, s)).collect::<Vec<_>>(), "state_reached": format!("{:?}", w.observe()), "invariant": "holds"}));
                }
            }
        }
        let depth_completed = if stats.complete { cfg.depth } else { stats.max_depth };
        if !stats.complete {
            rep.cap_hit(&format!("config {}: wall budget reached after {:.0} s, breadth-first levels completed up to depth {} of {}", cfg.name, t0.elapsed().as_secs_f64(), depth_completed, cfg.depth));
        }
        rep.states += stats.states;
        rep.transitions += stats.transitions;
        let mut d = cfg.describe();
        d["alphabet"] = json!(alpha.len());
        d["states"] = json!(stats.states);
        d["transitions"] = json!(stats.transitions);
        d["depth_completed"] = json!(depth_completed);
        d["deepest_level_with_new_states"] = json!(stats.max_depth);
        d["histories_rechecked_for_determinism"] = json!(again.len());
        d["per_depth"] = json!((1..=cfg.depth).filter(|k| sh.level_first_ms[*k].load(Ordering::Relaxed) != u64::MAX).map(|k| json!({"depth": k, "transitions": sh.level_transitions[k].load(Ordering::Relaxed), "started_at_s": sh.level_first_ms[k].load(Ordering::Relaxed) as f64 / 1000.0})).collect::<Vec<_>>());
        d["wall_s"] = json!(t0.elapsed().as_secs_f64());
        per_cfg.push(d);
    }
    let acc = std::mem::take(&mut *sh.acc.lock().unwrap());
    rep.absorb(acc);
    let ld = |a: &AtomicU64| a.load(Ordering::Relaxed);
    rep.evaluations = ld(&sh.c.replays) + ld(&sh.c.classify_replays);
    rep.traces = rep.evaluations;
    rep.nontrivial = sh.nontrivial.lock().unwrap().len() as u64;
    rep.set("configs", json!(per_cfg));
    rep.set("candidates_statically_not_enabled", json!(ld(&sh.c.static_pruned)));
    rep.set("candidates_that_cannot_reach_a_quiescent_state_within_the_depth_bound", json!(ld(&sh.c.bound_pruned)));
    rep.set("candidates_certainly_rejected_given_worker_statuses", json!(ld(&sh.c.summary_pruned)));
    rep.set("candidates_with_failure_script_that_cannot_fire", json!(ld(&sh.c.script_pruned)));
    rep.set("steps_rejected_by_coordinator", json!(ld(&sh.c.rejected)));
    rep.set("steps_skipped_choice_depends_on_map_order", json!(ld(&sh.c.ambiguous)));
    rep.set("steps_skipped_redundant_failure_script", json!(ld(&sh.c.redundant)));
    rep.set("violating_transitions", json!(ld(&sh.c.violating)));
    rep.set("operations_whose_worker_call_count_differs_from_the_pinned_trees_logic", json!(CALL_MISMATCH.load(Ordering::Relaxed)));
    rep.set("replays_spent_minimising_violations", json!(ld(&sh.c.classify_replays)));
    rep.set("states_inconsistent_while_pending_rebalance_set", json!(ld(&sh.c.unchecked_inconsistent)));
    rep.rule = "Breadth-first search over operation histories of the real Coordinator; every candidate history (explored state + one operation) is replayed from a fresh Coordinator through plan_*/commit_*/register_worker/heartbeat/deregister_worker/drain_worker/health loop (health_sweep, handle_worker_failure, reconcile_placements, rebalance) with a loopback mock worker; states are deduplicated by the canonical key (workers: status, assigned multiset, running count; mock worker contents; groups by deploy ordinal: spec, status, placements; pending phases; pending_rebalance); the invariant is evaluated in every state with no phase pending; violating states are reported (shortest history per signature) and not expanded. evaluations = histories replayed on the implementation. distinct_nontrivial = distinct canonical states that are quiescent, consistent and hold at least one Running placement (the invariant is evaluated non-vacuously there).".into();
    rep.assume("execute phases of deploy/teardown/migrate are static functions that never touch coordinator state; their worker calls are applied to the mock worker at the plan step with the outcome the step names (a deploy call either starts the pipeline and succeeds, or fails and starts nothing); checkpoint, restore and delete calls are best effort in the coordinator and never feed back into its state: the mock answers 404 to checkpoint and always deletes");
    rep.assume("pending_rebalance set = the coordinator's reconcile/rebalance phase is pending, so such states are not quiescent (the invariant is evaluated after the health loop ran); states that were inconsistent while the flag was set are counted in states_inconsistent_while_pending_rebalance_set");
    rep.assume("choices the implementation makes by HashMap iteration order (unpinned or fallback placement with more than one available worker, least-loaded ties in drain/failover, rebalance with more movable pipelines than excess or tied targets) are not explored; such steps are skipped and counted");
    rep.assume("a registration is a worker process start (the worker loop registers exactly once, with zero running pipelines), so the mock worker loses its pipelines; heartbeats report the mock worker's real pipeline count and no per-pipeline metrics");
    rep.assume("the harness predicts how many worker calls each monolithic operation makes from the pinned tree's selection logic; if the count differs while the transport is demonstrably healthy (probe through the coordinator's own HTTP client) the operation is still explored as executed and counted in operations_whose_worker_call_count_differs_from_the_pinned_trees_logic (expected 0 on the pinned tree)");
    rep.assume("Raft replication, NATS transport and leader forwarding are off (standalone coordinator)");
    rep.finish()
}

/// Hand-computed cases for the harness-side pure functions.
fn self_test() {
    let cfg = &Cfg { name: "selftest", workers: 2, initial: vec![0, 1], specs: vec![sd("g0", vec![pd("p", 0)]), sd("g0", vec![pd("p", 0), pd("q", 1)])], max_deploys: 2, depth: 6, budget_s: 1 };
    let alpha = alphabet(cfg);
    let find = |f: &dyn Fn(&AOp) -> bool| alpha.iter().position(|a| f(a)).expect("alphabet entry");
    let dp = find(&|a| matches!(a, AOp::DeployPlan { spec: 0, fail_mask: 0 }));
    let c0 = find(&|a| matches!(a, AOp::Commit { slot: 0 }));
    let c1 = find(&|a| matches!(a, AOp::Commit { slot: 1 }));
    let td0 = find(&|a| matches!(a, AOp::TeardownPlan { ord: 0 }));
    let mg = find(&|a| matches!(a, AOp::MigratePlan { ord: 0, name, target: 1, ok: true } if name == "p"));
    let mq = find(&|a| matches!(a, AOp::MigratePlan { ord: 0, name, target: 1, ok: true } if name == "q"));
    // commit of an empty slot, teardown before the deploy is committed, a third phased operation
    assert!(resolve(cfg, &alpha, &[c0]).is_none());
    assert!(resolve(cfg, &alpha, &[dp, td0]).is_none());
    assert!(resolve(cfg, &alpha, &[dp, c0, td0, mg, td0]).is_none());
    // spec 0 has no pipeline q
    assert!(resolve(cfg, &alpha, &[dp, c0, mq]).is_none());
    // slot 1 = the younger pending plan; ids are step positions
    let r = resolve(cfg, &alpha, &[dp, c0, mg, td0, c1, c0]).expect("resolves");
    assert_eq!(r[4].step, Step::Commit { plan: 3 });
    assert_eq!(r[5].step, Step::Commit { plan: 2 });
    assert_eq!(r[3].step, Step::TeardownPlan { group: 0 });
    // after the teardown is committed the group is gone
    assert!(resolve(cfg, &alpha, &[dp, c0, td0, c0, td0]).is_none());
    // operations of a window
    assert_eq!(operations(&r, 2), vec![vec![2, 5], vec![3, 4]]);
    assert_eq!(operations(&r, 5), vec![vec![2, 5]]);
    // window start: last quiescent consistent proper prefix
    let st = |c: bool, p: Option<Clause>| Status { checked: c, primary: p };
    assert_eq!(window_start(&[st(true, None), st(false, None), st(true, None), st(false, None), st(true, Some(Clause::RunningCountMismatch))]), 2);
}

