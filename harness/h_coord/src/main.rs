//! h_coord — explicit-state model checking of the real `varpulis_cluster::Coordinator` (C32).
mod c32;
mod mock;
mod oracle;

fn main() {
    let args = mc::parse_args();
    match args.prop.as_str() {
        "C32" => c32::run(args),
        other => mc::machinery_error(&format!("h_coord serves C32, not {other}")),
    }
}
