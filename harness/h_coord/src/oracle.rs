//! C32 oracle: the bookkeeping invariant, stated on a plain-data observation of the coordinator.
//!
//! Property text: "each running pipeline replica is placed on exactly one registered worker. A
//! worker's assigned pipelines and running count match exactly the running placements on it."
//! A replica is (group id, replica name); `placements` is a map per group, so "exactly one" can only
//! fail by the named worker not being registered.

use std::collections::BTreeMap;

#[derive(Clone, Debug, PartialEq, Eq, Hash)]
pub struct Placement {
    pub group: String,
    pub replica: String,
    pub worker: String,
    pub running: bool,
}

#[derive(Clone, Debug, Default, PartialEq, Eq, Hash)]
pub struct Obs {
    /// registered worker -> (assigned_pipelines, capacity.pipelines_running)
    pub workers: BTreeMap<String, (Vec<String>, usize)>,
    pub placements: Vec<Placement>,
}

/// Invariant clauses in priority order (the first violated one is the *primary* clause of a state).
#[derive(Clone, Copy, Debug, PartialEq, Eq, Hash, PartialOrd, Ord)]
pub enum Clause {
    /// a Running placement names a worker that is not registered
    RunningPlacementOrphaned,
    /// a worker lists a pipeline for which it holds no Running placement (multiset difference)
    AssignedWithoutPlacement,
    /// a worker holds a Running placement that its assigned list does not contain
    PlacementWithoutAssignment,
    /// assigned list matches, but `pipelines_running` differs from the number of Running placements
    RunningCountMismatch,
}

impl Clause {
    pub fn name(self) -> &'static str {
        match self {
            Clause::RunningPlacementOrphaned => "running_placement_orphaned",
            Clause::AssignedWithoutPlacement => "assigned_without_placement",
            Clause::PlacementWithoutAssignment => "placement_without_assignment",
            Clause::RunningCountMismatch => "running_count_mismatch",
        }
    }
}

/// All violated clauses with a human-readable detail, sorted by clause priority.
pub fn check(obs: &Obs) -> Vec<(Clause, String)> {
    let mut out = Vec::new();
    let mut on_worker: BTreeMap<&str, Vec<&str>> = BTreeMap::new();
    for p in obs.placements.iter().filter(|p| p.running) {
        if obs.workers.contains_key(&p.worker) {
            on_worker.entry(p.worker.as_str()).or_default().push(p.replica.as_str());
        } else {
            out.push((Clause::RunningPlacementOrphaned, format!("Running placement '{}' of group {} names worker {} which is not registered", p.replica, p.group, p.worker)));
        }
    }
    for (w, (assigned, count)) in &obs.workers {
        let want = mc::multiset(on_worker.get(w.as_str()).cloned().unwrap_or_default().into_iter().map(String::from));
        let have = mc::multiset(assigned.iter().cloned());
        let n_running: usize = want.values().sum();
        let extra: Vec<&String> = have.iter().filter(|(k, n)| **n > *want.get(*k).unwrap_or(&0)).map(|(k, _)| k).collect();
        let missing: Vec<&String> = want.iter().filter(|(k, n)| **n > *have.get(*k).unwrap_or(&0)).map(|(k, _)| k).collect();
        let ctx = format!("worker {w}: assigned_pipelines={assigned:?} pipelines_running={count}, Running placements on it={:?}", on_worker.get(w.as_str()).cloned().unwrap_or_default());
        if !extra.is_empty() {
            out.push((Clause::AssignedWithoutPlacement, format!("{ctx} (assigned without Running placement: {extra:?})")));
        }
        if !missing.is_empty() {
            out.push((Clause::PlacementWithoutAssignment, format!("{ctx} (Running placement not in assigned list: {missing:?})")));
        }
        if extra.is_empty() && missing.is_empty() && *count != n_running {
            out.push((Clause::RunningCountMismatch, format!("{ctx} (count {count} != {n_running})")));
        }
    }
    out.sort_by_key(|(c, _)| *c);
    out
}

pub fn primary(obs: &Obs) -> Option<(Clause, String)> {
    check(obs).into_iter().next()
}

/// true iff the invariant is evaluated non-vacuously (some Running placement exists)
pub fn nontrivial(obs: &Obs) -> bool {
    obs.placements.iter().any(|p| p.running)
}

/// Hand-computed cases, run at start-up before the oracle is trusted.
pub fn self_test() {
    let pl = |g: &str, r: &str, w: &str, run: bool| Placement { group: g.into(), replica: r.into(), worker: w.into(), running: run };
    let ws = |v: &[(&str, &[&str], usize)]| -> BTreeMap<String, (Vec<String>, usize)> { v.iter().map(|(w, a, n)| (w.to_string(), (a.iter().map(|s| s.to_string()).collect(), *n))).collect() };
    let clauses = |o: &Obs| -> Vec<Clause> { check(o).into_iter().map(|(c, _)| c).collect() };
    // empty cluster, and a consistent one (a Failed placement does not count)
    assert!(clauses(&Obs::default()).is_empty());
    let ok = Obs { workers: ws(&[("w0", &["p"], 1), ("w1", &[], 0)]), placements: vec![pl("g0", "p", "w0", true), pl("g0", "q", "w1", false)] };
    assert!(clauses(&ok).is_empty() && nontrivial(&ok));
    // same replica name in two groups on one worker: multiset semantics
    let dup = Obs { workers: ws(&[("w0", &["p", "p"], 2)]), placements: vec![pl("g0", "p", "w0", true), pl("g1", "p", "w0", true)] };
    assert!(clauses(&dup).is_empty());
    let dup_lost = Obs { workers: ws(&[("w0", &["p"], 2)]), placements: vec![pl("g0", "p", "w0", true), pl("g1", "p", "w0", true)] };
    assert_eq!(clauses(&dup_lost), vec![Clause::PlacementWithoutAssignment]);
    // Running placement on an unregistered worker
    let orphan = Obs { workers: ws(&[("w1", &[], 0)]), placements: vec![pl("g0", "p", "w0", true)] };
    assert_eq!(clauses(&orphan), vec![Clause::RunningPlacementOrphaned]);
    // double-counted target: assigned twice, one placement
    let dbl = Obs { workers: ws(&[("w0", &[], 0), ("w1", &["p", "p"], 2)]), placements: vec![pl("g0", "p", "w1", true)] };
    assert_eq!(clauses(&dbl), vec![Clause::AssignedWithoutPlacement]);
    // assignment left behind after the group is gone
    let left = Obs { workers: ws(&[("w0", &["p"], 1)]), placements: vec![] };
    assert_eq!(clauses(&left), vec![Clause::AssignedWithoutPlacement]);
    assert!(!nontrivial(&left));
    // list right, count wrong
    let cnt = Obs { workers: ws(&[("w0", &["p"], 2)]), placements: vec![pl("g0", "p", "w0", true)] };
    assert_eq!(clauses(&cnt), vec![Clause::RunningCountMismatch]);
    // priority order: orphan first
    let both = Obs { workers: ws(&[("w1", &["x"], 0)]), placements: vec![pl("g0", "p", "w0", true)] };
    assert_eq!(primary(&both).map(|(c, _)| c), Some(Clause::RunningPlacementOrphaned));
}
