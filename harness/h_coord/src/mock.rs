//! Loopback mock worker: every exploring thread runs its own warp server on 127.0.0.1 (ephemeral
//! port) inside its own single-threaded tokio runtime, and plays all workers of the world that
//! thread is currently replaying. The address the coordinator gets for worker `w` is
//! `http://127.0.0.1:<port>/w/<w>`, to which the real coordinator code appends
//! `/api/v1/pipelines[...]`. The monolithic coordinator operations (`drain_worker`,
//! `handle_worker_failure`, `reconcile_placements`, `rebalance`) do real HTTP against it (client and
//! server futures are driven by the same `block_on`); the phased operations (whose execute phase is a
//! static function that never touches coordinator state) apply the same effects through the same
//! `MockState` methods without HTTP.
//!
//! Scripting: a deploy call fails (HTTP 500) iff the pipeline name is in `fail_names`; checkpoint
//! answers 404 (best effort in the coordinator: no checkpoint, hence no restore); delete succeeds.

use std::cell::Cell;
use std::collections::{BTreeMap, BTreeSet};
use std::sync::{Arc, Mutex};
use warp::Filter;

#[derive(Clone, Debug, PartialEq, Eq)]
pub enum Call {
    Deploy { worker: u8, name: String, ok: bool },
    Checkpoint { worker: u8 },
    Restore { worker: u8 },
    Delete { worker: u8 },
}

#[derive(Default)]
pub struct MockState {
    /// live pipelines: (worker, pipeline id) -> name
    pub pipes: BTreeMap<(u8, String), String>,
    pub seq: u32,
    pub fail_names: BTreeSet<String>,
    /// HTTP calls received since the log was last cleared
    pub log: Vec<Call>,
}

impl MockState {
    /// worker-side deploy; `None` = the call failed (nothing is started)
    pub fn deploy(&mut self, w: u8, name: &str, ok: bool) -> Option<String> {
        if !ok {
            return None;
        }
        self.seq += 1;
        let id = format!("pid{}", self.seq);
        self.pipes.insert((w, id.clone()), name.to_string());
        Some(id)
    }
    pub fn delete(&mut self, w: u8, id: &str) {
        self.pipes.remove(&(w, id.to_string()));
    }
    /// what the worker's heartbeat reports
    pub fn count(&self, w: u8) -> usize {
        self.pipes.keys().filter(|(x, _)| *x == w).count()
    }
    /// the worker process restarted: all its pipelines are gone
    pub fn restart(&mut self, w: u8) {
        self.pipes.retain(|(x, _), _| *x != w);
    }
    pub fn deploys(&self, from: usize) -> (usize, usize) {
        let ok = self.log[from..].iter().filter(|c| matches!(c, Call::Deploy { ok: true, .. })).count();
        let fail = self.log[from..].iter().filter(|c| matches!(c, Call::Deploy { ok: false, .. })).count();
        (ok, fail)
    }
}

type SharedState = Arc<Mutex<MockState>>;

struct ThreadMock {
    rt: tokio::runtime::Runtime,
    port: u16,
    state: SharedState,
    in_use: Cell<bool>,
}

impl ThreadMock {
    fn start() -> ThreadMock {
        let rt = tokio::runtime::Builder::new_current_thread().enable_all().build().unwrap_or_else(|e| mc::machinery_error(&format!("tokio runtime: {e}")));
        let state: SharedState = Arc::new(Mutex::new(MockState::default()));
        let bound = {
            let _g = rt.enter();
            warp::serve(routes(state.clone())).try_bind_ephemeral(([127, 0, 0, 1], 0))
        };
        let port = match bound {
            Ok((addr, fut)) => {
                rt.spawn(fut);
                addr.port()
            }
            Err(e) => mc::machinery_error(&format!("cannot bind loopback mock worker: {e}")),
        };
        ThreadMock { rt, port, state, in_use: Cell::new(false) }
    }
}

thread_local! {
    static MOCK: ThreadMock = ThreadMock::start();
}

/// Drive a coordinator future (and the mock server it talks to) on this thread's runtime.
pub fn block_on<F: std::future::Future>(f: F) -> F::Output {
    MOCK.with(|m| m.rt.block_on(f))
}

fn lock(s: &SharedState) -> std::sync::MutexGuard<'_, MockState> {
    s.lock().unwrap_or_else(|e| e.into_inner())
}

fn routes(st: SharedState) -> impl Filter<Extract = (impl warp::Reply,), Error = warp::Rejection> + Clone {
    use warp::http::StatusCode;
    let (s1, s2, s3, s4) = (st.clone(), st.clone(), st.clone(), st);
    let deploy = warp::post().and(warp::path!("w" / u8 / "api" / "v1" / "pipelines")).and(warp::body::json()).map(move |w: u8, body: serde_json::Value| {
        let name = body.get("name").and_then(|v| v.as_str()).unwrap_or("").to_string();
        let id = {
            let mut m = lock(&s1);
            let ok = !m.fail_names.contains(&name);
            let id = m.deploy(w, &name, ok);
            m.log.push(Call::Deploy { worker: w, name: name.clone(), ok });
            id
        };
        match id {
            Some(id) => warp::reply::with_status(warp::reply::json(&serde_json::json!({"id": id, "name": name, "status": "running"})), StatusCode::OK),
            None => warp::reply::with_status(warp::reply::json(&serde_json::json!({"error": "scripted failure"})), StatusCode::INTERNAL_SERVER_ERROR),
        }
    });
    let checkpoint = warp::post().and(warp::path!("w" / u8 / "api" / "v1" / "pipelines" / String / "checkpoint")).map(move |w: u8, _id: String| {
        lock(&s2).log.push(Call::Checkpoint { worker: w });
        warp::reply::with_status(warp::reply::json(&serde_json::json!({"error": "no checkpoint"})), StatusCode::NOT_FOUND)
    });
    let restore = warp::post().and(warp::path!("w" / u8 / "api" / "v1" / "pipelines" / String / "restore")).map(move |w: u8, _id: String| {
        lock(&s3).log.push(Call::Restore { worker: w });
        warp::reply::with_status(warp::reply::json(&serde_json::json!({"restored": true})), StatusCode::OK)
    });
    let delete = warp::delete().and(warp::path!("w" / u8 / "api" / "v1" / "pipelines" / String)).map(move |w: u8, id: String| {
        {
            let mut m = lock(&s4);
            m.delete(w, &id);
            m.log.push(Call::Delete { worker: w });
        }
        warp::reply::with_status(warp::reply::json(&serde_json::json!({"deleted": true})), StatusCode::OK)
    });
    deploy.or(checkpoint).or(restore).or(delete)
}

/// Exclusive use of this thread's mock workers for the lifetime of one world.
pub struct SlotGuard {
    state: SharedState,
    port: u16,
    _not_send: std::marker::PhantomData<*const ()>,
}

impl SlotGuard {
    pub fn acquire() -> SlotGuard {
        MOCK.with(|m| {
            if m.in_use.replace(true) {
                mc::machinery_error("two worlds alive on one thread would share the mock workers");
            }
            *lock(&m.state) = MockState::default();
            SlotGuard { state: m.state.clone(), port: m.port, _not_send: std::marker::PhantomData }
        })
    }
    pub fn with<T>(&self, f: impl FnOnce(&mut MockState) -> T) -> T {
        f(&mut lock(&self.state))
    }
    pub fn address(&self, w: u8) -> String {
        format!("http://127.0.0.1:{}/w/{}", self.port, w)
    }
}

impl Drop for SlotGuard {
    fn drop(&mut self) {
        // the thread-local may already be gone during thread teardown; nothing to release then
        let _ = MOCK.try_with(|m| m.in_use.set(false));
    }
}

/// worker index encoded in a mock address (last path segment)
pub fn worker_of_address(addr: &str) -> u8 {
    addr.rsplit('/').next().and_then(|s| s.parse().ok()).unwrap_or_else(|| mc::machinery_error(&format!("not a mock worker address: {addr}")))
}
